"""Exact algebra used as value domains by the abstract interpreter.

Poly  : commutative Laurent polynomials over hashable atoms, Fraction coefficients.
        Atoms may be applications such as ('sqrt', key) / ('inv', key) / ('abs', key):
        equal arguments give equal atoms (value numbering), nothing is ever evaluated.
NC    : non-commutative polynomials over matrix generators with an involution
        (transpose for real matrices, conjugate transpose for quaternion matrices),
        coefficients in Poly.  Normal form = dict word -> Poly; equality of normal
        forms is the only decision procedure.
Three-valued comparisons: structurally equal -> True, two different constants -> False,
otherwise UNKNOWN (the interpreter must be told what to do, it never guesses).
"""
from __future__ import annotations

from fractions import Fraction
import numbers
import time as _time


try:
    import numpy as _np
    _BOOLS = (bool, _np.bool_)
except Exception:          # pragma: no cover
    _BOOLS = (bool,)


class _Unknown:
    """Truth value of a condition that depends on runtime data."""

    def __init__(self, why=None):
        self.why = why

    def __repr__(self):
        return f"UNKNOWN({self.why})"

    def __bool__(self):
        raise UnknownTruth(self)

    # three-valued logic for elementwise boolean operators on masks (a decided operand decides or passes the other one through)
    def __invert__(self):
        return _Unknown(("not", self))

    def __and__(self, o):
        if o is False or (isinstance(o, _BOOLS) and not o):
            return False
        if o is True or (isinstance(o, _BOOLS) and o):
            return self
        if isinstance(o, _Unknown):
            return _Unknown(("and", self, o))
        return NotImplemented

    def __or__(self, o):
        if o is True or (isinstance(o, _BOOLS) and o):
            return True
        if o is False or (isinstance(o, _BOOLS) and not o):
            return self
        if isinstance(o, _Unknown):
            return _Unknown(("or", self, o))
        return NotImplemented

    __rand__ = __and__
    __ror__ = __or__


class UnknownTruth(Exception):
    pass


def UNKNOWN(why=None):
    return _Unknown(why)


def is_unknown(v):
    return isinstance(v, _Unknown)


class IKey(tuple):
    """Interned normal-form key: an ordinary tuple (equality / hash compatible with plain tuples) whose
    repr is a short id and whose hash is cached, so that atoms nested in atoms stay cheap."""

    def __repr__(self):
        return f"#{self._id}"

    def __hash__(self):
        h = self.__dict__.get("_h")
        if h is None:
            h = tuple.__hash__(self)
            self.__dict__["_h"] = h
        return h

    def __eq__(self, o):
        if self is o:
            return True
        return tuple.__eq__(self, o)

    def __ne__(self, o):
        return not self.__eq__(o)

    def full(self):
        return tuple(self)


_INTERN = {}


def intern_key(t):
    if isinstance(t, IKey):
        return t
    k = IKey(t)
    got = _INTERN.get(k)
    if got is None:
        k._id = len(_INTERN) + 1
        _INTERN[k] = k
        return k
    return got


def _frac(x):
    if isinstance(x, Fraction):
        return x
    if isinstance(x, bool):
        return Fraction(int(x))
    if isinstance(x, numbers.Integral):
        return Fraction(int(x))
    if isinstance(x, float):
        if x != x or x in (float("inf"), float("-inf")):
            raise ValueError("non-finite constant")
        return Fraction(x)
    if hasattr(x, "item"):
        return _frac(x.item())
    raise TypeError(f"not a rational constant: {x!r}")


def is_number(x):
    if isinstance(x, (bool, numbers.Real, Fraction)):
        return True
    return type(x).__module__ == "numpy" and hasattr(x, "item") and getattr(x, "shape", None) == () \
        and isinstance(x.item(), (int, float, bool))


_INF = float("inf")
ZERO_ATOMS = frozenset()
DEADLINE = None


class AlgebraTimeout(Exception):
    pass


def set_deadline(t):
    global DEADLINE
    DEADLINE = t


def set_zero_atoms(atoms):
    global ZERO_ATOMS
    ZERO_ATOMS = frozenset(atoms)


class Poly:
    """Commutative Laurent polynomial.  terms: {monomial: Fraction}, monomial = tuple of
    (atom, exponent) sorted by repr(atom)."""

    __slots__ = ("terms", "_key")

    def __init__(self, terms=None):
        self.terms = terms or {}
        self._key = None

    # -- constructors -------------------------------------------------------------
    @staticmethod
    def const(c):
        c = _frac(c)
        return Poly({(): c} if c != 0 else {})

    @staticmethod
    def atom(a, exp=1):
        if a in ZERO_ATOMS:
            return Poly()                 # input symbol specialised to 0 (alternative scenario, see scenario.py)
        return Poly({((a, exp),): Fraction(1)})

    @staticmethod
    def lift(x):
        if isinstance(x, Poly):
            return x
        if is_number(x):
            return Poly.const(x)
        raise TypeError(f"cannot lift {type(x).__name__} to Poly")

    # -- inspection ---------------------------------------------------------------
    def key(self):
        if self._key is None:
            self._key = intern_key(tuple(sorted(((m, c) for m, c in self.terms.items()), key=_mono_sort_key)))
        return self._key

    def __hash__(self):
        return hash(self.key())

    def same(self, other):
        try:
            other = Poly.lift(other)
        except TypeError:
            return False
        return self.terms == other.terms

    def is_const(self):
        return all(m == () for m in self.terms)

    def const_value(self):
        assert self.is_const()
        return self.terms.get((), Fraction(0))

    def is_zero(self):
        return not self.terms

    def atoms(self):
        out = set()
        for m in self.terms:
            for a, _ in m:
                out.add(a)
        return out

    def as_single_atom(self):
        """Return (coef, atom, exp) if self == coef*atom**exp else None."""
        if len(self.terms) == 1:
            (m, c), = self.terms.items()
            if len(m) == 1:
                return c, m[0][0], m[0][1]
        return None

    def __repr__(self):
        if not self.terms:
            return "0"
        parts = []
        for m, c in sorted(self.terms.items(), key=lambda t: repr(t[0])):
            ms = "*".join((_arepr(a) if e == 1 else f"{_arepr(a)}^{e}") for a, e in m)
            if not ms:
                parts.append(str(c))
            elif c == 1:
                parts.append(ms)
            elif c == -1:
                parts.append("-" + ms)
            else:
                parts.append(f"{c}*{ms}")
        return " + ".join(parts).replace("+ -", "- ")

    # -- arithmetic ---------------------------------------------------------------
    def __neg__(self):
        return Poly({m: -c for m, c in self.terms.items()})

    def __pos__(self):
        return self

    def _coerce(self, o):
        if isinstance(o, Poly):
            return o
        if is_number(o):
            return Poly.const(o)
        return None

    def _cx(self, o):
        if isinstance(o, complex):
            return SC(Poly.const(o.real), Poly.const(o.imag))
        return None

    def __add__(self, o):
        if isinstance(o, float) and o in (_INF, -_INF):
            return o                      # finite symbolic value + infinity
        o2 = self._coerce(o)
        if o2 is None:
            return NotImplemented
        t = dict(self.terms)
        for m, c in o2.terms.items():
            v = t.get(m, 0) + c
            if v == 0:
                t.pop(m, None)
            else:
                t[m] = v
        return Poly(t)

    def __radd__(self, o):
        c = self._cx(o)
        if c is not None:
            return c + self
        return self.__add__(o)

    def __sub__(self, o):
        if isinstance(o, float) and o in (_INF, -_INF):
            return -o
        o2 = self._coerce(o)
        if o2 is None:
            return NotImplemented
        return self + (-o2)

    def __rsub__(self, o):
        if isinstance(o, float) and o in (_INF, -_INF):
            return o
        o2 = self._coerce(o)
        if o2 is None:
            return NotImplemented
        return o2 + (-self)

    @staticmethod
    def _mulmono(m1, m2):
        if not m1:
            return m2
        if not m2:
            return m1
        # both monomials are sorted by _ak(atom): linear merge
        out = []
        i = j = 0
        n1, n2 = len(m1), len(m2)
        while i < n1 and j < n2:
            a1, e1 = m1[i]
            a2, e2 = m2[j]
            if a1 == a2:
                e = e1 + e2
                if e != 0:
                    out.append((a1, e))
                i += 1
                j += 1
            else:
                k1, k2 = _ak(a1), _ak(a2)
                if k1 < k2:
                    out.append(m1[i])
                    i += 1
                else:
                    out.append(m2[j])
                    j += 1
        if i < n1:
            out.extend(m1[i:])
        if j < n2:
            out.extend(m2[j:])
        return tuple(out)

    def __mul__(self, o):
        o2 = self._coerce(o)
        if o2 is None:
            return NotImplemented
        t = {}
        if DEADLINE is not None and len(self.terms) * len(o2.terms) > 2000 and _time.time() > DEADLINE:
            raise AlgebraTimeout("time budget exceeded inside polynomial arithmetic (expression swell)")
        for m1, c1 in self.terms.items():
            for m2, c2 in o2.terms.items():
                m = Poly._mulmono(m1, m2)
                v = t.get(m, 0) + c1 * c2
                if v == 0:
                    t.pop(m, None)
                else:
                    t[m] = v
        return Poly(t)

    def __rmul__(self, o):
        c = self._cx(o)
        if c is not None:
            return c * self
        return self.__mul__(o)

    def inverse(self):
        if not self.terms:
            raise ZeroDivisionError("division by the zero polynomial")
        if len(self.terms) == 1:
            (m, c), = self.terms.items()
            return Poly({tuple((a, -e) for a, e in m): 1 / c})
        return Poly.atom(("inv", self.key()))

    def __truediv__(self, o):
        o2 = self._coerce(o)
        if o2 is None:
            return NotImplemented
        return self * o2.inverse()

    def __rtruediv__(self, o):
        o2 = self._coerce(o)
        if o2 is None:
            return NotImplemented
        return o2 * self.inverse()

    def __pow__(self, e):
        if isinstance(e, Poly) and e.is_const():
            e = e.const_value()
        if is_number(e):
            e = _frac(e)
            if e.denominator == 1:
                n = int(e)
                if n >= 0:
                    r = Poly.const(1)
                    for _ in range(n):
                        r = r * self
                    return r
                return (self ** (-n)).inverse()
            if e == Fraction(1, 2):
                return self.sqrt()
            if len(self.terms) == 1:
                (m, c), = self.terms.items()
                if c == 1:
                    return Poly({tuple((a, ex * e) for a, ex in m): Fraction(1)})
            return Poly.atom(("pow", self.key(), e))
        return NotImplemented

    def sqrt(self):
        if self.is_const():
            c = self.const_value()
            if c >= 0:
                import math
                n, d = c.numerator, c.denominator
                rn, rd = math.isqrt(n), math.isqrt(d)
                if rn * rn == n and rd * rd == d:
                    return Poly.const(Fraction(rn, rd))
        # sqrt(a^2) for a known non-negative atom
        s = self.as_single_atom()
        if s is not None:
            c, a, e = s
            if c == 1 and e % 2 == 0 and isinstance(a, tuple) and a and a[0] in NONNEG_ATOMS:
                return Poly.atom(a, e // 2)
            if c == 1 and e == 2:
                # sqrt(x^2) = |x|  (one normal form for the modulus of a real quantity, whichever way the code spells it)
                return abs(Poly.atom(a))
        return Poly.atom(("sqrt", self.key()))

    def __abs__(self):
        if self.is_const():
            return Poly.const(abs(self.const_value()))
        s = self.as_single_atom()
        if s is not None:
            c, a, e = s
            if isinstance(a, tuple) and a and a[0] in NONNEG_ATOMS:
                return Poly({((a, e),): abs(c)})
        return Poly.atom(("abs", canon_sign(self).key()))

    def conjugate(self):
        return self

    conj = conjugate

    @property
    def real(self):
        return self

    @property
    def imag(self):
        return Poly()

    def __float__(self):
        if self.is_const():
            return float(self.const_value())
        raise SymbolicValue("float() of a symbolic value")

    # -- three-valued comparisons -------------------------------------------------
    def _cmp(self, o, op):
        if isinstance(o, float) and o in (float("inf"), float("-inf")):
            up = o > 0      # a symbolic value is a finite real
            return {"lt": up, "le": up, "gt": not up, "ge": not up, "eq": False, "ne": True}[op]
        o2 = self._coerce(o)
        if o2 is None:
            return NotImplemented
        d = self - o2
        if d.is_const():
            v = d.const_value()
            return {"lt": v < 0, "le": v <= 0, "gt": v > 0, "ge": v >= 0, "eq": v == 0, "ne": v != 0}[op]
        return UNKNOWN((op, self, o2))

    def __lt__(self, o):
        return self._cmp(o, "lt")

    def __le__(self, o):
        return self._cmp(o, "le")

    def __gt__(self, o):
        return self._cmp(o, "gt")

    def __ge__(self, o):
        return self._cmp(o, "ge")

    def __eq__(self, o):
        return self._cmp(o, "eq")

    def __ne__(self, o):
        return self._cmp(o, "ne")

    def __bool__(self):
        if self.is_const():
            return self.const_value() != 0
        raise UnknownTruth(UNKNOWN(("truth", self)))

    def subs(self, mapping):
        """Substitute atoms by Poly / numbers (exact)."""
        out = Poly()
        for m, c in self.terms.items():
            t = Poly.const(c)
            for a, e in m:
                base = mapping.get(a)
                base = Poly.atom(a) if base is None else Poly.lift(base)
                t = t * (base ** e)
            out = out + t
        return out


_AK = {}


def _ak(a):
    """cached sort key of an atom (its repr)"""
    k = _AK.get(a)
    if k is None:
        k = repr(a)
        _AK[a] = k
    return k


def _mono_sort_key(t):
    return tuple((_ak(a), e) for a, e in t[0])


class SymbolicValue(Exception):
    pass


NONNEG_ATOMS = {"sqrt", "abs", "fro", "norm", "sumsq", "nrm"}


def canon_sign(p: Poly) -> Poly:
    """Representative of {p, -p} (used for even functions)."""
    q = -p
    return p if repr(p.key()) <= repr(q.key()) else q


def _arepr(a):
    if isinstance(a, tuple):
        return a[0] + "(" + ",".join(_short(x) for x in a[1:]) + ")"
    return str(a)


def _short(x):
    s = repr(x)
    return s if len(s) < 60 else s[:57] + "..."


# ======================================================================================
# Non-commutative polynomials
# ======================================================================================

class Gen:
    """A matrix generator.  kind: 'real' (involution = transpose) or 'quat'
    (involution = conjugate transpose).  flags: unitary / symmetric."""

    __slots__ = ("name", "kind", "unitary", "symmetric", "isometry")

    def __init__(self, name, kind="real", unitary=False, symmetric=False):
        self.name, self.kind, self.unitary, self.symmetric = name, kind, unitary, symmetric

    def __repr__(self):
        return self.name


class NC:
    """sum of coef * word; word = tuple of (gen_name, adj: bool)."""

    __slots__ = ("terms", "ctx")

    def __init__(self, terms=None, ctx=None):
        self.terms = terms or {}
        self.ctx = ctx  # NCContext with generator flags

    # -- helpers ------------------------------------------------------------------
    def _new(self, terms):
        return NC(terms, self.ctx)

    @staticmethod
    def _add_to(t, w, c):
        v = t.get(w)
        v = c if v is None else v + c
        if v.is_zero():
            t.pop(w, None)
        else:
            t[w] = v

    def key(self):
        return intern_key(tuple(sorted(((w, c.key()) for w, c in self.terms.items()), key=repr)))

    def same(self, o):
        if not isinstance(o, NC):
            return False
        if set(self.terms) != set(o.terms):
            return False
        return all(self.terms[w].same(o.terms[w]) for w in self.terms)

    def is_zero(self):
        return not self.terms

    def __repr__(self):
        if not self.terms:
            return "0"
        out = []
        for w, c in sorted(self.terms.items(), key=lambda t: repr(t[0])):
            ws = ".".join(n + ("'" if a else "") for n, a in w) or "1"
            cs = repr(c)
            if cs == "1":
                out.append(ws)
            elif cs == "-1":
                out.append("-" + ws)
            else:
                out.append(f"({cs})*{ws}")
        return " + ".join(out).replace("+ -", "- ")

    # -- arithmetic ---------------------------------------------------------------
    def __neg__(self):
        return self._new({w: -c for w, c in self.terms.items()})

    def __pos__(self):
        return self

    def __add__(self, o):
        if is_number(o) and _frac(o) == 0:
            return self
        if not isinstance(o, NC):
            return NotImplemented
        t = dict(self.terms)
        for w, c in o.terms.items():
            NC._add_to(t, w, c)
        return NC(t, self.ctx or o.ctx)

    __radd__ = __add__

    def __sub__(self, o):
        if is_number(o) and _frac(o) == 0:
            return self
        if not isinstance(o, NC):
            return NotImplemented
        return self + (-o)

    def __rsub__(self, o):
        if is_number(o) and _frac(o) == 0:
            return -self
        return NotImplemented

    def scale(self, s):
        s = Poly.lift(s)
        if s.is_zero():
            return self._new({})
        return self._new({w: c * s for w, c in self.terms.items()})

    def mul(self, o):
        """matrix product self @ o"""
        ctx = self.ctx or o.ctx
        t = {}
        for w1, c1 in self.terms.items():
            for w2, c2 in o.terms.items():
                w = ctx.reduce(w1 + w2) if ctx else w1 + w2
                NC._add_to(t, w, c1 * c2)
        return NC(t, ctx)

    def adj(self):
        """involution: reverse every word and flip the adjoint flag of every letter."""
        ctx = self.ctx
        t = {}
        for w, c in self.terms.items():
            w2 = tuple((n, (not a) if not (ctx and ctx.is_symmetric(n)) else False) for n, a in reversed(w))
            NC._add_to(t, w2, c)
        return NC(t, ctx)


class NCContext:
    """Generator table with rewrite rules used by the normal form:
       unitary U:   U U' -> 1 and U' U -> 1
       isometry U:  U' U -> 1 only (orthonormal columns)
       inverse pair (R, Rinv): R Rinv -> 1, Rinv R -> 1 (same adjoint flag)
       symmetric S: S' -> S"""

    def __init__(self):
        self.gens = {}
        self.inverse_of = {}
        self._n = 0

    def gen(self, name, **kw):
        iso = kw.pop("isometry", False)
        g = Gen(name, **kw)
        g.isometry = iso
        self.gens[name] = g
        return NC({((name, False),): Poly.const(1)}, self)

    def fresh(self, base, **kw):
        self._n += 1
        return self.gen(f"{base}#{self._n}", **kw)

    def inverse_pair(self, a, b):
        self.inverse_of[a] = b
        self.inverse_of[b] = a

    def one(self):
        return NC({(): Poly.const(1)}, self)

    def zero(self):
        return NC({}, self)

    def is_symmetric(self, n):
        g = self.gens.get(n)
        return bool(g and g.symmetric)

    def reduce(self, w):
        changed = True
        while changed:
            changed = False
            for i in range(len(w) - 1):
                (n1, a1), (n2, a2) = w[i], w[i + 1]
                kill = False
                if n1 == n2 and a1 != a2:
                    g = self.gens.get(n1)
                    if g and g.unitary:
                        kill = True
                    elif g and getattr(g, "isometry", False) and a1 and not a2:
                        kill = True
                elif self.inverse_of.get(n1) == n2 and a1 == a2:
                    kill = True
                if kill:
                    w = w[:i] + w[i + 2:]
                    changed = True
                    break
        return w


# ======================================================================================
# Symbolic complex and quaternion scalars (components are Poly)
# ======================================================================================

def P(x):
    return Poly.lift(x)


class SC:
    """symbolic complex number re + i*im"""

    __slots__ = ("re", "im")

    def __init__(self, re, im=0):
        self.re, self.im = P(re), P(im)

    @staticmethod
    def lift(x):
        if isinstance(x, SC):
            return x
        if isinstance(x, complex):
            return SC(x.real, x.imag)
        if isinstance(x, Poly) or is_number(x):
            return SC(x, 0)
        return None

    def same(self, o):
        o = SC.lift(o)
        return o is not None and self.re.same(o.re) and self.im.same(o.im)

    def key(self):
        return ("C", self.re.key(), self.im.key())

    def __hash__(self):
        return hash(self.key())

    def __repr__(self):
        return f"({self.re!r}) + i({self.im!r})"

    def __neg__(self):
        return SC(-self.re, -self.im)

    def __add__(self, o):
        o = SC.lift(o)
        if o is None:
            return NotImplemented
        return SC(self.re + o.re, self.im + o.im)

    __radd__ = __add__

    def __sub__(self, o):
        o = SC.lift(o)
        if o is None:
            return NotImplemented
        return SC(self.re - o.re, self.im - o.im)

    def __rsub__(self, o):
        o = SC.lift(o)
        if o is None:
            return NotImplemented
        return o - self

    def __mul__(self, o):
        o = SC.lift(o)
        if o is None:
            return NotImplemented
        return SC(self.re * o.re - self.im * o.im, self.re * o.im + self.im * o.re)

    __rmul__ = __mul__

    def conjugate(self):
        return SC(self.re, -self.im)

    conj = conjugate

    def norm2(self):
        return self.re * self.re + self.im * self.im

    def __truediv__(self, o):
        o = SC.lift(o)
        if o is None:
            return NotImplemented
        if o.im.is_zero():
            d = o.re.inverse()
            return SC(self.re * d, self.im * d)
        d = o.norm2().inverse()
        n = self * o.conjugate()
        return SC(n.re * d, n.im * d)

    def __abs__(self):
        return self.norm2().sqrt()

    @property
    def real(self):
        return self.re

    @property
    def imag(self):
        return self.im

    def __eq__(self, o):
        o = SC.lift(o)
        if o is None:
            return NotImplemented
        a, b = (self.re == o.re), (self.im == o.im)
        if a is True and b is True:
            return True
        if a is False or b is False:
            return False
        return UNKNOWN(("eq", self, o))

    def __ne__(self, o):
        r = self.__eq__(o)
        if r is NotImplemented or is_unknown(r):
            return r
        return not r


# multiplication table of the quaternion units derived from i^2 = j^2 = k^2 = ijk = -1:
# e_a e_a = -1 (a>0), e_a e_b = eps_abc e_c with (1,2,3) cyclic.
def _unit_table():
    t = {}
    for a in range(4):
        for b in range(4):
            if a == 0:
                t[(a, b)] = (1, b)
            elif b == 0:
                t[(a, b)] = (1, a)
            elif a == b:
                t[(a, b)] = (-1, 0)
            else:
                c = 6 - a - b
                sign = 1 if (b - a) % 3 == 1 else -1
                t[(a, b)] = (sign, c)
    return t


UNIT_TABLE = _unit_table()


def hamilton(L, R, mul):
    """Reference Hamilton product on 4-tuples of components with a bilinear `mul`
    (operand order preserved).  This is the oracle of C01; it is generated from the
    defining relations, not taken from any repository code."""
    out = [None, None, None, None]
    for a in range(4):
        for b in range(4):
            s, c = UNIT_TABLE[(a, b)]
            term = mul(L[a], R[b])
            if s < 0:
                term = -term
            out[c] = term if out[c] is None else out[c] + term
    return out


class SQ:
    """symbolic quaternion scalar w + x i + y j + z k (components Poly)"""

    __slots__ = ("c",)

    def __init__(self, w=0, x=0, y=0, z=0):
        self.c = (P(w), P(x), P(y), P(z))

    @staticmethod
    def lift(x):
        if isinstance(x, SQ):
            return x
        if isinstance(x, Poly) or is_number(x):
            return SQ(x, 0, 0, 0)
        return None

    w = property(lambda s: s.c[0])
    x = property(lambda s: s.c[1])
    y = property(lambda s: s.c[2])
    z = property(lambda s: s.c[3])

    @property
    def real(self):
        return self.c[0]

    @property
    def imag(self):
        return [self.c[1], self.c[2], self.c[3]]

    def same(self, o):
        o = SQ.lift(o)
        return o is not None and all(a.same(b) for a, b in zip(self.c, o.c))

    def key(self):
        return ("Q",) + tuple(a.key() for a in self.c)

    def __hash__(self):
        return hash(self.key())

    def __repr__(self):
        return "Q(" + ", ".join(repr(a) for a in self.c) + ")"

    def is_zero(self):
        return all(a.is_zero() for a in self.c)

    def __neg__(self):
        return SQ(*[-a for a in self.c])

    def __pos__(self):
        return self

    def __add__(self, o):
        o = SQ.lift(o)
        if o is None:
            return NotImplemented
        return SQ(*[a + b for a, b in zip(self.c, o.c)])

    __radd__ = __add__

    def __sub__(self, o):
        o = SQ.lift(o)
        if o is None:
            return NotImplemented
        return SQ(*[a - b for a, b in zip(self.c, o.c)])

    def __rsub__(self, o):
        o = SQ.lift(o)
        if o is None:
            return NotImplemented
        return o - self

    def __mul__(self, o):
        o2 = SQ.lift(o)
        if o2 is None:
            return NotImplemented
        return SQ(*hamilton(self.c, o2.c, lambda a, b: a * b))

    def __rmul__(self, o):
        o2 = SQ.lift(o)
        if o2 is None:
            return NotImplemented
        return o2 * self

    def conjugate(self):
        return SQ(self.c[0], -self.c[1], -self.c[2], -self.c[3])

    conj = conjugate

    def norm2(self):
        return self.c[0] * self.c[0] + self.c[1] * self.c[1] + self.c[2] * self.c[2] + self.c[3] * self.c[3]

    def inverse(self):
        d = self.norm2().inverse()
        cj = self.conjugate()
        return SQ(*[a * d for a in cj.c])

    def __truediv__(self, o):
        o2 = SQ.lift(o)
        if o2 is None:
            return NotImplemented
        if all(c.is_zero() for c in o2.c[1:]):
            d = o2.c[0].inverse()
            return SQ(*[a * d for a in self.c])
        return self * o2.inverse()          # numpy-quaternion: a / b = a * b^-1

    def __rtruediv__(self, o):
        o2 = SQ.lift(o)
        if o2 is None:
            return NotImplemented
        return o2 * self.inverse()

    def __abs__(self):
        return self.norm2().sqrt()

    def abs(self):
        return abs(self)

    def norm(self):
        return self.norm2()

    def __eq__(self, o):
        o = SQ.lift(o)
        if o is None:
            return NotImplemented
        rs = [a == b for a, b in zip(self.c, o.c)]
        if all(r is True for r in rs):
            return True
        if any(r is False for r in rs):
            return False
        return UNKNOWN(("eq", self, o))

    def __ne__(self, o):
        r = self.__eq__(o)
        if r is NotImplemented or is_unknown(r):
            return r
        return not r


# ======================================================================================
# NQ: quaternion-valued expression in a free *-algebra (entry-level generators)
# ======================================================================================

_NQ_CTX = NCContext()


class NQ:
    """A quaternion scalar written as a non-commutative polynomial in *generator quaternions*
    (entries of symbolic matrices) with real (Poly) coefficients; conjugation is the involution
    (reverses words).  Much cheaper than 4-component SQ for similarity identities; components
    .w/.x/.y/.z of a non-scalar expression are value-numbered atoms ('comp', key, p)."""

    __slots__ = ("nc",)

    def __init__(self, nc):
        self.nc = nc

    @staticmethod
    def gen(name):
        if ZERO_ATOMS and all(("gcomp", name, p) in ZERO_ATOMS for p in range(4)):
            return NQ(NC({}, _NQ_CTX))        # generator specialised to 0 (alternative scenario)
        _NQ_CTX.gens.setdefault(name, Gen(name, kind="quat"))
        return NQ(NC({((name, False),): Poly.const(1)}, _NQ_CTX))

    @staticmethod
    def scalar(c):
        c = Poly.lift(c)
        return NQ(NC({(): c} if not c.is_zero() else {}, _NQ_CTX))

    @staticmethod
    def lift(x):
        if isinstance(x, NQ):
            return x
        if isinstance(x, Poly) or is_number(x):
            return NQ.scalar(x)
        if isinstance(x, SQ):
            if all(c.is_zero() for c in x.c[1:]):
                return NQ.scalar(x.c[0])
            return None
        return None

    def is_scalar(self):
        return all(w == () for w in self.nc.terms)

    def scalar_value(self):
        return self.nc.terms.get((), Poly())

    def is_zero(self):
        return self.nc.is_zero()

    def same(self, o):
        o = NQ.lift(o)
        return o is not None and self.nc.same(o.nc)

    def key(self):
        return ("NQ", self.nc.key())

    def __hash__(self):
        return hash(self.key())

    def __repr__(self):
        return f"NQ[{self.nc!r}]"

    def _comp(self, p):
        if self.is_scalar():
            return self.scalar_value() if p == 0 else Poly()
        if len(self.nc.terms) == 1:
            (w, c), = self.nc.terms.items()
            if len(w) == 1 and c.is_const():
                # component of (a real multiple of) a single generator or its conjugate: named after the generator, so that an
                # input specialisation "these components are 0" can be mapped back to the generator (see NQ.gen)
                name, adj = w[0]
                sign = -1 if (adj and p > 0) else 1
                return Poly.atom(("gcomp", name, p)) * (c.const_value() * sign)
        return Poly.atom(("comp", self.nc.key(), p))

    w = property(lambda s: s._comp(0))
    x = property(lambda s: s._comp(1))
    y = property(lambda s: s._comp(2))
    z = property(lambda s: s._comp(3))

    @property
    def c(self):
        return tuple(self._comp(p) for p in range(4))

    @property
    def real(self):
        return self._comp(0)

    def __neg__(self):
        return NQ(-self.nc)

    def __pos__(self):
        return self

    def __add__(self, o):
        o = NQ.lift(o)
        if o is None:
            return NotImplemented
        return NQ(self.nc + o.nc)

    __radd__ = __add__

    def __sub__(self, o):
        o = NQ.lift(o)
        if o is None:
            return NotImplemented
        return NQ(self.nc - o.nc)

    def __rsub__(self, o):
        o = NQ.lift(o)
        if o is None:
            return NotImplemented
        return NQ(o.nc - self.nc)

    def __mul__(self, o):
        if isinstance(o, Poly) or is_number(o):
            return NQ(self.nc.scale(o))
        o = NQ.lift(o)
        if o is None:
            return NotImplemented
        return NQ(self.nc.mul(o.nc))

    def __rmul__(self, o):
        if isinstance(o, Poly) or is_number(o):
            return NQ(self.nc.scale(o))
        o = NQ.lift(o)
        if o is None:
            return NotImplemented
        return NQ(o.nc.mul(self.nc))

    def __truediv__(self, o):
        if isinstance(o, Poly) or is_number(o):
            return NQ(self.nc.scale(Poly.lift(o).inverse()))
        return NotImplemented

    def conjugate(self):
        return NQ(self.nc.adj())

    conj = conjugate

    def norm2(self):
        c = self.c
        return c[0] * c[0] + c[1] * c[1] + c[2] * c[2] + c[3] * c[3]

    def __abs__(self):
        return self.norm2().sqrt()

    def norm(self):
        return self.norm2()

    def __eq__(self, o):
        o2 = NQ.lift(o)
        if o2 is None:
            return NotImplemented
        if self.nc.same(o2.nc):
            return True
        if self.is_scalar() and o2.is_scalar():
            return self.scalar_value() == o2.scalar_value()
        return UNKNOWN(("eq", self, o2))

    def __ne__(self, o):
        r = self.__eq__(o)
        if r is NotImplemented or is_unknown(r):
            return r
        return not r


def as_quat(x):
    """lift a value stored into a quaternion array: keep SQ / NQ, lift numbers and Poly to SQ"""
    if isinstance(x, (SQ, NQ)):
        return x
    return SQ.lift(x)
