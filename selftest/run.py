#!/usr/bin/env python3
"""Checker self-test: applies each variant of selftest/variants.py to a scratch copy of the analysed tree and runs the quick
check of its property on the copy.  F-variants must end with exit 1 (VIOLATION), S-variants with exit 0.
Usage: selftest/run.py [PROP ...] [--jobs N]   (prints SELFTEST lines, never VIOLATION; exit 0 iff every variant behaves)."""
from __future__ import annotations

import os
import re
import shutil
import subprocess
import sys
import tempfile
from concurrent.futures import ThreadPoolExecutor

HERE = os.path.dirname(os.path.abspath(__file__))
VERIF = os.path.dirname(HERE)
sys.path.insert(0, VERIF)
from selftest.variants import VARIANTS   # noqa: E402


def run_variant(v, repo="/repo"):
    prop, name, rel, old, new, expect = v
    tmp = tempfile.mkdtemp(prefix="qselftest.")
    try:
        os.makedirs(os.path.join(tmp, "applications"))
        shutil.copytree(os.path.join(repo, "quatica"), os.path.join(tmp, "quatica"))
        shutil.copytree(os.path.join(repo, "applications", "image_deblurring"), os.path.join(tmp, "applications", "image_deblurring"))
        path = os.path.join(tmp, rel)
        src = open(path).read()
        n = len(re.findall(old, src))
        if n != 1:
            return (prop, name, expect, None, f"pattern matches {n} times (variant stale)")
        open(path, "w").write(re.sub(old, lambda m: new, src, count=1))
        try:
            compile(open(path).read(), path, "exec")
        except SyntaxError as e:
            return (prop, name, expect, None, f"variant does not parse: {e}")
        p = subprocess.run([os.path.join(VERIF, "check"), prop, "--root", tmp, "--no-evidence"], capture_output=True, text=True,
                           env=dict(os.environ, VERIF_TIME_LIMIT="600"))
        first = next((l for l in p.stdout.splitlines() if l.startswith(("FINDING", "ANALYSIS-ERROR"))), "")
        return (prop, name, expect, p.returncode, first[:200])
    finally:
        shutil.rmtree(tmp, ignore_errors=True)


def main(argv):
    jobs = 16
    props = []
    it = iter(argv)
    for a in it:
        if a == "--jobs":
            jobs = int(next(it))
        else:
            props.append(a.upper())
    todo = [v for v in VARIANTS if not props or v[0] in props]
    bad = 0
    with ThreadPoolExecutor(max(1, jobs)) as ex:
        for prop, name, expect, rc, info in ex.map(run_variant, todo):
            want = 1 if expect == "F" else 0
            ok = rc == want
            bad += 0 if ok else 1
            print(f"SELFTEST {prop} [{expect}] {name}: {'ok' if ok else 'UNEXPECTED'} (exit {rc}) {info if (not ok or expect == 'F') else ''}".rstrip())
    print(f"SELFTEST summary: {len(todo)} variants, {bad} unexpected")
    return 0 if bad == 0 else 3


if __name__ == "__main__":
    sys.exit(main(sys.argv[1:]))
