"""Helpers for rules that use the matrix-word (free *-algebra) domain E4."""
from __future__ import annotations

import ast

from qstatic.alg import Poly, P, NC, is_unknown
from qstatic.dom_nc import NCDomain, QM, fro_atom, std_summaries
from qstatic.interp import Interp, Instance, ModelError, RepoRaise, NeedChoice, Unsupported


class Decisions:
    """Chooser that decides UNKNOWN conditions through `policy(cond, node, interp, self)` and
    records every decision (the path condition)."""

    def __init__(self, policy):
        self.policy = policy
        self.log = []          # (cond, node, decision)

    def __call__(self, interp, node, cond):
        r = self.policy(cond, node, interp, self)
        if r is None:
            return None
        self.log.append((cond, node, bool(r)))
        return bool(r)


class DivDomain(NCDomain):
    """records every division by a symbolic scalar together with the decisions taken so far"""

    def __init__(self, decisions=None, ctx=None):
        super().__init__(ctx)
        self.decisions = decisions
        self.divisions = []

    def on_division(self, interp, a, b, node):
        self.divisions.append((b, node, list(self.decisions.log) if self.decisions else [], interp.where(node)))


def new_nc(ctx, policy, extra_summaries=None, **kw):
    dec = Decisions(policy)
    dom = DivDomain(dec)
    summ = std_summaries(dom)
    if extra_summaries:
        summ.update(extra_summaries(dom) if callable(extra_summaries) else extra_summaries)
    it = Interp(ctx.program, dom, chooser=dec, summaries=summ, **kw)
    dom._interp = it
    from qstatic.scenario import default_choice
    it.default_chooser = default_choice
    return it, dom, dec


def cond_atoms(cond):
    """atoms mentioned by an UNKNOWN comparison condition"""
    out = set()
    why = getattr(cond, "why", None)
    if isinstance(why, tuple):
        for x in why[1:]:
            if isinstance(x, Poly):
                out |= x.atoms()
    return out


def cond_parts(cond):
    why = getattr(cond, "why", None)
    if isinstance(why, tuple) and len(why) == 3 and isinstance(why[0], str):
        return why
    return None


def cond_canon(cond):
    """comparison in canonical orientation: ('le'|'lt'|'eq'|'ne', small_side, big_side)"""
    parts = cond_parts(cond)
    if parts is None:
        return None
    op, a, b = parts
    if op == "ge":
        return ("le", b, a)
    if op == "gt":
        return ("lt", b, a)
    return parts


def implies_nonzero(cond, decision, atom):
    """Does deciding `cond` as `decision` imply that `atom` (a non-negative norm) is non-zero?"""
    parts = cond_parts(cond)
    if parts is None:
        return False
    op, lhs, rhs = parts
    if not (isinstance(lhs, Poly) and isinstance(rhs, Poly)):
        return False
    one = lhs.as_single_atom()

    def is_atom_side(p):
        s = p.as_single_atom()
        return s is not None and s[1] == atom and s[0] > 0 and s[2] > 0

    def nonneg_const(p):
        return p.is_const() and p.const_value() >= 0

    if is_atom_side(lhs) and nonneg_const(rhs):
        # atom^e OP c  with c >= 0
        if op == "gt" and decision:
            return True
        if op == "le" and not decision:
            return True
        if rhs.is_zero() and ((op == "ne" and decision) or (op == "eq" and not decision)):
            return True
        if op == "ge" and decision and rhs.const_value() > 0:
            return True
        if op == "lt" and not decision and rhs.const_value() > 0:
            return True
    if is_atom_side(rhs) and nonneg_const(lhs):
        if op == "lt" and decision:
            return True
        if op == "ge" and not decision:
            return True
        if lhs.is_zero() and ((op == "ne" and decision) or (op == "eq" and not decision)):
            return True
    return False


def pure_norm_monomial(p: Poly):
    """If p is c * prod(norm atoms ^ positive exponents) (no additive regulariser) return the atoms."""
    if len(p.terms) != 1:
        return None
    (m, c), = p.terms.items()
    if not m:
        return None
    atoms = []
    for a, e in m:
        if isinstance(a, tuple) and a and a[0] in ("fro", "sqrt", "nrm") and e > 0:
            atoms.append(a)
        else:
            return None
    return atoms


def describe_scaling(coef: Poly, norm_atom):
    """Classify alpha in X0 = alpha * A^H.  Returns 'exact' (1/||A||^2), 'regularised'
    (1/(||A||^2 + c) or 1/max(||A||^2, c) with a tiny constant c) or None."""
    s = coef.as_single_atom()
    if s is None:
        return None
    c, a, e = s
    if c != 1:
        return None
    if a == norm_atom and e == -2:
        return "exact"
    n2 = Poly.atom(norm_atom) ** 2
    if isinstance(a, tuple) and a[0] == "inv" and e == 1:
        # inv(key) where key is the polynomial ||A||^2 + c
        for cst in _small_consts():
            if (n2 + cst).key() == a[1]:
                return "regularised"
        return None
    if isinstance(a, tuple) and a[0] == "max" and e == -1:
        keys = set(a[1:])
        if n2.key() in keys and len(keys) == 2:
            other = (keys - {n2.key()}).pop()
            for cst in _small_consts():
                if Poly.const(cst).key() == other:
                    return "regularised"
    return None


def _small_consts():
    from fractions import Fraction
    return [Fraction(float(f"1e-{k}")) for k in range(8, 41)]


def word_coeffs(qm: QM):
    return {w: c for w, c in qm.nc.terms.items()}
