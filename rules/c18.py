"""C18 - tensor unfold / fold and colour <-> quaternion mappings are lossless; metrics are zero-distance consistent.

Every anchored function is interpreted (AST only) on arrays of generic symbols for every shape of a box and
compared entry by entry with an index-level reference built here.

  D1 tensor_unfold / tensor_fold, every shape (I,J,K) of the box (singleton axes included) and mode 0..2:
     U = unfold(T, mode) has shape (dim_mode, product of the others) and U[i_mode, col] = T[i,j,k] where col
     enumerates the two remaining indices in C order of the ORIGINAL axis order (mode-n fibres are the columns);
     fold(U, mode, shape) = T and unfold(fold(M)) = M with the same symbols; fold rejects matrices of any other
     shape and modes outside {0,1,2} with ValueError; unfold rejects ndim != 3, non-quaternion input, bad modes.
     Both maps are pure permutations of the entries (checked: the same symbols, each exactly once), hence the
     Frobenius norm and the entrywise moduli are preserved - no separate numerical claim.
  D2 colour maps: rgb_to_quat puts real_part into plane 0 and R,G,B into planes 1..3; quat_to_rgb(clip=False)
     returns planes 1..3 unchanged in a fresh array; the round trip is the identity; split / stack are inverse.
     The DEFAULT path of quat_to_rgb (clip=True) is explored on every outcome of its range test: a path whose
     result is not planes 1..3 is a finding.  The documented heuristic clip (values in [-0.5,1.5] are clipped to
     [0,1]; witness 1.2 -> 1.0) is a KNOWN FINDING; any other deviation has a different construct.
  D3 zero-distance consistency by path analysis.  psnr: mse is structurally mean((x-x_ref)^2); the function
     returns inf exactly on the paths where a test equivalent to `mse == 0` succeeded; identical arguments give
     inf on every path.  relative_error: on the `den != 0` path the result is ||x-x_ref|| / ||x_ref|| (0 for
     identical arguments).  x = x_ref = 0 must give 0 but the `den == 0` path returns inf - KNOWN FINDING.
  D4 add_awgn_snr with a recording generator: sigma = sqrt(sum(Q^2) / (snr * Q.size)) with snr = 10^(snr_db/10)
     (so E||noise||^2 = ||Q||^2 / snr), mean 0, noise of Q's shape, result = Q + noise in a fresh array; zero
     signal returns a copy.  (The unseeded default generator is C14's subject.)
Not decided: statistical accuracy of one noise draw.  Shapes are bounded (box in the evidence); values generic.
"""
from __future__ import annotations

import itertools
from fractions import Fraction

from qstatic.alg import Poly, P
from qstatic.dom_sym import SymArr, Namespace, sym_quat, sym_real, arrays_same, first_diff, mk
from qstatic.domain import Opaque
from qstatic.src import AnalysisError
from .common import new_interp, run_guarded, short
from .common2 import indices, explore_paths, is_symarr, sumsq_real

LEVEL = "other"
EXPLANATION = ("Abstract interpretation (AST only) of tensor_unfold / tensor_fold (all shapes of a bounded box, all "
               "modes; index-level fibre-order reference), the colour / channel helpers, psnr / relative_error (all "
               "outcomes of their data dependent tests enumerated; inf / 0 must coincide with structural zero "
               "distance) and add_awgn_snr (recording generator; exact identity for sigma) on generic symbolic "
               "arrays. Bounded-exhaustive in the shape, generic in the values.")

INF = float("inf")
# snr = 10^(snr_db/10) must be exactly representable (integers), so that the repository's float arithmetic on
# concrete numbers is exact and regrouping (size * snr) stays an identity
SNR_DB = (10, 20, 0, 30)


def is_inf(v):
    return isinstance(v, float) and v == INF


# =========================================================================================== D1
def ref_unfold(T, mode):
    dims = T.shape
    others = [a for a in range(3) if a != mode]
    out = mk((dims[mode], dims[others[0]] * dims[others[1]]), "quat")
    for idx in indices(dims):
        col = idx[others[0]] * dims[others[1]] + idx[others[1]]
        out[idx[mode], col] = T[idx]
    return out


def check_unfold(ctx, it, f_un, f_fo):
    top = 5 if ctx.thorough else 3
    box = list(itertools.product(range(1, top + 1), repeat=3))
    ctx.notes["C18.tensor_box"] = f"all (I,J,K) with 1 <= I,J,K <= {top} ({len(box)} shapes) x modes 0,1,2"
    import numpy as _np
    for shp in box:
        T = sym_quat("t", shp)
        # memory layouts: the result must not depend on how the caller's tensor is laid out in memory
        layouts = [("C", T)]
        if max(shp) > 1 and len(box) <= 27 or shp in ((2, 3, 2), (3, 2, 2), (2, 2, 3)):
            layouts.append(("F", SymArr(_np.asfortranarray(_np.asarray(T, dtype=object)), "quat")))
            layouts.append(("transposed-view", SymArr(_np.asarray(sym_quat("t", shp), dtype=object).transpose(2, 1, 0).copy()
                                                      .transpose(2, 1, 0), "quat")))
        for lay, TL in layouts[1:]:
            for mode in range(3):
                ref = ref_unfold(T, mode)
                st, U = run_guarded(lambda: it.run(f_un, [TL, mode]))
                ok = st == "ok" and is_symarr(U, "quat", ref.shape) and arrays_same(U, ref)
                ctx.ob("C18.D1.unfold", f"tensor_unfold {shp} mode {mode} on a {lay}-ordered tensor", ok,
                       "unfolding depends on the memory layout of the input (e.g. reshape(order='A'))", where=f_un.where,
                       construct=f"tensor_unfold: mode {mode} depends on the memory layout", loc=f_un.loc())
        for mode in range(3):
            ref = ref_unfold(T, mode)
            st, U = run_guarded(lambda: it.run(f_un, [T, mode]))
            ok = st == "ok" and is_symarr(U, "quat", ref.shape) and arrays_same(U, ref)
            ctx.ob("C18.D1.unfold", f"tensor_unfold {shp} mode {mode}: shape (dim_mode, prod others), mode-{mode} fibres as columns",
                   ok, "unfolding differs from the mode-n fibre definition (remaining axes in original order)",
                   where=f_un.where, construct=f"tensor_unfold: mode {mode} is not the mode-n fibre matricisation",
                   loc=f_un.loc(), detail=short(first_diff(U, ref) if st == "ok" and isinstance(U, SymArr) else U))
            st, back = run_guarded(lambda: it.run(f_fo, [ref, mode, tuple(shp)]))
            ok = st == "ok" and is_symarr(back, "quat", shp) and arrays_same(back, T)
            ctx.ob("C18.D1.fold", f"tensor_fold(unfolding, {mode}, {shp}) = T", ok,
                   "folding the mode-n unfolding does not return the tensor", where=f_fo.where,
                   construct=f"tensor_fold: mode {mode} does not invert the mode-n unfolding", loc=f_fo.loc(),
                   detail=short(first_diff(back, T) if st == "ok" and isinstance(back, SymArr) else back))
            M = sym_quat("m", ref.shape)
            st, out = run_guarded(lambda: it.run(f_un, [it.run(f_fo, [M, mode, tuple(shp)]), mode]))
            ok = st == "ok" and is_symarr(out, "quat", M.shape) and arrays_same(out, M)
            ctx.ob("C18.D1.fold", f"tensor_unfold(tensor_fold(M, {mode}, {shp}), {mode}) = M", ok,
                   "unfold after fold is not the identity (repository pair is not mutually inverse)", where=f_fo.where,
                   construct=f"tensor_fold/unfold: mode {mode} pair is not mutually inverse", loc=f_fo.loc(), detail=short(out))
    # shape guards of fold = output shapes of unfold
    gshapes = [(2, 3, 4), (1, 2, 3), (2, 2, 3), (3, 1, 2)] + ([(4, 3, 2), (2, 2, 2)] if ctx.thorough else [])
    for shp in gshapes:
        for mode in range(3):
            good = ref_unfold(sym_quat("t", shp), mode).shape
            bads = {(good[1], good[0]), (good[0] + 1, good[1]), (good[0], good[1] + 1), (good[0] * good[1], 1), (1, good[0] * good[1])}
            for other in range(3):
                bads.add(ref_unfold(sym_quat("t", shp), other).shape)
            bads.discard(good)
            for b in sorted(bads):
                st, out = run_guarded(lambda: it.run(f_fo, [sym_quat("m", b), mode, shp]))
                ctx.ob("C18.D1.guard", f"tensor_fold rejects matrix {b} for mode {mode}, shape {shp}",
                       st == "raise" and out.exc_name == "ValueError",
                       f"matrix of inconsistent shape is not rejected with ValueError ({st})", where=f_fo.where,
                       construct=f"tensor_fold: shape guard of mode {mode} is not (dim_mode, prod others)", loc=f_fo.loc())
    T = sym_quat("t", (2, 2, 2))
    for mode in (3, -1, 7):
        st, out = run_guarded(lambda: it.run(f_fo, [sym_quat("m", (2, 4)), mode, (2, 2, 2)]))
        ctx.ob("C18.D1.guard", f"tensor_fold rejects mode {mode}", st == "raise" and out.exc_name == "ValueError",
               f"mode outside 0..2 is not rejected with ValueError ({st})", where=f_fo.where,
               construct="tensor_fold: mode outside {0,1,2} accepted", loc=f_fo.loc())
        st, out = run_guarded(lambda: it.run(f_un, [T, mode]))
        ctx.ob("C18.D1.guard", f"tensor_unfold rejects mode {mode}", st == "raise" and out.exc_name == "ValueError",
               f"mode outside 0..2 is not rejected with ValueError ({st})", where=f_un.where,
               construct="tensor_unfold: mode outside {0,1,2} accepted", loc=f_un.loc())
    for name, arg in [("order-2 quaternion array", sym_quat("t", (2, 3))), ("order-4 quaternion array", sym_quat("t", (2, 1, 2, 2))),
                      ("real order-3 array", sym_real("r", (2, 2, 2)))]:
        st, out = run_guarded(lambda: it.run(f_un, [arg, 0]))
        ctx.ob("C18.D1.guard", f"tensor_unfold rejects {name}", st == "raise" and out.exc_name == "ValueError",
               f"{name} is not rejected with ValueError ({st})", where=f_un.where,
               construct=f"tensor_unfold: no ValueError for {name}", loc=f_un.loc())
    ctx.require_instances("C18.D1.unfold", 3 * len(box))
    ctx.require_instances("C18.D1.fold", 6 * len(box))
    ctx.require_instances("C18.D1.guard", 3 * 3 * len(gshapes) + 9)


# =========================================================================================== D2
def check_colour(ctx, it, F, deferred):
    f_r2q, f_q2r, f_split, f_stack = F["r2q"], F["q2r"], F["split"], F["stack"]
    shapes = [(1, 1), (2, 3), (3, 1)] + ([(3, 3), (1, 4)] if ctx.thorough else [])
    ctx.notes["C18.image_shapes"] = [list(s) for s in shapes]
    rp = Poly.atom(("real_part",))
    for (H, W) in shapes:
        rgb = sym_real("c", (H, W, 3))
        for rpv, rpn in ((rp, "symbolic real_part"), (None, "default real_part")):
            st, q = run_guarded(lambda: it.run(f_r2q, [rgb] + ([rpv] if rpv is not None else [])))
            want0 = rpv if rpv is not None else 0
            ok = st == "ok" and is_symarr(q, "real", (H, W, 4)) and \
                all(P(q[i, j, 0]).same(want0) and all(P(q[i, j, 1 + c]).same(rgb[i, j, c]) for c in range(3))
                    for i in range(H) for j in range(W))
            ctx.ob("C18.D2.colour", f"rgb_to_quat {H}x{W} ({rpn}): plane 0 = real_part, planes 1..3 = R,G,B", ok,
                   "quaternion image is not [real_part, R, G, B]", where=f_r2q.where,
                   construct="rgb_to_quat: planes are not [real_part, R, G, B]", loc=f_r2q.loc(), detail=short(q))
        q = sym_real("q", (H, W, 4))
        want = q[..., 1:]
        st, out = run_guarded(lambda: it.run(f_q2r, [q], {"clip": False}))
        ok = st == "ok" and is_symarr(out, "real", (H, W, 3)) and arrays_same(out, want)
        ctx.ob("C18.D2.colour", f"quat_to_rgb(clip=False) {H}x{W}: planes 1..3 unchanged", ok,
               "rgb image is not planes 1..3 of the quaternion image", where=f_q2r.where,
               construct="quat_to_rgb: result is not planes 1..3", loc=f_q2r.loc(), detail=short(out))
        if ok:
            import numpy as np
            ctx.ob("C18.D2.colour", f"quat_to_rgb(clip=False) {H}x{W}: result is a fresh array",
                   not np.shares_memory(np.asarray(out, dtype=object), np.asarray(q, dtype=object)),
                   "returned rgb array aliases the quaternion image", where=f_q2r.where,
                   construct="quat_to_rgb: result aliases the argument", loc=f_q2r.loc())
        st, out = run_guarded(lambda: it.run(f_q2r, [it.run(f_r2q, [rgb, rp])], {"clip": False}))
        ctx.ob("C18.D2.roundtrip", f"quat_to_rgb(rgb_to_quat(x), clip=False) = x {H}x{W}",
               st == "ok" and is_symarr(out, "real", (H, W, 3)) and arrays_same(out, rgb),
               "explicit no-clip round trip is not the identity", where=f_q2r.where,
               construct="rgb -> quat -> rgb (clip=False) is not the identity", loc=f_q2r.loc(), detail=short(out))
        # split / stack
        st, parts = run_guarded(lambda: it.run(f_split, [q]))
        ok = st == "ok" and isinstance(parts, tuple) and len(parts) == 4 and \
            all(is_symarr(parts[p], "real", (H, W)) and arrays_same(parts[p], q[..., p]) for p in range(4))
        ctx.ob("C18.D2.channels", f"split_quat_channels {H}x{W}: channel p = q[..., p]", ok, "channels are not planes 0..3 in order",
               where=f_split.where, construct="split_quat_channels: channel order is not (0,1,2,3)", loc=f_split.loc(),
               detail=short(parts))
        if ok:
            st, back = run_guarded(lambda: it.run(f_stack, list(parts)))
            ctx.ob("C18.D2.channels", f"stack(*split(q)) = q {H}x{W}", st == "ok" and is_symarr(back, "real", (H, W, 4)) and arrays_same(back, q),
                   "stack after split is not the identity", where=f_stack.where, construct="stack(split(q)) != q",
                   loc=f_stack.loc(), detail=short(back))
        chans = [sym_real(f"k{p}", (H, W)) for p in range(4)]
        st, out = run_guarded(lambda: it.run(f_split, [it.run(f_stack, chans)]))
        ok = st == "ok" and isinstance(out, tuple) and len(out) == 4 and all(isinstance(a, SymArr) and arrays_same(a, b) for a, b in zip(out, chans))
        ctx.ob("C18.D2.channels", f"split(stack(a,b,c,d)) = (a,b,c,d) {H}x{W}", ok, "split after stack is not the identity",
               where=f_stack.where, construct="split(stack(a,b,c,d)) != (a,b,c,d)", loc=f_stack.loc(), detail=short(out))
    for name, f, arg in [("rgb_to_quat rejects (H,W,4)", f_r2q, sym_real("c", (2, 2, 4))), ("rgb_to_quat rejects (H,W)", f_r2q, sym_real("c", (2, 3))),
                         ("quat_to_rgb rejects (H,W,3)", f_q2r, sym_real("q", (2, 2, 3))), ("quat_to_rgb rejects (H,W)", f_q2r, sym_real("q", (2, 4)))]:
        st, out = run_guarded(lambda: it.run(f, [arg]))
        ctx.ob("C18.D2.guard", name, st == "raise" and out.exc_name == "AssertionError",
               f"wrong layout is not rejected ({st})", where=f.where, construct=f"{f.name}: layout assertion missing", loc=f.loc())
    ctx.require_instances("C18.D2.colour", 4 * len(shapes))
    ctx.require_instances("C18.D2.roundtrip", len(shapes))
    ctx.require_instances("C18.D2.channels", 3 * len(shapes))
    ctx.require_instances("C18.D2.guard", 4)

    # ---- default path of quat_to_rgb (known finding lives here; recorded last)
    def default_path():
        for (H, W) in shapes:
            q = sym_real("q", (H, W, 4))
            want = q[..., 1:]
            paths = explore_paths(lambda ch: new_interp(ctx, chooser=ch)[0], lambda itp: itp.run(f_q2r, [q]))
            wrong, clipped = None, 0
            for p in paths:
                if p.status != "ok" or not is_symarr(p.value, "real", (H, W, 3)):
                    wrong = (p.status, p.value)
                    continue
                if arrays_same(p.value, want):
                    continue
                # only deviation tolerated as 'the documented clip': every entry is clip(entry of the right plane)
                isclip = True
                for idx in indices(want.shape):
                    s = P(p.value[idx]).as_single_atom()
                    if P(p.value[idx]).same(want[idx]):
                        continue
                    if not (s and s[0] == 1 and s[2] == 1 and isinstance(s[1], tuple) and s[1][0] == "clip" and s[1][1] == P(want[idx]).key()):
                        isclip = False
                if isclip:
                    clipped += 1
                else:
                    wrong = ("result is neither planes 1..3 nor their clip", p.value)
            ctx.ob("C18.D2.roundtrip", f"quat_to_rgb default path {H}x{W}: every path returns planes 1..3 (possibly clipped)",
                   wrong is None, f"default path returns other data than planes 1..3: {short(wrong, 160)}", where=f_q2r.where,
                   construct="quat_to_rgb: default path result is not planes 1..3", loc=f_q2r.loc(), detail=short(wrong))
            ctx.notes["C18.quat_to_rgb_default_paths"] = len(paths)
            if clipped:
                # concrete witness: 1.2 in every channel
                qc = mk((H, W, 4), "real", Poly.const(Fraction(6, 5)))
                st, out = run_guarded(lambda: new_interp(ctx)[0].run(f_q2r, [qc]))
                documented = st == "ok" and isinstance(out, SymArr) and all(P(v).same(1) for v in out.reshape(-1))
                ctx.ob("C18.D2.roundtrip", f"quat_to_rgb default path {H}x{W}: planes 1..3 returned unchanged", False,
                       "default clip=True path alters in-range data: rgb value 1.2 is returned as 1.0 (heuristic clip of values in "
                       "[-0.5,1.5] to [0,1])" if documented else f"default path clips the data ({clipped} path(s)); witness 1.2 -> {short(out, 60)}",
                       where=f_q2r.where,
                       construct="default path clips values in [-0.5,1.5] to [0,1]" if documented else "default path alters values (clip with other bounds)",
                       loc=f_q2r.loc(), detail="witness: rgb 1.2 -> 1.0")
            else:
                ctx.ob("C18.D2.roundtrip", f"quat_to_rgb default path {H}x{W}: planes 1..3 returned unchanged", True,
                       where=f_q2r.where, loc=f_q2r.loc())
    deferred.append(default_path)


# =========================================================================================== D3
def zero_test(why, chosen, ref):
    """Does the condition decide `ref == 0` (ref >= 0 known)?  Returns True / False (value of ref == 0 on this branch) or None."""
    if not (isinstance(why, tuple) and len(why) == 3 and why[0] in ("eq", "ne", "le", "gt", "ge", "lt")):
        return None
    op, l, r = why
    try:
        d = P(l) - P(r)
    except TypeError:
        return None
    if d.same(ref):
        table = {"eq": True, "ne": False, "le": True, "gt": False}
    elif d.same(-ref):
        table = {"eq": True, "ne": False, "ge": True, "lt": False}
    else:
        return None
    if op not in table:
        return None
    return table[op] if chosen else (not table[op])


def check_metrics(ctx, F, deferred):
    f_ps, f_re = F["psnr"], F["relerr"]
    shapes = [(1, 1), (2, 2), (1, 3), (2, 1, 3)] + ([(2, 2, 4), (3, 3)] if ctx.thorough else [])
    ctx.notes["C18.metric_shapes"] = [list(s) for s in shapes]
    mk_it = lambda ch: new_interp(ctx, chooser=ch)[0]
    # integer images (uint8 / uint16 pixel data): the squared difference must be formed in floating point, otherwise it wraps
    # around (16^2 = 0 in uint8) and unequal images get an infinite PSNR
    for shp in [(2, 2), (1, 3)]:
        xi, ri = sym_real("x", shp), sym_real("r", shp)
        xi.kind = ri.kind = "int"
        it_i, d_i = new_interp(ctx, chooser=lambda interp, node, cond: False)
        st, v = run_guarded(lambda: it_i.run(f_ps, [xi, ri]))
        wraps = [e for e in d_i.events if e[0] == "int-arith" and e[1] in ("pow", "mul")]
        ctx.ob("C18.D3.psnr", f"psnr {shp} on integer-typed images: squares are formed in floating point", st == "ok" and not wraps,
               "the squared difference is computed in the integer dtype of the inputs (wrap-around: unequal images can give "
               "mse == 0 and PSNR = inf)", where=f_ps.where, construct="psnr: integer arithmetic before conversion to float",
               loc=(wraps[0][2] if wraps else f_ps.loc()))
    for shp in shapes:
        x, r = sym_real("x", shp), sym_real("r", shp)
        N = x.size
        diff2 = Poly.const(0)
        for idx in indices(shp):
            diff2 = diff2 + (x[idx] - r[idx]) * (x[idx] - r[idx])
        mse = diff2 * Fraction(1, N)
        for dr, drn in ((None, "data_range=None"), (Poly.atom(("dr",)), "symbolic data_range")):
            paths = explore_paths(mk_it, lambda it: it.run(f_ps, [x, r] + ([dr] if dr is not None else [])))
            bad = None
            n_inf = 0
            for p in paths:
                if p.status != "ok":
                    bad = ("fails in-domain", p.value)
                    break
                zs = [z for z in (zero_test(w, c, mse) for w, c in p.conds) if z is not None]
                iszero = any(zs)
                if is_inf(p.value):
                    n_inf += 1
                    if not iszero:
                        bad = ("returns inf on a path where no test equivalent to mse == 0 succeeded", p.conds[:2])
                        break
                else:
                    if iszero or not zs:
                        bad = ("finite value returned although mse == 0 on this path / mse never tested", p.conds[:2])
                        break
                    if not isinstance(p.value, (Opaque, Poly, float)):
                        bad = ("result is not a scalar", p.value)
                        break
            if bad is None and n_inf == 0:
                bad = ("no path returns inf",)
            ctx.ob("C18.D3.psnr", f"psnr {shp} ({drn}): inf iff mean((x-x_ref)^2) == 0 on every path", bad is None,
                   f"psnr is not zero-distance consistent: {short(bad, 200)}", where=f_ps.where,
                   construct="psnr: inf is not equivalent to mse == 0", loc=f_ps.loc(), detail=short(bad))
        paths = explore_paths(mk_it, lambda it: it.run(f_ps, [x, x]))
        ok = all(p.status == "ok" and is_inf(p.value) for p in paths) and len(paths) >= 1
        ctx.ob("C18.D3.psnr", f"psnr(x, x) {shp} = inf on every path", ok, "identical arrays do not give infinite PSNR",
               where=f_ps.where, construct="psnr: identical arguments do not give inf", loc=f_ps.loc(),
               detail=short([(p.status, p.value) for p in paths]))
        x2 = sym_real("x", shp)
        paths = explore_paths(mk_it, lambda it: it.run(f_ps, [x, x2]))
        ok = all(p.status == "ok" and is_inf(p.value) for p in paths) and len(paths) >= 1
        ctx.ob("C18.D3.psnr", f"psnr(x, equal copy) {shp} = inf on every path", ok, "equal arrays do not give infinite PSNR",
               where=f_ps.where, construct="psnr: identical arguments do not give inf", loc=f_ps.loc())
        # ---- relative_error
        num = diff2.sqrt()
        den2 = sumsq_real(r)
        den = den2.sqrt()
        paths = explore_paths(mk_it, lambda it: it.run(f_re, [x, r]))
        bad, seen_nonzero = None, False
        for p in paths:
            if p.status != "ok":
                bad = ("fails in-domain", p.value)
                break
            zs = [z for z in (zero_test(w, c, den) for w, c in p.conds) if z is not None]
            if not zs:
                bad = ("reference norm is never tested against zero", p.conds[:2])
                break
            if any(zs):
                nz = [z for z in (zero_test(w, c, num) for w, c in p.conds) if z is not None]
                if not (is_inf(p.value) or (any(nz) and P(p.value).same(0) if not isinstance(p.value, Opaque) else False)):
                    bad = ("zero reference path returns neither inf nor a guarded 0", p.value)
                    break
            else:
                seen_nonzero = True
                if not (isinstance(p.value, Poly) and p.value.same(num * den.inverse())):
                    bad = ("result on the den != 0 path is not ||x - x_ref|| / ||x_ref||", p.value)
                    break
        if bad is None and not seen_nonzero:
            bad = ("no path for a non-zero reference",)
        ctx.ob("C18.D3.relerr", f"relative_error {shp}: ||x-x_ref||_F / ||x_ref||_F when the reference is non-zero", bad is None,
               f"relative error differs from its definition: {short(bad, 200)}", where=f_re.where,
               construct="relative_error: not ||x - x_ref|| / ||x_ref||", loc=f_re.loc(), detail=short(bad))
        paths = explore_paths(mk_it, lambda it: it.run(f_re, [x, x]))
        ok = True
        for p in paths:
            zs = [z for z in (zero_test(w, c, sumsq_real(x).sqrt()) for w, c in p.conds) if z is not None]
            if p.status != "ok":
                ok = False
            elif not any(zs) and not (not isinstance(p.value, Opaque) and P(p.value).same(0)):
                ok = False
        ctx.ob("C18.D3.relerr", f"relative_error(x, x) {shp} = 0 for a non-zero reference", ok and len(paths) >= 1,
               "identical arrays do not give zero relative error", where=f_re.where,
               construct="relative_error: identical arguments do not give 0", loc=f_re.loc(),
               detail=short([(p.conds, p.value) for p in paths]))
    ctx.require_instances("C18.D3.psnr", 4 * len(shapes))
    ctx.require_instances("C18.D3.relerr", 2 * len(shapes))

    def zero_reference():
        for shp in shapes[:3]:
            z1, z2 = mk(shp, "real"), mk(shp, "real")
            for nm, f in (("psnr", f_ps), ("relative_error", f_re)):
                paths = explore_paths(mk_it, lambda it: it.run(f, [z1, z2]))
                vals = [(p.status, p.value) for p in paths]
                if nm == "psnr":
                    ok = all(s == "ok" and is_inf(v) for s, v in vals)
                    ctx.ob("C18.D3.zero-distance", f"psnr(zeros, zeros) {shp} = inf", ok, f"psnr(0, 0) = {short(vals, 80)}",
                           where=f.where, construct="psnr: zero arrays do not give inf", loc=f.loc())
                else:
                    ok = all(s == "ok" and not isinstance(v, Opaque) and not is_inf(v) and P(v).same(0) for s, v in vals)
                    all_inf = all(s == "ok" and is_inf(v) for s, v in vals)
                    ctx.ob("C18.D3.zero-distance", f"relative_error(zeros, zeros) {shp} = 0", ok,
                           "x == x_ref == 0 has distance 0 but the zero-reference path returns inf (relative_error(zeros, zeros) = inf)"
                           if all_inf else f"relative_error(0, 0) = {short(vals, 80)}", where=f.where,
                           construct="zero reference returns inf also for x == x_ref == 0" if all_inf else
                           "relative_error: x == x_ref == 0 gives neither 0 nor inf", loc=f.loc(),
                           detail="witness: relative_error(zeros, zeros) = inf")
    deferred.append(zero_reference)


# =========================================================================================== D4
def check_noise(ctx, F):
    f = F["awgn"]
    shapes = [(1, 1, 4), (2, 3, 4)] + ([(3, 2, 4), (2, 2)] if ctx.thorough else [])
    ctx.notes["C18.noise_shapes"] = [list(s) for s in shapes]
    ctx.notes["C18.noise_snr_db"] = list(SNR_DB)
    for shp in shapes:
        Q = sym_real("q", shp)
        power = sumsq_real(Q)
        for snr_db in SNR_DB:
            snr = 10.0 ** (snr_db / 10.0)
            want_sigma = (power * (1 / Poly.const(snr)) * Fraction(1, Q.size)).sqrt()
            calls = []

            def make_rng():
                def normal(loc=0.0, scale=1.0, size=None):
                    noise = sym_real("noise", tuple(size) if isinstance(size, (tuple, list)) else (size,))
                    calls.append((loc, scale, size, noise))
                    return noise
                return Namespace("Generator", normal=normal)

            def go(it):
                del calls[:]
                rng = make_rng()
                out = it.run(f, [Q, snr_db], {"rng": rng})
                return out, list(calls)

            paths = explore_paths(lambda ch: new_interp(ctx, chooser=ch)[0], go)
            bad, n_noise, n_zero = None, 0, 0
            for p in paths:
                if p.status != "ok":
                    bad = ("fails in-domain", p.value)
                    break
                out, cl = p.value
                zero_sig = [c for (w, c) in p.conds if isinstance(w, tuple) and len(w) == 3 and w[0] == "eq" and (P(w[1]) - P(w[2])).same(power)]
                if zero_sig and zero_sig[0]:
                    n_zero += 1
                    if cl or not (is_symarr(out, "real", shp) and arrays_same(out, Q) and out is not Q):
                        bad = ("zero-signal path does not return an unchanged copy", out)
                        break
                    continue
                n_noise += 1
                if len(cl) != 1:
                    bad = ("generator.normal is not drawn exactly once", len(cl))
                    break
                loc, scale, size, noise = cl[0]
                if not (P(loc).same(0) and tuple(size) == tuple(shp)):
                    bad = ("noise is not zero-mean / not of Q's shape", (loc, size))
                    break
                if not is_symarr(out, "real", shp) or out is Q:
                    bad = ("result is not a fresh real array of Q's shape", out)
                    break
                # effective noise: out - Q = c * N entrywise with one common factor c; effective sigma = c * scale
                cs = set()
                for idx in indices(shp):
                    c = (P(out[idx]) - P(Q[idx])) * P(noise[idx]).inverse()
                    if any(isinstance(a, tuple) and a and a[0] == "noise" for a in c.atoms()):
                        cs.add(None)
                    else:
                        cs.add(c.key())
                if len(cs) != 1 or None in cs:
                    bad = ("result is not Q + (factor) * drawn noise", out)
                    break
                eff = Poly(dict(next(iter(cs)))) * P(scale)
                if not (eff * eff).same(want_sigma * want_sigma):      # N and -N have the same law
                    bad = ("sigma is not sqrt(sum(Q^2) / (snr * Q.size))", eff)
                    break
            if bad is None and (n_noise == 0 or n_zero == 0):
                bad = ("expected one noisy path and one zero-signal path", (n_noise, n_zero))
            ctx.ob("C18.D4.noise", f"add_awgn_snr {shp} snr_db={snr_db}: sigma^2 * size * snr = sum(Q^2), result Q + noise (fresh)",
                   bad is None, f"noise calibration differs from sigma^2 = ||Q||^2 / (snr * size): {short(bad, 200)}",
                   where=f.where, construct="add_awgn_snr: sigma is not sqrt(||Q||^2 / (snr * size)) / result is not Q + noise",
                   loc=f.loc(), detail=short(bad))
    ctx.require_instances("C18.D4.noise", 4 * len(shapes))
    # "in expectation": the requested SNR is a statement about the distribution of the noise; a generator that the routine itself
    # seeds with a constant adds the SAME sample on every call with rng=None (the achieved SNR is then off by a fixed, size-dependent
    # amount and averaging over calls does not converge)
    import ast as _ast
    consts = []
    for nd in _ast.walk(f.node):
        if isinstance(nd, _ast.Call):
            fn = nd.func
            nm = fn.attr if isinstance(fn, _ast.Attribute) else (fn.id if isinstance(fn, _ast.Name) else "")
            if nm in ("default_rng", "RandomState", "seed", "Generator", "PCG64", "MT19937", "SeedSequence"):
                args = list(nd.args) + [k.value for k in nd.keywords]
                if args and all(isinstance(a_, _ast.Constant) and isinstance(a_.value, (int, float)) and not isinstance(a_.value, bool) and a_.value is not None
                                for a_ in args):
                    consts.append((nm, nd.lineno))
    ctx.ob("C18.D4.noise-stream", "add_awgn_snr: the routine does not seed its own generator with a constant", not consts,
           f"generator seeded with a literal constant inside the routine ({consts}): every call without an explicit generator adds the "
           f"identical noise sample", where=f.where, construct="add_awgn_snr: constant-seeded noise generator", loc=f.loc())


def run(ctx):
    prog = ctx.program
    f_un, f_fo = prog.func("tensor", "tensor_unfold"), prog.func("tensor", "tensor_fold")
    F = {"r2q": prog.func("qslst", "rgb_to_quat"), "q2r": prog.func("qslst", "quat_to_rgb"),
         "split": prog.func("qslst", "split_quat_channels"), "stack": prog.func("qslst", "stack_quat_channels"),
         "psnr": prog.func("qslst", "psnr"), "relerr": prog.func("qslst", "relative_error"),
         "awgn": prog.func("qslst", "add_awgn_snr")}
    for f in [f_un, f_fo] + list(F.values()):
        ctx.touch(f)
    ctx.assume("numpy semantics of reshape (C order) / transpose / moveaxis / stack / slicing / astype / clip / mean / "
               "linalg.norm as modelled (numpy's own indexing is used on object arrays)",
               "python ast reflects the code that runs", "exact arithmetic (polynomial identities, no rounding)",
               "shapes bounded by the recorded boxes; values generic",
               "D4: Generator.normal(loc, scale, size) draws N(loc, scale^2) samples (library fact)")
    it, _ = new_interp(ctx)
    deferred = []
    check_unfold(ctx, it, f_un, f_fo)
    check_colour(ctx, it, F, deferred)
    check_metrics(ctx, F, deferred)
    check_noise(ctx, F)
    # obligations that re-derive the two known findings come last (anti-vacuity counts above are checked while
    # the finding list is still empty on a clean tree)
    for d in deferred:
        d()
    # these two counts do not depend on the verdicts; checked directly because the finding list is non-empty here
    for rule, minimum in (("C18.D2.roundtrip", 3 * len(ctx.notes["C18.image_shapes"])), ("C18.D3.zero-distance", 6)):
        if ctx.instances.get(rule, 0) < minimum:
            raise AnalysisError(f"rule {rule} matched {ctx.instances.get(rule, 0)} instance(s), fewer than {minimum}")
