#!/usr/bin/env python3
"""Regenerates /verif/MANIFEST.json from the table below (kept valid at all times)."""
import json, os, sys
HERE = os.path.dirname(os.path.dirname(os.path.abspath(__file__)))
sys.path.insert(0, HERE)
from tools.claims import CLAIMS, NOT_APPLICABLE   # noqa

BASE_OFF = ("cd /repo && env -u QUATICA_VERIF /venv/bin/python -m pytest -ra -q -p no:cacheprovider --timeout=900 "
            "--continue-on-collection-errors")
man = {
    "version": 1,
    "setup_cmd": "cd /verif && /venv/bin/python -m compileall -q qstatic rules tools >/dev/null 2>&1; /venv/bin/python -c 'import ast, numpy'",
    "hooks": {"guard": "QUATICA_VERIF", "enable": "no source hook is needed: every check parses /repo's working tree (ast); "
              "nothing in /repo is instrumented", "baseline_off_cmd": BASE_OFF, "source_commits": [], "add_only": True},
    "engines": [
        {"name": "qstatic", "path": "qstatic/", "serves_properties": sorted(CLAIMS),
         "kind_free_text": "repository-specific static analysis: program model + resolver (E1), statement CFG/dominators (E2), "
                           "abstract interpreter over exact symbolic domains (E0/E3/E8/E9a), free-algebra invariants (E4), "
                           "effects (E5), guard tables (E6), provenance (E7), typestates (E9b)"}],
    "checks": [],
    "notes": "All checks are static: they parse /repo's current source with ast on every run and never import or run "
             "QuatIca. Exit 0 = decided clauses hold (KNOWN-FINDING lines possible), 1 = VIOLATION, 2 = ANALYSIS-ERROR "
             "(anchor vanished / construct outside the analysable subset). See DESIGN.md.",
    "not_applicable": [{"property_id": k, "reason": v} for k, v in sorted(NOT_APPLICABLE.items())],
}
for pid in sorted(CLAIMS):
    c = CLAIMS[pid]
    man["checks"].append({
        "property_id": pid,
        "quick_cmd": f"./check {pid} --tier quick",
        "thorough_cmd": f"./check {pid} --tier thorough",
        "evidence_file": f"evidence/{pid}.json",
        "replay_cmd_template": f"./check {pid} --replay {{path}}",
        "engine": "qstatic",
        "level_claimed": {"category": "other", "text": c["text"], "design_ref": f"DESIGN.md section 4, {pid}"},
        "level_note": c["note"],
        "technique": c["technique"],
    })
json.dump(man, open(os.path.join(HERE, "MANIFEST.json"), "w"), indent=1)
print("MANIFEST.json written:", len(man["checks"]), "checks,", len(man["not_applicable"]), "not applicable")
