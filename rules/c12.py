"""C12 - randomized Q-SVDs (rand_qsvd, pass_eff_qsvd).

Decided clauses (DESIGN section 4, C12):
  D1 exhaustive small shapes (E9a).  Both routines are interpreted for every m, n in a box, every target rank
     R <= min(m,n), oversample in {0,1,3,10} (sketches wider than the matrix included), every number of power
     iterations / passes in the box.  Quaternion-level callees are summarised (quat_matmat: opaque labelled
     product with numpy's conformability check; qr_qua: labelled factors with the shapes established by
     C06-D1), real_expand / real_contract / the slicing of the wide-sketch fall-backs are interpreted:
     no in-domain failure in any branch; outputs U: m x R, V: n x R, s: R.
  D2 factor pairing (E7 provenance).  From  L.Qop = Qlast.RR  (the last QR, L = X^H or X) and
     RR = F0.S.F2 (LAPACK svd):  the factor on the Qlast side must be Qlast . contract(F0[:, :4R]) and the
     other one Qop . contract(F2[:4R, :]^T);  L = X^H makes them (V, U), L = X makes them (U, V);
     s = S[::4][:R].  Operands of the final products are compared label by label with this reference, which
     is derived from the recorded data flow of the run, not from variable names.
  D3 orthonormal closure / structure typestate (E9b): the small factors are contractions of raw LAPACK
     factors: 2 sites in rand_qsvd, 2 per pass parity in pass_eff_qsvd.  Dependent known findings.
  D4 randomness only from the global legacy generator (AST scan incl. resolved repository callees).
Not decided: interlacing, Eckart-Young bounds, exactness on low rank for every draw.
"""
from __future__ import annotations

import ast

from qstatic.dom_sym import sym_quat, labelled, arrays_same, first_diff, SymArr
from .common import new_interp, run_guarded, short, ref_hermitian
from .common_qsvd import ContractTracer, QLevel, ref_contract, label_origin, single_head, require_unless_failed

LEVEL = "other"
EXPLANATION = ("Abstract interpretation of rand_qsvd / pass_eff_qsvd over every shape, target rank, oversampling and "
               "iteration/pass count in a box, with quaternion-level products and QR summarised by labelled arrays "
               "(shape domain + labels): no shape failure in any thin/wide branch, documented output shapes, the "
               "pairing of the lifted small factors with the right Q (provenance through the recorded data flow), "
               "the stride-4 selection, the structure typestate of real_contract's argument, and an AST scan of the "
               "randomness sources.")

R1, R2, R3, R4 = "C12.D1.shapes", "C12.D2.pairing", "C12.D3.structure", "C12.D4.rng"

LEGACY_GLOBAL_SAMPLERS = {"randn", "rand", "standard_normal", "normal", "random", "random_sample", "ranf", "sample",
                          "uniform", "randint", "choice", "permutation", "shuffle"}
GENERATOR_METHODS = LEGACY_GLOBAL_SAMPLERS | {"integers", "bit_generator"}


# ----------------------------------------------------------------------------------------------- D2
def check_pairing(ctx, f, name, cfg, X, R, out, d, ql, f_exp, it):
    where = f.where

    def fail(construct, msg, detail=None):
        ctx.ob(R2, f"{name} {cfg}: pairing", False, f"{msg} ({cfg})", where=where, construct=f"{name}: {construct}",
               loc=f.loc(), detail=detail)

    if ctx.scenario.startswith("zero"):
        # provenance is read off the NAMES of the symbols in each array; with symbols specialised to 0 (an alternative scenario that
        # exercises a special-input fast path) the names are gone although the data flow is unchanged: judged on generic values only
        ctx.ob(R2, f"{name} {cfg}: pairing", True, generic_only=True)
        return
    U, s, V = out
    svds = [e for e in d.events if e[0] == "svd"]
    if len(svds) != 1:
        return fail("not exactly one LAPACK svd of the small factor", f"{len(svds)} LAPACK svd calls")
    _, t, A, full = svds[0]
    if A.shape[0] % 4 or A.shape[1] % 4:
        return fail("svd input is not a real expansion", f"svd input shape {A.shape}")
    k, c = A.shape[0] // 4, A.shape[1] // 4
    RR = ref_contract(A, k, c)
    st, A_back = run_guarded(lambda: it.run(f_exp, [RR]))
    if st != "ok" or not arrays_same(A, A_back):
        return fail("svd input is not real_expand of the R factor", "LAPACK svd input is not real_expand(RR)")
    head = single_head(RR, 3)
    if head is None or head[0] != "qrq" or head[2] != "R" or not label_origin(RR, head):
        return fail("svd input is not the (leading rows of the) R factor of a QR", f"svd input provenance {head}")
    t_last = head[1]
    Xl, Ql_full, Rl_full = ql.qr[t_last]
    if t_last != len(ql.qr) - 1:
        return fail("the small svd is not taken of the R factor of the last QR", f"QR #{t_last} of {len(ql.qr)}")
    if RR.shape[1] != Rl_full.shape[1] or k > Ql_full.shape[1]:
        return fail("R factor is cut inconsistently", f"RR {RR.shape} from R {Rl_full.shape}")
    Qlast = Ql_full[:, :k]
    hx = single_head(Xl, 2)
    if hx is None or hx[0] != "mm" or not label_origin(Xl, hx) or Xl.shape != ql.mm[hx[1]][2].shape:
        return fail("last QR is not taken of a product with X or X^H", f"last QR input provenance {hx}")
    L, Qop, _ = ql.mm[hx[1]]
    if arrays_same(L, ref_hermitian(X)):
        first, second, nf, ns = V, U, "V", "U"
    elif arrays_same(L, X):
        first, second, nf, ns = U, V, "U", "V"
    else:
        return fail("last QR is not taken of X.Q or X^H.Q", "left operand of the last product is neither X nor X^H")
    hq = single_head(Qop, 3)
    if hq is None or hq[0] != "qrq" or hq[2] != "Q" or not label_origin(Qop, hq):
        return fail("the factor multiplying X in the last product is not (leading columns of) a Q factor",
                    f"provenance {hq}")
    r = min(A.shape)
    F0 = labelled(f"svd{t}.U", (A.shape[0], A.shape[0] if full else r))
    F2 = labelled(f"svd{t}.Vt", (A.shape[1] if full else r, A.shape[1]))
    S = labelled(f"svd{t}.s", (r,))
    if 4 * R > r:
        return fail("target rank exceeds the small factor", f"4R={4 * R} > {r}")
    B_first = ref_contract(F0[:, : 4 * R], k, R)
    B_second = ref_contract(F2[: 4 * R, :].T, c, R)
    okall = True
    for outv, nm, Aref, Bref, what in ((first, nf, Qlast, B_first, "Q of the last QR times the contraction of svd factor 0 (leading 4R columns)"),
                                       (second, ns, Qop, B_second, "the Q that multiplied X/X^H in the last product times the contraction of svd factor 2 (leading 4R rows) transposed")):
        h = single_head(outv, 2) if isinstance(outv, SymArr) else None
        ok = h is not None and h[0] == "mm" and label_origin(outv, h) and outv.shape == ql.mm[h[1]][2].shape
        detail = None
        if ok:
            A1, B1, _ = ql.mm[h[1]]
            okA, okB = arrays_same(A1, Aref), arrays_same(B1, Bref)
            ok = okA and okB
            if not okA:
                detail = f"left operand: {short(single_head(A1, 3))} shape {A1.shape}, expected {short(single_head(Aref, 3))} shape {Aref.shape}"
            elif not okB:
                detail = f"right operand differs at {short(first_diff(B1, Bref))}"
        else:
            detail = "returned value is not the result of a quaternion product"
        okall &= ok
        ctx.ob(R2, f"{name} {cfg}: {nm} pairing", ok, f"{nm} is not {what} ({cfg}): {detail}", where=where,
               construct=f"{name}: {nm} is not {what}", loc=f.loc(), detail=detail)
    s_ref = S[::4][:R]
    ok = isinstance(s, SymArr) and arrays_same(s, s_ref)
    ctx.ob(R2, f"{name} {cfg}: s stride", ok,
           f"s is not the stride-4 subsequence of the small svd's values truncated to R ({cfg}): "
           f"{short(first_diff(s, s_ref)) if isinstance(s, SymArr) else s}", where=where,
           construct=f"{name}: s is not the stride-4 subsequence of LAPACK's singular values truncated to R",
           loc=f.loc())


# ----------------------------------------------------------------------------------------------- D4
def _chain(node):
    out = []
    while isinstance(node, ast.Attribute):
        out.append(node.attr)
        node = node.value
    if isinstance(node, ast.Name):
        out.append(node.id)
        return list(reversed(out))
    return None


def _import_table(fi):
    """local name -> canonical dotted external path, from the module's imports and function-local imports"""
    tab = {}
    for local, imp in fi.module.imports.items():
        if imp[0] == "extmod":
            tab[local] = imp[1]
        elif imp[0] == "ext":
            tab[local] = f"{imp[1]}.{imp[2]}" if imp[1] else imp[2]
    for n in ast.walk(fi.node):
        if isinstance(n, ast.Import):
            for al in n.names:
                tab[al.asname or al.name.split(".")[0]] = al.name if al.asname else al.name.split(".")[0]
        elif isinstance(n, ast.ImportFrom) and n.module and not n.level:
            for al in n.names:
                tab.setdefault(al.asname or al.name, f"{n.module}.{al.name}")
    return tab


def rng_calls(fi):
    """[(node, canonical path, allowed)] for every call in fi that draws randomness or builds/seeds a generator"""
    tab = _import_table(fi)
    out = []
    for n in ast.walk(fi.node):
        if not isinstance(n, ast.Call):
            continue
        ch = _chain(n.func)
        if not ch:
            continue
        base = tab.get(ch[0])
        if base is not None:
            full = ".".join([base] + ch[1:])
            parts = full.split(".")
            if parts[0] == "np":
                parts[0] = "numpy"
            full = ".".join(parts)
            if full.startswith("numpy.random."):
                fn = parts[-1]
                out.append((n, full, len(parts) == 3 and fn in LEGACY_GLOBAL_SAMPLERS))
            elif parts[0] in ("random", "secrets") or full == "os.urandom" or ".random." in full or full.endswith(".rvs"):
                out.append((n, full, False))
        elif len(ch) >= 2 and ch[-1] in GENERATOR_METHODS and ch[0] not in tab:
            # method of a generator-like object held in a local / parameter (rng.standard_normal(...))
            out.append((n, "<generator object>." + ".".join(ch[1:]), False))
    return out


def reachable(prog, fi, depth=3):
    seen, todo = {fi.where: fi}, [(fi, 0)]
    while todo:
        cur, dep = todo.pop()
        if dep >= depth:
            continue
        for n in ast.walk(cur.node):
            if isinstance(n, ast.Call) and isinstance(n.func, ast.Name):
                nm = n.func.id
                tgt = cur.module.functions.get(nm)
                if tgt is None:
                    imp = cur.module.imports.get(nm)
                    if imp and imp[0] == "name":
                        r = prog.lookup_export(imp[1], imp[2])
                        tgt = r if hasattr(r, "node") and hasattr(r, "qualname") else None
                if tgt is not None and tgt.where not in seen:
                    seen[tgt.where] = tgt
                    todo.append((tgt, dep + 1))
    return list(seen.values())


# ----------------------------------------------------------------------------------------------- run
def run(ctx):
    prog = ctx.program
    f_rand = prog.func("decomp.qsvd", "rand_qsvd")
    f_pass = prog.func("decomp.qsvd", "pass_eff_qsvd")
    f_exp = prog.func("utils", "real_expand")
    f_con = prog.func("utils", "real_contract")
    prog.func("decomp.qsvd", "qr_qua")
    prog.func("utils", "quat_matmat")
    for f in (f_rand, f_pass, f_exp, f_con):
        ctx.touch(f)
    ctx.assume("quat_matmat is the Hamilton matrix product (C01) and qr_qua returns Q: m x min(m,n), R: min(m,n) x n "
               "(C06-D1); both are summarised by labelled arrays with these shapes",
               "LAPACK's svd is modelled by arrays of fresh labels with numpy's documented shapes",
               "bounded-exhaustive over the stated box, not a proof for all sizes",
               "python ast reflects the code that runs")
    N = 5 if ctx.thorough else 4
    overs = (0, 1, 3, 10)
    iters = range(0, 4) if ctx.thorough else range(0, 3)
    passes = range(2, 6) if ctx.thorough else range(2, 5)
    ctx.notes["box"] = {"m": [1, N], "n": [1, N], "R": "1..min(m,n)", "oversample": list(overs),
                        "n_iter": list(iters), "n_passes": list(passes)}
    tracer = ContractTracer(prog)
    n_cfg = 0
    for m in range(1, N + 1):
        for n in range(1, N + 1):
            X = sym_quat("a", (m, n))
            for R in range(1, min(m, n) + 1):
                for P in overs:
                    jobs = [(f_rand, "rand_qsvd", {"n_iter": q}, None) for q in iters] + \
                           [(f_pass, "pass_eff_qsvd", {"n_passes": v}, "passes even" if v % 2 == 0 else "passes odd")
                            for v in passes]
                    for f, name, kw, branch in jobs:
                        n_cfg += 1
                        kws = dict(kw, oversample=P)
                        cfg = f"m={m} n={n} R={R} oversample={P} " + " ".join(f"{a}={b}" for a, b in kw.items())
                        ql = QLevel()
                        it, d = new_interp(ctx, trace=tracer, summaries=ql.summaries())
                        tracer.branch, tracer.config = branch, f"{name} {cfg}"
                        st, out = run_guarded(lambda: it.run(f, [X, R], kws))
                        if st != "ok":
                            ctx.ob(R1, f"{name} {cfg}: completes", False,
                                   f"fails on an in-domain configuration ({cfg}): {out}", where=f.where,
                                   construct=f"{name}: fails on an in-domain configuration", loc=f.loc(),
                                   detail=str(out))
                            continue
                        ok = isinstance(out, tuple) and len(out) == 3 and all(isinstance(x, SymArr) for x in out)
                        got = tuple(x.shape for x in out) if ok else None
                        want = ((m, R), (R,), (n, R))
                        ctx.ob(R1, f"{name} {cfg}: completes with U m x R, s R, V n x R", ok and got == want,
                               f"output shapes {got} differ from the documented {want} ({cfg})", where=f.where,
                               construct=f"{name}: output shapes differ from the documented U m x R, s R, V n x R",
                               loc=f.loc())
                        if ok:
                            tracer.branch = None
                            check_pairing(ctx, f, name, cfg, X, R, out, d, ql, f_exp, it)
    tracer.emit(ctx, R3)
    ctx.notes["configurations"] = n_cfg
    ctx.notes["real_contract_calls_observed"] = tracer.calls
    # ---- D4
    for f in (f_rand, f_pass):
        direct = 0
        for g in reachable(prog, f):
            ctx.touch(g)
            for node, path, allowed in rng_calls(g):
                if g is f:
                    direct += 1
                ctx.ob(R4, f"{f.name}: randomness source {path} in {g.name}", allowed,
                       f"randomness is drawn from / a generator is built or seeded by {path}; only the global legacy "
                       f"generator's samplers (np.random.randn ...) are documented", where=g.where,
                       construct=f"randomness source {path}", loc=g.loc(node))
        ctx.ob(R4, f"{f.name}: draws its sketch from the global legacy generator", direct >= 1,
               "no randomness source found in the routine (sketch is not random, or drawn through an unrecognised path)",
               where=f.where, construct=f"{f.name}: no recognised randomness source", loc=f.loc())
    _check_sketch_provenance(ctx, prog, f_rand, f_pass)
    ctx.require_instances(R1, n_cfg)
    require_unless_failed(ctx, R2, 3 * n_cfg, (R1, R2))
    require_unless_failed(ctx, R3, 6, (R1,))
    ctx.require_instances(R4, 4)


def _check_sketch_provenance(ctx, prog, f_rand, f_pass):
    """The range finder must be a Gaussian sketch: the matrix that first multiplies X is the UNMODIFIED output of the global
    np.random.randn embedded as the real part of a quaternion matrix (a sign / rounded / re-used sketch has dependent columns
    with positive probability, so "exact for every random draw when rank(A) <= R" and orthonormality are lost)."""
    from qstatic.alg import SQ, Poly, P
    from qstatic.dom_sym import sym_quat, labelled, wrap, SymArr
    from .common import new_interp, run_guarded
    for f, kw in ((f_rand, dict(R=1, oversample=1, n_iter=0)), (f_pass, dict(R=1, oversample=1, n_passes=2))):
        prods = []

        def s_mm(it, A, B, prods=prods):
            prods.append((A, B))
            return labelled(f"mm{len(prods)}", (wrap(A).shape[0], wrap(B).shape[1]), "quat") if False else \
                sym_quat(f"mm{len(prods)}_", (wrap(A).shape[0], wrap(B).shape[1]))

        def s_qr(it, Y):
            Y = wrap(Y)
            r = min(Y.shape)
            return sym_quat("q", (Y.shape[0], r)), sym_quat("r", (r, Y.shape[1]))

        def s_h(it, A):
            A = wrap(A)
            return sym_quat("ah", (A.shape[1], A.shape[0]))

        it, d = new_interp(ctx, summaries={"utils:quat_matmat": s_mm, "decomp.qsvd:qr_qua": s_qr, "utils:quat_hermitian": s_h})
        X = sym_quat("a", (2, 2))
        st, out = run_guarded(lambda: it.run(f, [X], kw))
        ok, why = bool(prods), "no product with the sketch found"
        if prods:
            O = wrap(prods[0][1])
            ok = O.kind == "quat" and O.shape == (2, 2)
            why = "the first product is not X times an n x (R+P) quaternion sketch"
            if ok:
                seen = set()
                for q in O.reshape(-1):
                    q = SQ.lift(q)
                    sa = P(q.c[0]).as_single_atom()
                    plain = sa is not None and sa[0] == 1 and sa[2] == 1 and isinstance(sa[1], tuple) and str(sa[1][0]).startswith("rnd")
                    if not (plain and all(c.is_zero() for c in q.c[1:])) or sa[1] in seen:
                        ok, why = False, ("sketch entries are not the unmodified, pairwise distinct outputs of np.random.randn "
                                          "(real part) - e.g. sign(), rounding or a reused draw")
                        break
                    seen.add(sa[1])
        ctx.ob("C12.D4.sketch", f"{f.name}: Gaussian sketch is the raw randn draw", ok, why, where=f.where,
               construct="sketch is not the raw Gaussian draw", loc=f.loc())
    ctx.require_instances("C12.D4.sketch", 2)
