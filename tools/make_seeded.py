#!/usr/bin/env python3
"""Assemble /verif/seeded/<id>/ from the confirmed blind mutants.
   NOTE: kept as the record of how seeded/ was built; the scratch roots it reads (/tmp/mw*, with the confirmation records) were
   removed at the end of the build, so it does nothing now - re-run the stored changes with tools/run_seeded.py or
   tools/triage_json.py <out.json> <id>=/verif/seeded/<id>/patch.diff ... instead.
   round 1: /tmp/mw/<P>/mutants/<X>.diff  -> seeded/<P>-<X>/      rounds 2, 3: /tmp/mw2, /tmp/mw3 -> seeded/r2-<P>-<X>/, seeded/r3-<P>-<X>/
   Each directory: patch.diff, demo.py, NOTES.md (author's notes), meta.json (property broken, what the change needs in order to
   manifest, what was run to confirm it, which checks report it).  Only mutants whose confirmation record says confirmed are kept.
   'needs' / 'caught by' texts are taken from the tables of DESIGN.md (sections 8.5 and 8.5b), the rules that fire from the triage
   records (tools/triage_json.py)."""
import json, os, re, shutil, sys

VERIF = os.path.dirname(os.path.dirname(os.path.abspath(__file__)))
design = open(os.path.join(VERIF, "DESIGN.md")).read()
rows = {}
for line in design.splitlines():
    if not line.startswith("| "):
        continue
    cells = [c.strip() for c in line.strip().strip("|").split("|")]
    if len(cells) != 3:
        continue
    for m in re.finditer(r"(r[2345]-)?C\d\d-[ABC]", cells[0]):
        rows[m.group(0)] = cells
triage = {}
for f in sys.argv[1:]:
    if os.path.exists(f):
        triage.update(json.load(open(f)))

SUITE_CMD = ("pytest -q -p no:cacheprovider --timeout=1800 -n 4 --deselect tests/QGMRES/test_qgmres_large.py (all 192 remaining tests of "
             "the pinned suite) on a scratch worktree of /repo HEAD with the patch applied; tests/QGMRES/test_qgmres_large.py -k "
             "test_qgmres_large_scale additionally when the patch touches solver.py / utils.py / data_gen.py / decomp/LU.py")
kept, dropped = [], []
for root, prefix in (("/tmp/mw", ""), ("/tmp/mw2", "r2-"), ("/tmp/mw3", "r3-"), ("/tmp/mw4", "r4-"), ("/tmp/mw5", "r5-")):
    cdir = os.path.join(root, "confirm")
    if not os.path.isdir(cdir):
        continue
    for f in sorted(os.listdir(cdir)):
        if not f.endswith(".json"):
            continue
        rec = json.load(open(os.path.join(cdir, f)))
        tag = rec["mutant"]
        mid = prefix + tag
        prop, x = tag.split("-")
        src = os.path.join(root, prop, "mutants")
        if not rec.get("confirmed"):
            dropped.append((mid, {k: rec.get(k) for k in ("demo_clean_rc", "demo_mutant_rc", "stable_missing", "error")}))
            continue
        dst = os.path.join(VERIF, "seeded", mid)
        os.makedirs(dst, exist_ok=True)
        shutil.copy(os.path.join(src, f"{x}.diff"), os.path.join(dst, "patch.diff"))
        shutil.copy(os.path.join(src, f"demo_{x}.py"), os.path.join(dst, "demo.py"))
        if os.path.exists(os.path.join(src, "NOTES.md")):
            shutil.copy(os.path.join(src, "NOTES.md"), os.path.join(dst, "NOTES.md"))
        row = rows.get(mid) or rows.get(tag if not prefix else mid)
        tri = triage.get(mid) or {}
        fired = {p: v.get("rules") for p, v in tri.items() if isinstance(v, dict) and v.get("rc") == 1}
        meta = {
            "id": mid,
            "breaks_property": prop,
            "change": row[0] if row else None,
            "needs_to_manifest": row[1] if row else None,
            "reported_by": row[2] if row else None,
            "rules_that_fire": fired,
            "author": "blind sub-agent (given only the property text and a scratch worktree)",
            "how_to_apply": "git -C /repo apply /verif/seeded/%s/patch.diff ; run checks ; git -C /repo checkout -- ." % mid,
            "demonstration": "demo.py: exit 0 (PASS) on the unchanged tree, exit 1 on the patched tree; run as "
                             "<tree>/mutants/demo.py or with PYTHONPATH=<tree>",
            "confirmation": {
                "demo_on_clean_tree_rc": rec.get("demo_clean_rc"),
                "demo_on_patched_tree_rc": rec.get("demo_mutant_rc"),
                "demo_on_patched_tree_output_tail": (rec.get("demo_mutant_tail") or "")[-300:],
                "suite_command": SUITE_CMD,
                "suite_rc": rec.get("suite_rc"),
                "suite_summary": (rec.get("suite_tail") or "").strip().splitlines()[-1:] ,
                "large_scale_test_rc": rec.get("large_rc"),
                "large_scale_test_skipped_because": rec.get("large_skipped_reason"),
                "stable_tests_missing_or_failed": rec.get("stable_missing"),
                "other_failures": rec.get("failed"),
                "wall_s": rec.get("wall_s"),
            },
        }
        json.dump(meta, open(os.path.join(dst, "meta.json"), "w"), indent=1)
        kept.append(mid)
print("kept", len(kept), "dropped", dropped)
missing_rows = [k for k in kept if not (rows.get(k))]
print("without DESIGN row:", missing_rows)
