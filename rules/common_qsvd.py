"""Helpers shared by the Q-SVD family rules (C05, C06, C11, C12).

* label helpers: recognise LAPACK labels in a materialised symbolic array, describe the access pattern
  (which factor, transposed or not) in a normalised, position-independent way;
* reference contraction (the mathematical definition: a quaternion is the first column (w, x, y, z) of its
  left-regular 4x4 block) used as the provenance oracle;
* E9b structure typestate, implemented as the taint rule of DESIGN section 3: argument 0 of every
  `real_contract` call is inspected through the interpreter's trace callback; entries that are bare labels of
  a LAPACK factor (slices / transposes of a raw factor) are the finding;
* quaternion-level summaries (opaque product with shape check, labelled QR factors) for the E9a shape runs of
  the randomized routines.
"""
from __future__ import annotations

import ast
import itertools
import re

import numpy as np

from qstatic.alg import Poly, SQ, is_unknown
from qstatic.dom_sym import SymArr, mk, labelled, arrays_same, first_diff
from qstatic.interp import FuncRef, ModelError, Unsupported, Instance
from qstatic.src import AnalysisError

from .common import short

STRUCTURE_MSG = ("real_contract consumes (a slice/transpose of) a raw LAPACK factor: the quaternion block "
                 "structure of LAPACK's factors is not guaranteed (repeated/zero singular values, wide or "
                 "rank-deficient QR), so the contraction need not be a valid quaternion factor")


# --------------------------------------------------------------------------------------------------
# labels
# --------------------------------------------------------------------------------------------------
def lapack_label(v):
    """(tag, index tuple, coefficient) when v is coefficient * one LAPACK label (exponent 1), else None."""
    if not isinstance(v, Poly):
        return None
    s = v.as_single_atom()
    if s is None:
        return None
    c, a, e = s
    if e != 1 or not (isinstance(a, tuple) and len(a) >= 2 and a[0] == "lapack"):
        return None
    return a[1], tuple(a[2:]), c


_TAG = re.compile(r"^([A-Za-z_]+?)(\d+)(?:\.(\w+))?$")


def split_tag(tag):
    """'svd12.Vt' -> ('svd', 12, 'Vt');  'pinv3' -> ('pinv', 3, '')"""
    m = _TAG.match(tag)
    if not m:
        return tag, -1, ""
    return m.group(1), int(m.group(2)), m.group(3) or ""


def describe_lapack_arg(arr):
    """Normalised provenance of a 2-D real array handed to a contraction.
    Returns None when no entry is a bare LAPACK label (the value is not a raw factor), otherwise a dict
    kind ('svd'|'qr'|...), factor ('U'|'Vt'|'Q'|'R'|'mixed'), transposed (True|False|None), text."""
    if not isinstance(arr, SymArr) or arr.ndim != 2 or arr.size == 0:
        return None
    labs = {}
    for i in range(arr.shape[0]):
        for j in range(arr.shape[1]):
            l = lapack_label(arr[i, j])
            if l is not None:
                labs[(i, j)] = l
    if not labs:
        return None
    tags = {l[0] for l in labs.values()}
    kinds = {split_tag(t)[0] for t in tags}
    facs = {split_tag(t)[2] for t in tags}
    kind = kinds.pop() if len(kinds) == 1 else "mixed"
    fac = facs.pop() if len(facs) == 1 else "mixed"
    transposed = None
    if len(tags) == 1 and all(len(l[1]) == 2 for l in labs.values()):
        plain = {(l[1][0] - i, l[1][1] - j) for (i, j), l in labs.items()}
        trans = {(l[1][0] - j, l[1][1] - i) for (i, j), l in labs.items()}
        if len(plain) == 1 and len(trans) != 1:
            transposed = False
        elif len(trans) == 1 and len(plain) != 1:
            transposed = True
        elif len(plain) == 1 and len(trans) == 1:
            transposed = False      # single entry: indistinguishable
    partial = len(labs) != arr.size
    name = fac + ("^T" if transposed else "") + (" (permuted)" if transposed is None else "") \
        + (" (partly)" if partial else "")
    return {"kind": kind, "factor": fac, "transposed": transposed, "text": f"LAPACK {kind} factor {name}"}


def ref_contract(F, m, n):
    """Mathematical contraction: entry (i, j) is the quaternion whose components are the first column of the
    4x4 block (i, j) of F (left-regular representation).  F must be (4m, 4n)."""
    F = np.asarray(F, dtype=object)
    if F.shape != (4 * m, 4 * n):
        raise AnalysisError(f"reference contraction: shape {F.shape} is not (4*{m}, 4*{n})")
    out = mk((m, n), "quat")
    for i in range(m):
        for j in range(n):
            out[i, j] = SQ(*[F[4 * i + p, 4 * j] for p in range(4)])
    return out


def q_labels(tag, shape):
    """quaternion array of fresh labels tag + (i, j, p)"""
    out = mk(shape, "quat")
    for idx in itertools.product(*[range(s) for s in shape]):
        out[idx] = SQ(*[Poly.atom(tuple(tag) + idx + (p,)) for p in range(4)])
    return out


def label_origin(arr, head):
    """If every component p of every entry (i, j) of the quaternion array is the bare label
    head + (i, j, p) (position preserving: the array is a leading block of the labelled array `head`),
    return True."""
    if not isinstance(arr, SymArr) or arr.kind != "quat" or arr.ndim != 2:
        return False
    for i in range(arr.shape[0]):
        for j in range(arr.shape[1]):
            q = arr[i, j]
            for p in range(4):
                if not q.c[p].same(Poly.atom(tuple(head) + (i, j, p))):
                    return False
    return True


def single_head(arr, n_head):
    """head (first n_head fields of the atom) shared by all labels of a quaternion label array, else None"""
    if not isinstance(arr, SymArr) or arr.kind != "quat" or arr.size == 0:
        return None
    heads = set()
    for q in arr.reshape(-1):
        for p in range(4):
            s = q.c[p].as_single_atom()
            if s is None or s[0] != 1 or s[2] != 1 or not isinstance(s[1], tuple):
                return None
            heads.add(tuple(s[1][:n_head]))
    return heads.pop() if len(heads) == 1 else None


# --------------------------------------------------------------------------------------------------
# E9b: structure typestate as a taint rule on real_contract's argument 0
# --------------------------------------------------------------------------------------------------
class ContractTracer:
    """Interp trace callback.  Observes every call whose callee is utils.real_contract and classifies its
    first argument.  `branch` (set by the rule before a run) names the configuration class the run belongs
    to (tall/wide, pass parity) and becomes part of the normalised construct."""

    def __init__(self, program):
        self.target = program.func("utils", "real_contract")
        self.param0 = self.target.params()[0]
        self.branch = None
        self.config = None
        self.sites = {}       # (where, construct) -> dict
        self.calls = 0

    def __call__(self, it, node, f, args, kwargs):
        if not isinstance(f, FuncRef):
            return
        fi = f.fi
        if fi is not self.target and (fi.module.name, fi.qualname) != ("utils", "real_contract"):
            return
        self.calls += 1
        arg0 = args[0] if args else kwargs.get(self.param0)
        # the finding is attributed to the ENTRY POINT under analysis (outermost frame), not to whichever private helper happens to
        # contain the call: extracting the contraction into a shared helper does not make it a different finding
        caller = it.call_stack[0] if it.call_stack else None
        where = caller.where if caller is not None else "?"
        if it.call_stack:
            self.__dict__.setdefault("observed_callers", set()).add(it.call_stack[-1].where)
        desc = describe_lapack_arg(arg0)
        br = f" [{self.branch}]" if self.branch else ""
        if desc is None:
            construct = f"real_contract of a value that is not a raw LAPACK factor{br}"
        else:
            construct = f"real_contract of {desc['text']}{br}"
        key = (where, construct)
        s = self.sites.get(key)
        if s is None:
            self.sites[key] = {"where": where, "construct": construct, "tainted": desc is not None,
                               "loc": it.where(node), "count": 1, "config": self.config}
        else:
            s["count"] += 1

    def emit(self, ctx, rule, only_where=None):
        """one obligation per distinct (function, normalised argument provenance)"""
        n = 0
        for (where, construct), s in sorted(self.sites.items()):
            if only_where is not None and where not in only_where:
                continue
            n += 1
            ctx.ob(rule, f"{where} {construct}", not s["tainted"],
                   f"{STRUCTURE_MSG} (first seen for {s['config']}, {s['count']} call(s) in the box)",
                   where=where, construct=construct, loc=s["loc"])
        return n


# --------------------------------------------------------------------------------------------------
# quaternion-level summaries for the shape runs (E9a)
# --------------------------------------------------------------------------------------------------
class QLevel:
    """Summaries at quaternion level: products are opaque labelled arrays with numpy's conformability check,
    qr_qua returns labelled factors with the shapes established by C06-D1 (Q: m x min(m,n), R: min(m,n) x n).
    All calls are recorded so the provenance of the final lift can be reconstructed."""

    def __init__(self):
        self.mm = []      # (A, B, out)
        self.qr = []      # (X, Q, R)

    def quat_matmat(self, it, A, B):
        for x in (A, B):
            if isinstance(x, Instance):
                raise Unsupported("sparse operand in a summarised quat_matmat")
            if not isinstance(x, SymArr) or x.kind != "quat":
                raise ModelError("quat_matmat: operand is not a quaternion array")
            if x.ndim != 2:
                raise ModelError("quat_matmat: operand is not 2-D")
        if A.shape[1] != B.shape[0]:
            raise ModelError(f"matmul: shapes {A.shape} and {B.shape} not aligned (quat_matmat)")
        k = len(self.mm)
        out = q_labels(("mm", k), (A.shape[0], B.shape[1]))
        self.mm.append((A, B, out))
        return out

    def qr_qua(self, it, X):
        if not isinstance(X, SymArr) or X.kind != "quat" or X.ndim != 2:
            raise ModelError("qr_qua: argument is not a 2-D quaternion array")
        m, n = X.shape
        r = min(m, n)
        t = len(self.qr)
        Q = q_labels(("qrq", t, "Q"), (m, r))
        R = q_labels(("qrq", t, "R"), (r, n))
        self.qr.append((X, Q, R))
        return Q, R

    def summaries(self):
        return {"utils:quat_matmat": self.quat_matmat, "decomp.qsvd:qr_qua": self.qr_qua}


# --------------------------------------------------------------------------------------------------
# threshold conditions  (s_i > tol)
# --------------------------------------------------------------------------------------------------
def parse_threshold(cond):
    """UNKNOWN comparison -> (strict, big, small) meaning big > small (strict) / big >= small, else None"""
    if not is_unknown(cond) or not isinstance(cond.why, tuple) or len(cond.why) != 3:
        return None
    op, a, b = cond.why
    if op == "gt":
        return True, a, b
    if op == "ge":
        return False, a, b
    if op == "lt":
        return True, b, a
    if op == "le":
        return False, b, a
    return None


class PatternChooser:
    """Resolves the i-th UNKNOWN condition met by the i-th entry of `pattern` (False when exhausted)."""

    def __init__(self, pattern):
        self.pattern = list(pattern)
        self.asked = []

    def __call__(self, interp, node, cond):
        i = len(self.asked)
        self.asked.append(cond)
        return self.pattern[i] if i < len(self.pattern) else False


# --------------------------------------------------------------------------------------------------
# signature binding for recording summaries
# --------------------------------------------------------------------------------------------------
def bind_like(fi, args, kwargs):
    """Bind (args, kwargs) against the signature of the repository function fi; literal defaults are
    evaluated with ast.literal_eval.  Returns dict name -> value."""
    a = fi.node.args
    params = [x.arg for x in a.posonlyargs + a.args]
    out = {}
    for p, v in zip(params, args):
        out[p] = v
    if len(args) > len(params):
        raise ModelError(f"too many positional arguments for {fi.name}")
    for k, v in kwargs.items():
        if k in out:
            raise ModelError(f"multiple values for argument {k}")
        if k not in params:
            raise ModelError(f"unexpected keyword argument {k} for {fi.name}")
        out[k] = v
    nd = len(a.defaults)
    for i, p in enumerate(params):
        if p not in out:
            di = i - (len(params) - nd)
            if di < 0:
                raise ModelError(f"missing argument {p} for {fi.name}")
            try:
                out[p] = ast.literal_eval(a.defaults[di])
            except ValueError:
                raise AnalysisError(f"non-literal default of {fi.where}:{p}")
    return out


def fmt_status(st, out):
    return f"{st}: {short(out, 200)}"


def require_unless_failed(ctx, rule, minimum, failed_rules):
    """Anti-vacuity count that applies to a *passing* run: when obligations of `failed_rules` already failed
    (runs aborted early, so fewer dependent obligations exist) the failure is the verdict and must not be
    masked by an analysis error."""
    if any(f.rule in failed_rules for f in ctx.findings):
        return
    ctx.require_instances(rule, minimum)


# --------------------------------------------------------------------------------------------------
# static (AST) form of the same taint rule, for functions that are not interpreted by any rule
# --------------------------------------------------------------------------------------------------
LAPACK_FACTORISATIONS = {"svd": ("U", "s", "Vt"), "qr": ("Q", "R"), "eig": ("w", "V"), "eigh": ("w", "V"),
                         "schur": ("T", "Z"), "hessenberg": ("H", "Q"), "rq": ("R", "Q"), "lu": ("P", "L", "U"),
                         "qz": ("AA", "BB", "Q", "Z")}
_VIEW_METHODS = {"transpose", "copy", "conj", "conjugate", "astype", "reshape"}
_VIEW_FUNCS = {"numpy.transpose", "numpy.array", "numpy.asarray", "numpy.copy", "numpy.ascontiguousarray",
               "numpy.conj", "numpy.conjugate", "numpy.real"}


def attr_chain(node):
    out = []
    while isinstance(node, ast.Attribute):
        out.append(node.attr)
        node = node.value
    if isinstance(node, ast.Name):
        out.append(node.id)
        return list(reversed(out))
    return None


def import_table(fi):
    """local name -> canonical dotted external path (module imports + function-local imports)"""
    tab = {}
    for local, imp in fi.module.imports.items():
        if imp[0] == "extmod":
            tab[local] = imp[1]
        elif imp[0] == "ext":
            tab[local] = f"{imp[1]}.{imp[2]}" if imp[1] else imp[2]
    for n in ast.walk(fi.node):
        if isinstance(n, ast.Import):
            for al in n.names:
                tab[al.asname or al.name.split(".")[0]] = al.name if al.asname else al.name.split(".")[0]
        elif isinstance(n, ast.ImportFrom) and n.module and not n.level:
            for al in n.names:
                tab.setdefault(al.asname or al.name, f"{n.module}.{al.name}")
    return tab


def canonical_callee(fi, call, tab=None):
    """canonical dotted path of an external callee ('numpy.linalg.svd') or None"""
    tab = tab if tab is not None else import_table(fi)
    ch = attr_chain(call.func)
    if not ch or ch[0] not in tab:
        return None
    parts = ".".join([tab[ch[0]]] + ch[1:]).split(".")
    if parts[0] == "np":
        parts[0] = "numpy"
    return ".".join(parts)


def resolves_to(prog, fi, call, target):
    """does the callee Name/Attribute of `call` resolve to the repository function `target`?"""
    f = call.func
    if isinstance(f, ast.Name):
        nm = f.id
        loc = None
        for n in ast.walk(fi.node):       # function-local `from x import real_contract`
            if isinstance(n, ast.ImportFrom):
                for al in n.names:
                    if (al.asname or al.name) == nm:
                        t = prog.resolve_module(fi.module, n.module, n.level)
                        if t is not None:
                            loc = prog.lookup_export(t.name, al.name)
        if loc is None:
            loc = fi.module.functions.get(nm)
        if loc is None:
            imp = fi.module.imports.get(nm)
            if imp and imp[0] == "name":
                loc = prog.lookup_export(imp[1], imp[2])
        return loc is target
    if isinstance(f, ast.Attribute) and f.attr == target.name and isinstance(f.value, ast.Name):
        imp = fi.module.imports.get(f.value.id)
        if imp and imp[0] == "module":
            return prog.lookup_export(imp[1], f.attr) is target
    return False


def _view_root(fi, e, tab):
    """(root Name id, number of transpositions) when e is a view/copy chain over a single name, else None"""
    t = 0
    while True:
        if isinstance(e, ast.Name):
            return e.id, t
        if isinstance(e, ast.Subscript):
            e = e.value
        elif isinstance(e, ast.Attribute) and e.attr == "T":
            t += 1
            e = e.value
        elif isinstance(e, ast.Call) and isinstance(e.func, ast.Attribute) and e.func.attr in _VIEW_METHODS \
                and canonical_callee(fi, e, tab) is None:
            t += e.func.attr == "transpose"
            e = e.func.value
        elif isinstance(e, ast.Call) and canonical_callee(fi, e, tab) in _VIEW_FUNCS and e.args:
            t += canonical_callee(fi, e, tab) == "numpy.transpose"
            e = e.args[0]
        else:
            return None


def static_contract_sites(prog, fi):
    """Flow-insensitive AST taint for one function: names bound to outputs of LAPACK factorisations are
    tainted, taint flows through slicing / transposition / copies / plain assignment and tuple unpacking;
    returns [(call node, construct, tainted)] for every call of utils.real_contract in fi."""
    target = prog.func("utils", "real_contract")
    tab = import_table(fi)
    taint = {}          # name -> (kind, factor name, transposed parity)
    assigns = [n for n in ast.walk(fi.node) if isinstance(n, ast.Assign)]
    changed = True
    while changed:
        changed = False
        for a in assigns:
            v = a.value
            new = {}
            if isinstance(v, ast.Call):
                c = canonical_callee(fi, v, tab)
                kind = c.split(".")[-1] if c and (c.startswith("numpy.linalg.") or c.startswith("scipy.linalg.")) else None
                if kind in LAPACK_FACTORISATIONS:
                    names = LAPACK_FACTORISATIONS[kind]
                    for t in a.targets:
                        if isinstance(t, (ast.Tuple, ast.List)):
                            for i, e in enumerate(t.elts):
                                if isinstance(e, ast.Name):
                                    new[e.id] = (kind, names[i] if i < len(names) else f"#{i}", 0)
                        elif isinstance(t, ast.Name):
                            new[t.id] = (kind, "result", 0)
            r = _view_root(fi, v, tab)
            if r is not None and r[0] in taint:
                k, fname, par = taint[r[0]]
                for t in a.targets:
                    if isinstance(t, ast.Name):
                        new[t.id] = (k, fname, (par + r[1]) % 2)
            for k, val in new.items():
                if taint.get(k) != val and k not in taint:
                    taint[k] = val
                    changed = True
    out = []
    for n in ast.walk(fi.node):
        if isinstance(n, ast.Call) and resolves_to(prog, fi, n, target):
            arg0 = n.args[0] if n.args else next((k.value for k in n.keywords if k.arg == target.params()[0]), None)
            r = _view_root(fi, arg0, tab) if arg0 is not None else None
            if r is not None and r[0] in taint:
                k, fname, par = taint[r[0]]
                tr = "^T" if (par + r[1]) % 2 else ""
                out.append((n, f"real_contract of LAPACK {k} factor {fname}{tr}", True))
            else:
                out.append((n, "real_contract of a value that is not a raw LAPACK factor", False))
    return out


def callers_of_real_contract(prog, modules):
    """[FuncInfo] of every function (incl. methods / nested) of the given modules with a real_contract call"""
    target = prog.func("utils", "real_contract")
    out = []
    for mn in modules:
        mod = prog.module(mn)
        for fi in mod.all_funcs:
            own = [n for n in ast.walk(fi.node) if isinstance(n, ast.Call) and resolves_to(prog, fi, n, target)]
            # calls inside nested defs are attributed to the nested function
            nested_nodes = set()
            for sub in getattr(fi, "nested", {}).values():
                nested_nodes |= {id(x) for x in ast.walk(sub.node)}
            if any(id(n) not in nested_nodes for n in own):
                out.append(fi)
    return out
