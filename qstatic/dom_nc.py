"""E4 - matrix-word domain: quaternion (or real) matrices are elements of a free *-algebra.

QM(nc, shape): a matrix valued non-commutative polynomial; real scalars (Poly) commute with
everything; quat_matmat / quat_hermitian / quat_frobenius_norm / quat_eye are *summarised*
as product / involution / norm atom / identity (rule C01 decides that these summaries are
what the repository kernels compute).  Shapes are small concrete ints (they select the
m>=n / m<n branches and are checked for conformability); the algebra itself is shape generic.
"""
from __future__ import annotations

import itertools
import operator

from .alg import NC, NCContext, Poly, UNKNOWN, is_unknown, is_number, P
from .domain import BaseDomain, TypeModel, Opaque
from .dom_sym import DType, dtype_kind, Namespace
from .interp import ModelError, Unsupported, Instance


class QM:
    """matrix-valued NC polynomial with a shape"""

    def __init__(self, nc: NC, shape, kind="quat"):
        self.nc, self.shape, self.kind = nc, tuple(shape) if shape is not None else None, kind

    def same(self, o):
        return isinstance(o, QM) and self.nc.same(o.nc)

    def key(self):
        return self.nc.key()

    def __repr__(self):
        return f"QM{self.shape}[{self.nc!r}]"

    def _chk(self, o):
        if self.shape is not None and o.shape is not None and self.shape != o.shape:
            raise ModelError(f"operands could not be broadcast together with shapes {self.shape} {o.shape}")

    def __neg__(self):
        return QM(-self.nc, self.shape, self.kind)

    def __pos__(self):
        return self

    def __add__(self, o):
        if isinstance(o, QM):
            self._chk(o)
            return QM(self.nc + o.nc, self.shape or o.shape, self.kind)
        if is_number(o) and o == 0:
            return self
        return NotImplemented

    __radd__ = __add__

    def __sub__(self, o):
        if isinstance(o, QM):
            self._chk(o)
            return QM(self.nc - o.nc, self.shape or o.shape, self.kind)
        if is_number(o) and o == 0:
            return self
        return NotImplemented

    def __rsub__(self, o):
        if is_number(o) and o == 0:
            return -self
        return NotImplemented

    def __mul__(self, o):
        if isinstance(o, Poly) or is_number(o):
            return QM(self.nc.scale(o), self.shape, self.kind)
        return NotImplemented

    __rmul__ = __mul__

    def __truediv__(self, o):
        if isinstance(o, Poly) or is_number(o):
            return QM(self.nc.scale(P(o).inverse()), self.shape, self.kind)
        return NotImplemented

    def matmul(self, o):
        if not isinstance(o, QM):
            raise ModelError("matrix product with a non-matrix")
        if self.shape is not None and o.shape is not None and self.shape[-1] != o.shape[0]:
            raise ModelError(f"matmul: shapes {self.shape} and {o.shape} not aligned")
        shp = None
        if self.shape is not None and o.shape is not None:
            shp = self.shape[:-1] + o.shape[1:]
        return QM(self.nc.mul(o.nc), shp, self.kind)

    def adj(self):
        shp = None if self.shape is None else tuple(reversed(self.shape))
        return QM(self.nc.adj(), shp, self.kind)


def fro_atom(x: QM):
    """||X||_F as a value-numbered atom, canonical under X -> -X and X -> X^H."""
    if list(x.nc.terms) == [()] and x.shape is not None and len(x.shape) == 2 and x.shape[0] == x.shape[1] \
            and isinstance(x.shape[0], int):
        c = x.nc.terms[()]
        return abs(c) * Poly.const(x.shape[0]).sqrt()       # ||c I_n||_F = |c| sqrt(n)
    cands = [x.nc, -x.nc, x.nc.adj(), -(x.nc.adj())]
    k = min((c.key() for c in cands), key=repr)
    if not k:
        return Poly.const(0)
    return Poly.atom(("fro", k))


class RandPlane:
    def __init__(self, tag, shape):
        self.tag, self.shape = tag, tuple(shape)

    def __mul__(self, o):
        return self

    __rmul__ = __mul__


class RandStack:
    def __init__(self, planes):
        self.planes = planes
        self.shape = planes[0].shape + (len(planes),)


class NCDomain(BaseDomain):
    def __init__(self, ctx: NCContext = None):
        super().__init__()
        self.ctx = ctx or NCContext()
        self.events = []
        self._cnt = itertools.count(1)
        d = self
        qdt = DType("quat")
        self.np = Namespace(
            "np", quaternion=qdt, float64=DType("real"),
            ndarray=TypeModel("ndarray", lambda v: isinstance(v, QM)),
            floating=TypeModel("floating", lambda v: isinstance(v, (float, Poly))),
            zeros=d.np_zeros, eye=d.np_eye, zeros_like=lambda a, **k: QM(d.ctx.zero(), a.shape, a.kind),
            sqrt=lambda v: P(v).sqrt() if not isinstance(v, Opaque) else v, abs=lambda v: abs(v),
            finfo=lambda t=None: Namespace("finfo", eps=2.220446049250313e-16),
            random=Namespace("np.random", randn=d.rng_randn, seed=lambda *a: None),
            stack=d.np_stack, moveaxis=d.np_moveaxis, inf=float("inf"),
            add=d._ufunc_out(operator.add), subtract=d._ufunc_out(operator.sub), multiply=d._ufunc_out(operator.mul), isfinite=lambda v: UNKNOWN("isfinite"),
            allclose=lambda *a, **k: UNKNOWN("allclose"),
            transpose=d.np_transpose, conjugate=d.np_conj, conj=d.np_conj,
        )
        self.quaternion = Namespace(
            "quaternion", as_quat_array=d.as_quat_array,
            quaternion=TypeModel("quaternion", lambda v: False, d.q_scalar))

    # ---- models
    def np_zeros(self, shape, dtype=None, **k):
        if isinstance(shape, int):
            shape = (shape,)
        return QM(self.ctx.zero(), tuple(shape), dtype_kind(dtype) or "real")

    def np_eye(self, n, m=None, dtype=None, **k):
        if m is not None and m != n:
            raise Unsupported("rectangular eye in the matrix-word domain")
        return QM(self.ctx.one(), (n, n), dtype_kind(dtype) or "real")

    def rng_randn(self, *shape):
        t = next(self._cnt)
        self.events.append(("randn", t, shape))
        return RandPlane(t, shape)

    def np_stack(self, xs, axis=0):
        if all(isinstance(x, RandPlane) for x in xs) and axis == -1:
            return RandStack(list(xs))
        raise Unsupported("np.stack in the matrix-word domain")

    def _ufunc_out(self, op):
        """np.add / np.subtract / np.multiply(a, b[, out=target]) on matrix words: with out= the TARGET object takes the value
        (matrix words are immutable values here: the result is returned and must be used through its name; an out= target that is
        read again under its own name afterwards is not representable)"""
        def f(a, b, out=None, **k):
            if k:
                raise Unsupported(f"np.{op.__name__}: keywords {sorted(k)}")
            r = self.binop(self._interp, op, a, b, None)
            if out is None:
                return r
            if isinstance(out, QM) and isinstance(r, QM):
                out.nc, out.shape, out.kind = r.nc, r.shape, r.kind      # in-place update of the matrix-word object
                return out
            raise Unsupported("out= target in the matrix-word domain")
        return f

    def np_moveaxis(self, a, src, dst):
        # one draw of shape (4, n, r) whose leading axis is moved last = four independent Gaussian planes stacked on the last axis
        if isinstance(a, RandPlane) and len(a.shape) == 3 and a.shape[0] == 4 and src == 0 and dst in (-1, 2):
            return RandStack([RandPlane((a.tag, i), a.shape[1:]) for i in range(4)])
        raise Unsupported("np.moveaxis in the matrix-word domain")

    def as_quat_array(self, a):
        if isinstance(a, RandStack) and len(a.planes) == 4:
            tags = [p.tag for p in a.planes]
            if len(set(tags)) != 4:
                raise ModelError("sketch planes are not independent draws")
            g = self.ctx.fresh("Rnd")
            self.events.append(("sketch", g, a.planes[0].shape))
            return QM(g, a.planes[0].shape, "quat")
        raise Unsupported("as_quat_array in the matrix-word domain")

    def np_transpose(self, a):
        raise Unsupported("bare transpose of a quaternion matrix in the matrix-word domain")

    def np_conj(self, a):
        raise Unsupported("bare conjugate of a quaternion matrix in the matrix-word domain")

    def q_scalar(self, w=0, x=0, y=0, z=0):
        if all(is_number(v) and float(v) == 0 for v in (x, y, z)):
            return P(w)      # a real quaternion scalar acts as a real scalar
        raise Unsupported("non-real quaternion scalar in the matrix-word domain")

    def ext_module(self, name):
        if name in ("numpy", "np"):
            return self.np
        if name == "quaternion":
            return self.quaternion
        if name == "time":
            return Namespace("time", time=lambda: Opaque("time"), perf_counter=lambda: Opaque("time"))
        if name in ("os", "sys", "typing"):
            return Namespace(name)
        return super().ext_module(name)

    # ---- protocol
    def truth(self, v):
        if isinstance(v, (QM, Namespace, DType)):
            if isinstance(v, QM):
                raise ModelError("truth value of a matrix")
            return True
        return super().truth(v)

    def hasattr(self, v, name):
        if isinstance(v, QM):
            return name in ("shape", "dtype", "copy", "ndim", "reshape")
        return super().hasattr(v, name)

    def binop(self, interp, op, a, b, node):
        if op is operator.matmul:
            if isinstance(a, QM) and isinstance(b, QM) and a.kind != "quat" and b.kind != "quat":
                return a.matmul(b)
            raise ModelError("@ on quaternion arrays is not defined")
        if op is operator.truediv and isinstance(b, Poly):
            self.on_division(interp, a, b, node)
        return super().binop(interp, op, a, b, node)

    def on_division(self, interp, a, b, node):
        pass

    def compare(self, interp, op, a, b, node):
        if isinstance(a, DType) or isinstance(b, DType):
            d, o = (a, b) if isinstance(a, DType) else (b, a)
            r = d.__eq__(o)
            return r if op is operator.eq else (not r)
        return super().compare(interp, op, a, b, node)

    def getattr(self, interp, obj, attr, node=None):
        if isinstance(obj, Namespace):
            return getattr(obj, attr)
        if isinstance(obj, QM):
            if attr == "shape":
                if obj.shape is None:
                    raise Unsupported("shape of a shapeless matrix word")
                return obj.shape
            if attr == "ndim":
                return len(obj.shape)
            if attr == "dtype":
                return DType(obj.kind)
            if attr == "copy":
                return lambda: obj
            if attr == "reshape":
                def reshape(*shape):
                    if len(shape) == 1 and isinstance(shape[0], tuple):
                        shape = shape[0]
                    return QM(obj.nc, tuple(shape), obj.kind)
                return reshape
            if attr == "T" and obj.kind == "real":
                return obj.adj()
            raise Unsupported(f"attribute {attr!r} of a matrix word" + (f" at {interp.where(node)}" if node is not None else ""))
        if isinstance(obj, Poly):
            if attr in ("real", "conjugate", "conj", "sqrt"):
                return getattr(obj, attr)
            if attr == "w":
                return obj
        if isinstance(obj, Opaque):
            return Opaque(obj.why + "." + attr)
        return super().getattr(interp, obj, attr, node)

    def getitem(self, interp, obj, idx, node):
        if isinstance(obj, QM):
            # a slice that covers the whole extent of every axis is the matrix itself; a proper sub-block of a matrix word has no
            # representation in this domain
            if obj.shape is not None:
                ix = idx if isinstance(idx, tuple) else (idx,)
                if len(ix) <= len(obj.shape) and all(isinstance(i, slice) for i in ix):
                    full = True
                    for i, dim in zip(ix, obj.shape):
                        start = 0 if i.start is None else int(P(i.start).const_value()) if isinstance(i.start, Poly) else i.start
                        stop = dim if i.stop is None else int(P(i.stop).const_value()) if isinstance(i.stop, Poly) else i.stop
                        if i.step not in (None, 1) or start != 0 or not (isinstance(stop, int) and stop >= dim):
                            full = False
                    if full:
                        return obj
            raise Unsupported(f"indexing a matrix word at {interp.where(node)}")
        return super().getitem(interp, obj, idx, node)

    def setitem(self, interp, obj, idx, v, node):
        if isinstance(obj, QM):
            raise Unsupported(f"entry store into a matrix word at {interp.where(node)}")
        return super().setitem(interp, obj, idx, v, node)


def std_summaries(dom: NCDomain):
    """Summaries of the utils kernels at matrix level (justified by C01/C15)."""
    def s_matmat(it, A, B):
        if not isinstance(A, QM) or not isinstance(B, QM):
            raise Unsupported(f"quat_matmat on {type(A).__name__}, {type(B).__name__}")
        return A.matmul(B)

    def s_herm(it, A):
        return A.adj()

    def s_fro(it, A):
        return fro_atom(A)

    def s_eye(it, n):
        return QM(dom.ctx.one(), (n, n), "quat")

    return {"utils:quat_matmat": s_matmat, "utils:quat_hermitian": s_herm,
            "utils:quat_frobenius_norm": s_fro, "utils:quat_eye": s_eye}
