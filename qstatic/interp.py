"""E0 - abstract interpreter for the Python/numpy subset used by the anchored functions.

The interpreter walks the AST (it never imports, compiles or calls repository code).
Values are whatever the chosen *value domain* provides (free-algebra polynomials, label
arrays, shape descriptors ...) plus ordinary Python ints / strings / lists used for
index bookkeeping.  Library names (np, quaternion, sparse, ...) are bound to *models*
of the domain.  A condition whose truth depends on runtime data evaluates to UNKNOWN and
is resolved by an explicit `chooser` (configuration / nondeterministic enumeration) -
never guessed.
"""
from __future__ import annotations

import ast
import operator
import time as _time

from . import alg as _alg
from .alg import UnknownTruth, is_unknown, UNKNOWN, Poly
from .src import AnalysisError, FuncInfo, ClassInfo, ModuleInfo


FALLTHROUGH = object()   # a summary returns this to let the interpreter inline the function after all


class RepoRaise(Exception):
    """The interpreted code executed `raise X(...)` / a failing assert."""

    def __init__(self, exc_name, node, where, msg=None):
        super().__init__(f"{exc_name} at {where}")
        self.exc_name, self.node, self.where, self.msg = exc_name, node, where, msg


class ModelError(Exception):
    """A modelled library call failed the way the real one would (shape mismatch, index
    out of range, ...).  `except Exception` in interpreted code catches it."""

    exc_name = "ValueError"


class Unsupported(AnalysisError):
    pass


class NeedChoice(Exception):
    def __init__(self, node, cond):
        self.node, self.cond = node, cond


class _Return(Exception):
    def __init__(self, v):
        self.v = v


class _Break(Exception):
    pass


class _Continue(Exception):
    pass


class FuncRef:
    def __init__(self, fi: FuncInfo, closure=None, bound_self=None):
        self.fi, self.closure, self.bound_self = fi, closure, bound_self

    def __repr__(self):
        return f"<FuncRef {self.fi.where}>"


class ClassRef:
    def __init__(self, ci: ClassInfo):
        self.ci = ci

    def __repr__(self):
        return f"<ClassRef {self.ci.name}>"


class ModuleRef:
    def __init__(self, mi: ModuleInfo):
        self.mi = mi


class Instance:
    """Instance of a repository class."""

    def __init__(self, ci: ClassInfo, attrs=None):
        self.ci = ci
        self.attrs = dict(attrs or {})

    def __repr__(self):
        return f"<Instance {self.ci.name}>"


class LambdaRef:
    def __init__(self, node, env, fi):
        self.node, self.env, self.fi = node, env, fi


class ExcClass:
    """Model of an exception class (builtin); calling it produces an ExcValue."""

    def __init__(self, name):
        self.name = name

    def __call__(self, *a, **k):
        return ExcValue(self.name, a)


class ExcValue:
    def __init__(self, name, args=()):
        self.name, self.args = name, args

    def __str__(self):
        return f"{self.name}{self.args}"


EXC_HIER = {
    "Exception": {"Exception", "ValueError", "TypeError", "RuntimeError", "NotImplementedError", "AssertionError",
                  "IndexError", "KeyError", "ZeroDivisionError", "ArithmeticError", "LinAlgError", "ImportError",
                  "AttributeError", "FloatingPointError", "OverflowError", "StopIteration"},
    "ArithmeticError": {"ArithmeticError", "ZeroDivisionError", "FloatingPointError", "OverflowError"},
    "RuntimeError": {"RuntimeError", "NotImplementedError"},
    "LookupError": {"IndexError", "KeyError"},
}

BINOPS = {
    ast.Add: operator.add, ast.Sub: operator.sub, ast.Mult: operator.mul, ast.Div: operator.truediv,
    ast.FloorDiv: operator.floordiv, ast.Mod: operator.mod, ast.Pow: operator.pow, ast.MatMult: operator.matmul,
    ast.BitAnd: operator.and_, ast.BitOr: operator.or_, ast.BitXor: operator.xor,
    ast.LShift: operator.lshift, ast.RShift: operator.rshift,
}
CMPOPS = {
    ast.Eq: operator.eq, ast.NotEq: operator.ne, ast.Lt: operator.lt, ast.LtE: operator.le,
    ast.Gt: operator.gt, ast.GtE: operator.ge,
}


class Env:
    __slots__ = ("vars", "parent")

    def __init__(self, parent=None):
        self.vars = {}
        self.parent = parent

    def lookup(self, name):
        e = self
        while e is not None:
            if name in e.vars:
                return e.vars[name]
            e = e.parent
        raise KeyError(name)

    def has(self, name):
        e = self
        while e is not None:
            if name in e.vars:
                return True
            e = e.parent
        return False


class Interp:
    def __init__(self, program, domain, chooser=None, summaries=None, max_steps=2_000_000, trace=None,
                 stmt_hook=None):
        """domain: object with
             .builtins : dict name -> model value/callable
             .ext_module(name) -> model object for an external module (np, quaternion, ...)
             .getattr(interp, value, attr) -> value  (domain objects / library objects)
             .truth(value) -> bool | UNKNOWN
           summaries: dict 'module:qualname' -> python callable(interp, *args, **kw) replacing
           the interpretation of that repository function."""
        self.program = program
        self.domain = domain
        self.chooser = chooser
        self.summaries = summaries or {}
        self.max_steps = max_steps
        self.steps = 0
        self.trace = trace
        self.stmt_hook = stmt_hook
        self.after_call = None
        self.time_budget = 240.0               # wall-clock budget of one run() of this interpreter
        self.deadline = _time.time() + self.time_budget
        _alg.set_deadline(self.deadline)
        self.decision_log = []          # (cond, node, outcome) of every decided UNKNOWN condition, in order
        self.default_chooser = None     # fallback for conditions the rule's chooser does not decide (see scenario.py)
        self.call_stack = []
        self._modglobals = {}

    # ------------------------------------------------------------------ utilities
    def where(self, node):
        fi = self.call_stack[-1] if self.call_stack else None
        rel = fi.module.relpath if fi else "?"
        return f"{rel}:{getattr(node, 'lineno', '?')}"

    def unsupported(self, node, what):
        raise Unsupported(f"unsupported construct ({what}) at {self.where(node)}: {ast.unparse(node)[:80]}")

    def truth(self, v, node):
        if isinstance(v, bool):
            return v
        if v is None:
            return False
        if is_unknown(v):
            return self.decide(node, v)
        try:
            t = self.domain.truth(v)
        except UnknownTruth as e:
            t = e.args[0] if e.args else UNKNOWN("truth")
        if is_unknown(t):
            return self.decide(node, t)
        return bool(t)

    def decide(self, node, cond):
        # one condition VALUE (the same object, e.g. a boolean mask used twice) has one truth value per run
        memo = self.__dict__.setdefault("_decided", {})
        if self.decision_log == [] and memo:
            memo.clear()
        hit = memo.get(id(cond))
        if hit is not None and hit[0] is cond:
            return hit[1]
        r = self._decide(node, cond)
        memo[id(cond)] = (cond, r)
        return r

    def _decide(self, node, cond):
        r = None
        if self.chooser is not None:
            r = self.chooser(self, node, cond)
        if r is None and self.default_chooser is not None:
            r = self.default_chooser(self, node, cond)
        if r is None:
            raise NeedChoice(node, cond)
        self.decision_log.append((cond, node, bool(r)))
        return bool(r)

    # ------------------------------------------------------------------ name resolution
    def module_global(self, mod: ModuleInfo, name):
        key = (mod.name, name)
        if key in self._modglobals:
            return self._modglobals[key]
        v = self._resolve_global(mod, name)
        self._modglobals[key] = v
        return v

    def _resolve_global(self, mod, name):
        if name in mod.functions:
            return FuncRef(mod.functions[name])
        if name in mod.classes:
            return ClassRef(mod.classes[name])
        imp = mod.imports.get(name)
        if imp is not None:
            return self._import_value(imp)
        # module-level constant assignment
        for node in mod.tree.body:
            if isinstance(node, ast.Assign):
                for t in node.targets:
                    if isinstance(t, ast.Name) and t.id == name:
                        self.call_stack.append(_ModFrame(mod))
                        try:
                            return self.eval(node.value, Env())
                        finally:
                            self.call_stack.pop()
        if name in self.domain.builtins:
            return self.domain.builtins[name]
        raise Unsupported(f"unresolved name {name!r} in module {mod.name}")

    def _import_value(self, imp):
        kind = imp[0]
        if kind == "name":
            r = self.program.lookup_export(imp[1], imp[2])
            if r is None:
                # maybe a constant in that module
                return self.module_global(self.program.modules[imp[1]], imp[2])
            return self._wrap(r)
        if kind == "module":
            return ModuleRef(self.program.modules[imp[1]])
        if kind == "ext":
            m = self.domain.ext_module(imp[1])
            return self.domain.getattr(self, m, imp[2])
        if kind == "extmod":
            return self.domain.ext_module(imp[1])
        raise Unsupported(f"import kind {imp}")

    @staticmethod
    def _wrap(r):
        if isinstance(r, FuncInfo):
            return FuncRef(r)
        if isinstance(r, ClassInfo):
            return ClassRef(r)
        if isinstance(r, ModuleInfo):
            return ModuleRef(r)
        return r

    def lookup(self, name, env, node):
        if name in env.vars.get("__globals__", ()):
            return self.module_global(self.call_stack[-1].module, name)
        try:
            return env.lookup(name)
        except KeyError:
            pass
        fi = self.call_stack[-1]
        # nested function definitions of enclosing functions are bound by FunctionDef stmts
        try:
            return self.module_global(fi.module, name)
        except Unsupported:
            if name in self._local_names(fi):
                # a local variable read on a path that never bound it: Python raises UnboundLocalError there
                raise RepoRaise("UnboundLocalError", node, self.where(node), (f"local variable {name!r} referenced before assignment",))
            raise Unsupported(f"unresolved name {name!r} at {self.where(node)}")

    def _local_names(self, fi):
        cache = self.__dict__.setdefault("_locals_cache", {})
        key = id(getattr(fi, "node", None))
        if key not in cache:
            names = set()
            nd = getattr(fi, "node", None)
            if isinstance(nd, (ast.FunctionDef, ast.AsyncFunctionDef, ast.Lambda)):
                stack = list(nd.body) if not isinstance(nd, ast.Lambda) else []
                while stack:
                    x = stack.pop()
                    if isinstance(x, (ast.FunctionDef, ast.AsyncFunctionDef, ast.ClassDef, ast.Lambda)):
                        if hasattr(x, "name"):
                            names.add(x.name)
                        continue
                    if isinstance(x, ast.Name) and isinstance(x.ctx, (ast.Store, ast.Del)):
                        names.add(x.id)
                    stack.extend(ast.iter_child_nodes(x))
            cache[key] = names
        return cache[key]

    # ------------------------------------------------------------------ calls
    def call(self, f, args, kwargs, node=None):
        if isinstance(f, FuncRef):
            return self.call_repo(f, args, kwargs, node)
        if isinstance(f, ClassRef):
            inst = Instance(f.ci)
            init = f.ci.methods.get("__init__")
            if init is not None:
                self.call_repo(FuncRef(init, bound_self=inst), args, kwargs, node)
            return inst
        if isinstance(f, LambdaRef):
            env = Env(f.env)
            self._bind_args(f.node.args, args, kwargs, env, f.node, f.fi)
            return self.eval(f.node.body, env)
        if callable(f):
            try:
                if getattr(f, "_wants_interp", False):
                    return f(self, *args, **kwargs)
                return f(*args, **kwargs)
            except (ModelError, RepoRaise, NeedChoice, AnalysisError, UnknownTruth):
                raise
            except TypeError as e:
                # a library model called with a keyword / arity it does not implement (out=, order=, ...): outside the modelled
                # subset, never an internal error and never silently ignored
                if "unexpected keyword argument" in str(e) or "positional argument" in str(e):
                    raise Unsupported(f"library model {getattr(f, '__name__', f)!s}: {e} at {self.where(node) if node else '?'}")
                raise
        raise Unsupported(f"call of non-callable model value {f!r} at {self.where(node) if node else '?'}")

    def call_repo(self, fr: FuncRef, args, kwargs, node=None):
        fi = fr.fi
        key = f"{fi.module.name}:{fi.qualname}"
        if fr.bound_self is not None:
            args = [fr.bound_self] + list(args)
        if key in self.summaries:
            r = self.summaries[key](self, *args, **kwargs)
            if r is not FALLTHROUGH:
                return r
        env = Env(fr.closure)
        self.call_stack.append(fi)
        if len(self.call_stack) > 60:
            raise Unsupported("call depth exceeded")
        try:
            self._bind_args(fi.node.args, args, kwargs, env, fi.node, fi)
            try:
                self.exec_block(fi.node.body, env)
            except _Return as r:
                return r.v
            return None
        finally:
            self.call_stack.pop()

    def _bind_args(self, a, args, kwargs, env, fnode, fi):
        params = [x.arg for x in a.posonlyargs + a.args]
        defaults = a.defaults
        args = list(args)
        kwargs = dict(kwargs)
        n = len(params)
        vals = {}
        for i, p in enumerate(params):
            if i < len(args):
                vals[p] = args[i]
        extra = args[n:]
        if extra:
            if a.vararg is None:
                raise ModelError(f"too many positional arguments for {getattr(fnode, 'name', 'lambda')}")
            vals[a.vararg.arg] = tuple(extra)
        elif a.vararg is not None:
            vals[a.vararg.arg] = ()
        for p in params:
            if p in kwargs:
                if p in vals:
                    raise ModelError(f"multiple values for argument {p}")
                vals[p] = kwargs.pop(p)
        # defaults are evaluated in the defining scope (module / closure)
        defenv = env.parent if env.parent is not None else Env()
        for i, p in enumerate(params):
            if p not in vals:
                di = i - (n - len(defaults))
                if di < 0:
                    raise ModelError(f"missing argument {p} for {getattr(fnode, 'name', 'lambda')}")
                vals[p] = self.eval(defaults[di], defenv)
        for p, d in zip(a.kwonlyargs, a.kw_defaults):
            if p.arg in kwargs:
                vals[p.arg] = kwargs.pop(p.arg)
            elif d is not None:
                vals[p.arg] = self.eval(d, defenv)
            else:
                raise ModelError(f"missing keyword argument {p.arg}")
        if kwargs:
            if a.kwarg is None:
                raise ModelError(f"unexpected keyword arguments {sorted(kwargs)} for {getattr(fnode, 'name', 'lambda')}")
            vals[a.kwarg.arg] = kwargs
        elif a.kwarg is not None:
            vals[a.kwarg.arg] = {}
        env.vars.update(vals)

    # ------------------------------------------------------------------ statements
    def exec_block(self, stmts, env):
        for s in stmts:
            self.exec(s, env)

    def exec(self, s, env):
        self.steps += 1
        if self.steps > self.max_steps:
            raise Unsupported("step budget exceeded")
        if self.deadline is not None and (self.steps & 63) == 0 and _time.time() > self.deadline:
            raise Unsupported("time budget of one interpretation exceeded (expression swell on an unforeseen path)")
        if self.stmt_hook is not None:
            self.stmt_hook(self, s, env)
        m = getattr(self, "x_" + type(s).__name__, None)
        if m is None:
            self.unsupported(s, type(s).__name__)
        return m(s, env)

    def x_Expr(self, s, env):
        if isinstance(s.value, ast.Constant):
            return
        self.eval(s.value, env)

    def x_Pass(self, s, env):
        pass

    def x_Assign(self, s, env):
        v = self.eval(s.value, env)
        for t in s.targets:
            self.assign(t, v, env)

    def x_AnnAssign(self, s, env):
        if s.value is not None:
            self.assign(s.target, self.eval(s.value, env), env)

    def x_AugAssign(self, s, env):
        t = s.target
        op = BINOPS[type(s.op)]
        if isinstance(t, ast.Name):
            cur = self.lookup(t.id, env, t)
            new = self.binop(op, cur, self.eval(s.value, env), s)
            hook = getattr(self.domain, "inplace_result", None)
            if hook is not None:
                # `x op= y` on an ndarray updates x in place and keeps its identity (aliases see the change)
                new = hook(self, op, cur, new, s)
            self.assign(t, new, env)
        elif isinstance(t, ast.Subscript):
            obj = self.eval(t.value, env)
            idx = self.eval_index(t.slice, env)
            cur = self.getitem(obj, idx, t)
            self.setitem(obj, idx, self.binop(op, cur, self.eval(s.value, env), s), t)
        elif isinstance(t, ast.Attribute):
            obj = self.eval(t.value, env)
            cur = self.getattr(obj, t.attr, t)
            self.setattr(obj, t.attr, self.binop(op, cur, self.eval(s.value, env), s), t)
        else:
            self.unsupported(s, "augassign target")

    def assign(self, t, v, env):
        if isinstance(t, ast.Name):
            if t.id in env.vars.get("__nonlocals__", ()):
                e_ = env.parent
                while e_ is not None and t.id not in e_.vars:
                    e_ = e_.parent
                if e_ is None:
                    raise ModelError(f"no binding for nonlocal {t.id!r} found")
                e_.vars[t.id] = v
                return
            if t.id in env.vars.get("__globals__", ()):
                mod = self.call_stack[-1].module
                self._modglobals[(mod.name, t.id)] = v
                self.__dict__.setdefault("global_stores", []).append((mod.name, t.id, self.where(t)))
                hook = getattr(self.domain, "note_global_store", None)
                if hook is not None:
                    hook(self, mod, t.id, v, t)
                return
            env.vars[t.id] = v
        elif isinstance(t, (ast.Tuple, ast.List)):
            try:
                items = list(self.iterate(v, t))
            except TypeError:
                self.unsupported(t, f"unpack of {type(v).__name__}")
            star = [i for i, e in enumerate(t.elts) if isinstance(e, ast.Starred)]
            if star:
                k = star[0]
                after = len(t.elts) - k - 1
                if len(items) < len(t.elts) - 1:
                    raise ModelError("not enough values to unpack")
                for e, it in zip(t.elts[:k], items[:k]):
                    self.assign(e, it, env)
                self.assign(t.elts[k].value, list(items[k:len(items) - after]), env)
                for e, it in zip(t.elts[k + 1:], items[len(items) - after:]):
                    self.assign(e, it, env)
                return
            if len(items) != len(t.elts):
                raise ModelError(f"cannot unpack {len(items)} values into {len(t.elts)} targets at {self.where(t)}")
            for e, it in zip(t.elts, items):
                self.assign(e, it, env)
        elif isinstance(t, ast.Subscript):
            obj = self.eval(t.value, env)
            idx = self.eval_index(t.slice, env)
            self.setitem(obj, idx, v, t)
        elif isinstance(t, ast.Attribute):
            obj = self.eval(t.value, env)
            self.setattr(obj, t.attr, v, t)
        else:
            self.unsupported(t, "assignment target")

    def x_If(self, s, env):
        if self.truth(self.eval(s.test, env), s.test):
            self.exec_block(s.body, env)
        else:
            self.exec_block(s.orelse, env)

    def x_For(self, s, env):
        it = self.eval(s.iter, env)
        broke = False
        for v in self.iterate(it, s.iter):
            self.assign(s.target, v, env)
            try:
                self.exec_block(s.body, env)
            except _Break:
                broke = True
                break
            except _Continue:
                continue
        if not broke:
            self.exec_block(s.orelse, env)

    def x_While(self, s, env):
        broke = False
        while self.truth(self.eval(s.test, env), s.test):
            try:
                self.exec_block(s.body, env)
            except _Break:
                broke = True
                break
            except _Continue:
                continue
        if not broke:
            self.exec_block(s.orelse, env)

    def x_Break(self, s, env):
        raise _Break()

    def x_Continue(self, s, env):
        raise _Continue()

    def x_Return(self, s, env):
        raise _Return(self.eval(s.value, env) if s.value is not None else None)

    def x_Raise(self, s, env):
        name, msg = "Exception", None
        if s.exc is not None:
            v = self.eval(s.exc, env)
            if isinstance(v, ExcValue):
                name, msg = v.name, v.args
            elif isinstance(v, ExcClass):
                name = v.name
            else:
                name = type(v).__name__
        raise RepoRaise(name, s, self.where(s), msg)

    def x_Assert(self, s, env):
        if not self.truth(self.eval(s.test, env), s.test):
            raise RepoRaise("AssertionError", s, self.where(s))

    def x_Try(self, s, env):
        try:
            try:
                self.exec_block(s.body, env)
            except (RepoRaise, ModelError) as e:
                name = e.exc_name
                for h in s.handlers:
                    if self._handler_matches(h, name, env):
                        if h.name:
                            env.vars[h.name] = ExcValue(name, (str(e),))
                        self.exec_block(h.body, env)
                        break
                else:
                    raise
            else:
                self.exec_block(s.orelse, env)
        finally:
            # finalbody: interpreted only on normal completion paths we model
            if s.finalbody:
                self.exec_block(s.finalbody, env)

    def _handler_matches(self, h, name, env):
        if h.type is None:
            return True
        types = h.type.elts if isinstance(h.type, ast.Tuple) else [h.type]
        for t in types:
            tn = t.id if isinstance(t, ast.Name) else (t.attr if isinstance(t, ast.Attribute) else None)
            if tn is None:
                continue
            if tn == name or tn == "BaseException" or name in EXC_HIER.get(tn, ()):
                return True
        return False

    def x_With(self, s, env):
        for item in s.items:
            v = self.eval(item.context_expr, env)
            if item.optional_vars is not None:
                self.assign(item.optional_vars, v, env)
        self.exec_block(s.body, env)

    def x_FunctionDef(self, s, env):
        fi = self.call_stack[-1]
        nested = getattr(fi, "nested", {}).get(s.name)
        if nested is None or nested.node is not s:
            nested = FuncInfo(fi.module, s, None, fi)
            nested.nested = {}
        env.vars[s.name] = FuncRef(nested, closure=env)

    def x_Import(self, s, env):
        fi = self.call_stack[-1]
        for al in s.names:
            local = al.asname or al.name.split(".")[0]
            t = self.program.resolve_module(fi.module, al.name, 0)
            env.vars[local] = ModuleRef(t) if t is not None else self.domain.ext_module(
                al.name if al.asname else al.name.split(".")[0])

    def x_ImportFrom(self, s, env):
        fi = self.call_stack[-1]
        t = self.program.resolve_module(fi.module, s.module, s.level)
        for al in s.names:
            local = al.asname or al.name
            if t is not None:
                r = self.program.lookup_export(t.name, al.name)
                if r is None:
                    raise RepoRaise("ImportError", s, self.where(s))
                env.vars[local] = self._wrap(r)
            else:
                m = self.domain.ext_module(s.module or "")
                env.vars[local] = self.domain.getattr(self, m, al.name)

    def x_Global(self, s, env):
        # names declared global: stores go to the module namespace (kept per interpreter: state that survives the call)
        env.vars.setdefault("__globals__", set()).update(s.names)

    def x_Nonlocal(self, s, env):
        # names declared nonlocal: stores go to the nearest enclosing function scope that binds the name
        env.vars.setdefault("__nonlocals__", set()).update(s.names)

    def x_Delete(self, s, env):
        for t in s.targets:
            if isinstance(t, ast.Name):
                env.vars.pop(t.id, None)
            else:
                self.unsupported(s, "del target")

    # ------------------------------------------------------------------ expressions
    def eval(self, e, env):
        m = getattr(self, "e_" + type(e).__name__, None)
        if m is None:
            self.unsupported(e, type(e).__name__)
        return m(e, env)

    def e_Constant(self, e, env):
        return e.value

    def e_Name(self, e, env):
        return self.lookup(e.id, env, e)

    def e_JoinedStr(self, e, env):
        return "<fstring>"

    def e_FormattedValue(self, e, env):
        return "<fstring>"

    def e_Tuple(self, e, env):
        return tuple(self._elts(e.elts, env))

    def e_List(self, e, env):
        return list(self._elts(e.elts, env))

    def e_Set(self, e, env):
        return set(self._elts(e.elts, env))

    def _elts(self, elts, env):
        out = []
        for x in elts:
            if isinstance(x, ast.Starred):
                out.extend(self.iterate(self.eval(x.value, env), x))
            else:
                out.append(self.eval(x, env))
        return out

    def e_Dict(self, e, env):
        d = {}
        for k, v in zip(e.keys, e.values):
            if k is None:
                d.update(self.eval(v, env))
            else:
                d[self.eval(k, env)] = self.eval(v, env)
        return d

    def e_BinOp(self, e, env):
        return self.binop(BINOPS[type(e.op)], self.eval(e.left, env), self.eval(e.right, env), e)

    DUNDER = {operator.add: "add", operator.sub: "sub", operator.mul: "mul", operator.truediv: "truediv",
              operator.matmul: "matmul", operator.pow: "pow", operator.floordiv: "floordiv", operator.mod: "mod"}

    def binop(self, op, a, b, node):
        if isinstance(a, Instance) or isinstance(b, Instance):
            nm = self.DUNDER.get(op)
            if nm and isinstance(a, Instance) and f"__{nm}__" in a.ci.methods:
                return self.call_repo(FuncRef(a.ci.methods[f"__{nm}__"], bound_self=a), [b], {}, node)
            if nm and isinstance(b, Instance) and f"__r{nm}__" in b.ci.methods:
                return self.call_repo(FuncRef(b.ci.methods[f"__r{nm}__"], bound_self=b), [a], {}, node)
            raise RepoRaise("TypeError", node, self.where(node), ("unsupported operand",))
        try:
            return self.domain.binop(self, op, a, b, node)
        except (ModelError, UnknownTruth, AnalysisError):
            raise
        except ZeroDivisionError:
            raise ModelError(f"ZeroDivisionError at {self.where(node)}")
        except TypeError as ex:
            raise Unsupported(f"binary operator on {type(a).__name__}, {type(b).__name__} at {self.where(node)}: {ex}")

    def e_UnaryOp(self, e, env):
        v = self.eval(e.operand, env)
        if isinstance(e.op, ast.Not):
            return not self.truth(v, e.operand)
        if isinstance(e.op, ast.USub):
            return self.domain.unop(self, operator.neg, v, e)
        if isinstance(e.op, ast.UAdd):
            return v
        if isinstance(e.op, ast.Invert):
            return self.domain.unop(self, operator.invert, v, e)
        self.unsupported(e, "unary op")

    def e_BoolOp(self, e, env):
        # values whose truth had to be *decided* (UNKNOWN) are replaced by the decision, so that an
        # enclosing test does not ask again
        if isinstance(e.op, ast.And):
            v = True
            for x in e.values:
                v = self.eval(x, env)
                t = self.truth(v, x)
                if not t:
                    return v if isinstance(v, (bool, int, float, str, list, tuple, dict)) or v is None else False
                if not isinstance(v, (bool, int, float, str, list, tuple, dict)):
                    v = True if is_unknown(v) else v
            return v
        v = False
        for x in e.values:
            v = self.eval(x, env)
            t = self.truth(v, x)
            if t:
                return True if is_unknown(v) else v
            if is_unknown(v):
                v = False
        return v

    def e_Compare(self, e, env):
        left = self.eval(e.left, env)
        result = True
        for op, rn in zip(e.ops, e.comparators):
            right = self.eval(rn, env)
            r = self.compare(op, left, right, e)
            if len(e.ops) == 1:
                return r
            if not self.truth(r, e):
                return False
            left = right
        return result

    def compare(self, op, a, b, node):
        if isinstance(op, ast.Is):
            return self.domain.is_(a, b)
        if isinstance(op, ast.IsNot):
            return not self.domain.is_(a, b)
        if isinstance(op, (ast.In, ast.NotIn)):
            r = self.domain.contains(self, b, a, node)
            if isinstance(op, ast.NotIn):
                return (not r) if isinstance(r, bool) else r
            return r
        return self.domain.compare(self, CMPOPS[type(op)], a, b, node)

    def e_IfExp(self, e, env):
        if self.truth(self.eval(e.test, env), e.test):
            return self.eval(e.body, env)
        return self.eval(e.orelse, env)

    def e_Lambda(self, e, env):
        return LambdaRef(e, env, self.call_stack[-1])

    def e_Starred(self, e, env):
        self.unsupported(e, "starred")

    def e_Attribute(self, e, env):
        return self.getattr(self.eval(e.value, env), e.attr, e)

    def getattr(self, obj, attr, node):
        if isinstance(obj, Instance):
            if attr in obj.attrs:
                return obj.attrs[attr]
            m = obj.ci.methods.get(attr)
            if m is not None:
                if any(isinstance(d, ast.Name) and d.id == "staticmethod" for d in m.node.decorator_list):
                    return FuncRef(m)
                return FuncRef(m, bound_self=obj)
            r = self.domain.instance_getattr(self, obj, attr, node)
            if r is not NotImplemented:
                return r
            raise RepoRaise("AttributeError", node, self.where(node), (attr,))
        if isinstance(obj, ClassRef):
            m = obj.ci.methods.get(attr)
            if m is not None:
                return FuncRef(m)
            raise RepoRaise("AttributeError", node, self.where(node), (attr,))
        if isinstance(obj, ModuleRef):
            r = self.program.lookup_export(obj.mi.name, attr)
            if r is None:
                return self.module_global(obj.mi, attr)
            return self._wrap(r)
        return self.domain.getattr(self, obj, attr, node)

    def setattr(self, obj, attr, v, node):
        if isinstance(obj, Instance):
            obj.attrs[attr] = v
            return
        self.domain.setattr(self, obj, attr, v, node)

    def e_Subscript(self, e, env):
        obj = self.eval(e.value, env)
        idx = self.eval_index(e.slice, env)
        return self.getitem(obj, idx, e)

    def eval_index(self, s, env):
        if isinstance(s, ast.Slice):
            return slice(self.eval(s.lower, env) if s.lower else None,
                         self.eval(s.upper, env) if s.upper else None,
                         self.eval(s.step, env) if s.step else None)
        if isinstance(s, ast.Tuple):
            return tuple(self.eval_index(x, env) for x in s.elts)
        return self.eval(s, env)

    def getitem(self, obj, idx, node):
        try:
            return self.domain.getitem(self, obj, idx, node)
        except IndexError as ex:
            if "only integers" in str(ex) or "arrays used as indices" in str(ex):
                # an index VALUE the model could not make concrete (not an out-of-range access of the analysed code)
                raise Unsupported(f"index expression outside the modelled subset at {self.where(node)}: {ex}")
            me = ModelError(f"IndexError at {self.where(node)}: {ex}")
            me.exc_name = "IndexError"
            raise me
        except KeyError as ex:
            me = ModelError(f"KeyError at {self.where(node)}: {ex}")
            me.exc_name = "KeyError"
            raise me

    def setitem(self, obj, idx, v, node):
        try:
            self.domain.setitem(self, obj, idx, v, node)
        except IndexError as ex:
            if "only integers" in str(ex) or "arrays used as indices" in str(ex):
                raise Unsupported(f"index expression outside the modelled subset at {self.where(node)}: {ex}")
            me = ModelError(f"IndexError at {self.where(node)}: {ex}")
            me.exc_name = "IndexError"
            raise me
        except ValueError as ex:
            raise ModelError(f"ValueError at {self.where(node)}: {ex}")

    def e_Call(self, e, env):
        f = self.eval(e.func, env)
        args = []
        for a in e.args:
            if isinstance(a, ast.Starred):
                args.extend(self.iterate(self.eval(a.value, env), a))
            else:
                args.append(self.eval(a, env))
        kwargs = {}
        for k in e.keywords:
            if k.arg is None:
                kwargs.update(self.eval(k.value, env))
            else:
                kwargs[k.arg] = self.eval(k.value, env)
        if self.trace is not None:
            self.trace(self, e, f, args, kwargs)
        try:
            r = self.call(f, args, kwargs, e)
            if self.after_call is not None:
                self.after_call(self, e, f, args, kwargs, r)
            return r
        except ModelError as me:
            if not getattr(me, "where", None):
                me.where = self.where(e)
                me.args = (f"{me.args[0] if me.args else ''} [at {me.where}: {ast.unparse(e)[:70]}]",)
            raise

    def _comp(self, gens, env, emit):
        def rec(i, env):
            if i == len(gens):
                emit(env)
                return
            g = gens[i]
            for v in self.iterate(self.eval(g.iter, env), g.iter):
                e2 = Env(env)
                self.assign(g.target, v, e2)
                if all(self.truth(self.eval(c, e2), c) for c in g.ifs):
                    rec(i + 1, e2)
        rec(0, env)

    def e_ListComp(self, e, env):
        out = []
        self._comp(e.generators, env, lambda en: out.append(self.eval(e.elt, en)))
        return out

    e_GeneratorExp = e_ListComp

    def e_SetComp(self, e, env):
        return set(self.e_ListComp(e, env))

    def e_DictComp(self, e, env):
        out = {}
        self._comp(e.generators, env, lambda en: out.__setitem__(self.eval(e.key, en), self.eval(e.value, en)))
        return out

    def iterate(self, v, node):
        if isinstance(v, (list, tuple, range, set, frozenset)):
            return list(v)
        if isinstance(v, dict):
            return list(v.keys())
        if isinstance(v, str):
            return list(v)
        r = self.domain.iterate(self, v, node)
        if r is NotImplemented:
            raise Unsupported(f"iteration over {type(v).__name__} at {self.where(node)}")
        return r

    # ------------------------------------------------------------------ entry points
    def run(self, fi: FuncInfo, args=(), kwargs=None, bound_self=None):
        self.deadline = _time.time() + self.time_budget
        _alg.set_deadline(self.deadline)
        return self.call_repo(FuncRef(fi, bound_self=bound_self), list(args), dict(kwargs or {}))


class _ModFrame:
    """pseudo frame used while evaluating module-level constants"""

    def __init__(self, mod):
        self.module = mod
        self.nested = {}
        self.qualname = "<module>"
        self.where = mod.relpath


# ======================================================================================
# Path exploration (nondeterministic choices enumerated exhaustively)
# ======================================================================================

class PathExplorer:
    """Runs `fn(chooser)` once per resolution of the UNKNOWN conditions it meets.
    `policy(interp, node, cond)` may decide a condition (True/False) or return None to
    let both outcomes be explored.  Depth-first over choice sequences."""

    def __init__(self, policy=None, max_paths=5000):
        self.policy = policy
        self.max_paths = max_paths

    def explore(self, fn):
        results = []
        stack = [[]]
        while stack:
            prefix = stack.pop()
            taken = []
            pos = [0]

            def chooser(interp, node, cond):
                if self.policy is not None:
                    r = self.policy(interp, node, cond)
                    if r is not None:
                        return r
                i = pos[0]
                pos[0] += 1
                if i < len(prefix):
                    taken.append(prefix[i])
                    return prefix[i]
                taken.append(False)
                stack.append(taken[:i] + [True])
                return False

            try:
                out = ("ok", fn(chooser))
            except RepoRaise as e:
                out = ("raise", e)
            except ModelError as e:
                out = ("model_error", e)
            results.append((list(taken), out))
            if len(results) > self.max_paths:
                raise Unsupported("path budget exceeded")
        return results
