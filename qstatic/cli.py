"""CLI: python -m qstatic.cli Cxx [--tier quick|thorough] [--root DIR] [--replay F] [--no-evidence]"""
from __future__ import annotations

import argparse
import importlib
import json
import os
import sys
import traceback

from .report import Ctx, finish, VERIF
from .src import AnalysisError


def main(argv=None):
    ap = argparse.ArgumentParser()
    ap.add_argument("prop")
    ap.add_argument("--tier", default=os.environ.get("VERIF_TIER", "quick"), choices=["quick", "thorough"])
    ap.add_argument("--root", default=os.environ.get("QUATICA_ROOT", "/repo"))
    ap.add_argument("--replay", default=None)
    ap.add_argument("--no-evidence", action="store_true")
    ap.add_argument("--evidence-dir", default=None)
    ap.add_argument("--jobs", type=int, default=int(os.environ.get("VERIF_JOBS", "16")))
    a = ap.parse_args(argv)
    prop = a.prop.upper()
    seed = int(os.environ.get("VERIF_SEED", "0") or 0)
    ctx = Ctx(prop, a.tier, a.root, seed=seed, jobs=a.jobs)
    try:
        try:
            mod = importlib.import_module(f"rules.{prop.lower()}")
        except ModuleNotFoundError as e:
            if e.name == f"rules.{prop.lower()}":
                print(f"ANALYSIS-ERROR property={prop}: no rule module")
                return 2
            raise
        mod.run(ctx)
        write = not a.no_evidence
        if a.replay:
            want = json.load(open(a.replay))
            hit = [f for f in ctx.findings if f.rule == want.get("rule") and f.where == want.get("where")
                   and f.construct == want.get("construct")]
            print(f"REPLAY {a.replay}: finding {'REPRODUCED' if hit else 'not reproduced'} on {a.root}")
            for f in hit:
                print(f"  {f.loc} {f.where} rule={f.rule}: {f.message}")
            write = False
        rc = finish(ctx, level=getattr(mod, "LEVEL", "other"), explanation=getattr(mod, "EXPLANATION", ""),
                    write_evidence=write, evidence_dir=a.evidence_dir)
        return rc
    except AnalysisError as e:
        print(f"ANALYSIS-ERROR property={prop}: {e}")
        return 2
    except Exception as e:  # fail closed, but never disguised as a violation
        traceback.print_exc()
        print(f"ANALYSIS-ERROR property={prop}: internal error {type(e).__name__}: {e}")
        return 2


if __name__ == "__main__":
    sys.stdout.reconfigure(line_buffering=True)
    rc = main()
    sys.stdout.flush()
    os._exit(rc)
