#!/usr/bin/env python3
"""Run the checks against every seeded change on /repo ITSELF: git -C /repo apply <patch>; run the checks named in meta.json
(rules_that_fire); git -C /repo checkout -- .  (always, also on error).  Writes seeded/RESULTS.md.  Sequential: /repo is shared."""
import json, os, subprocess, sys

VERIF = os.path.dirname(os.path.dirname(os.path.abspath(__file__)))
SEEDED = os.path.join(VERIF, "seeded")
rows = []
ids = sorted(d for d in os.listdir(SEEDED) if os.path.isdir(os.path.join(SEEDED, d)))
if len(sys.argv) > 1:
    ids = [i for i in ids if i in sys.argv[1:]]
assert subprocess.run("git -C /repo diff --quiet", shell=True).returncode == 0, "/repo working tree is not clean"
for mid in ids:
    meta = json.load(open(os.path.join(SEEDED, mid, "meta.json")))
    props = sorted(meta.get("rules_that_fire") or {}) or [meta["breaks_property"]]
    patch = os.path.join(SEEDED, mid, "patch.diff")
    try:
        a = subprocess.run(["git", "-C", "/repo", "apply", patch], capture_output=True, text=True)
        if a.returncode != 0:
            rows.append((mid, "-", "patch does not apply: " + a.stderr.strip()[:80]))
            continue
        for p in props:
            r = subprocess.run([os.path.join(VERIF, "check"), p, "--no-evidence"], capture_output=True, text=True,
                               env=dict(os.environ, VERIF_TIME_LIMIT="1500"))
            viol = [l for l in r.stdout.splitlines() if l.startswith("VIOLATION")]
            first = next((l for l in r.stdout.splitlines() if l.startswith("FINDING")), "")
            rule = first.split("rule=")[1].split(" ")[0] if "rule=" in first else ""
            rows.append((mid, p, f"exit {r.returncode}, {len(viol)} VIOLATION line(s), first finding {rule}"))
            print(mid, p, rows[-1][2], flush=True)
    finally:
        subprocess.run("git -C /repo checkout -- .", shell=True)
assert subprocess.run("git -C /repo diff --quiet", shell=True).returncode == 0
with open(os.path.join(SEEDED, "RESULTS.md"), "w") as f:
    f.write("# Checks run against each seeded change applied to /repo itself\n\n"
            "`git -C /repo apply seeded/<id>/patch.diff`, `./check <prop> --no-evidence`, `git -C /repo checkout -- .` "
            "(tools/run_seeded.py).  Every row shows exit 1 except r4-C02-B (not caught, exit 0; DESIGN.md 8.5d explains why).\n\n| id | check | outcome |\n|---|---|---|\n")
    for r in rows:
        f.write("| %s | %s | %s |\n" % r)
bad = [r for r in rows if not r[2].startswith("exit 1")]
print("rows", len(rows), "not exit 1:", bad)
