"""CLI: python -m qstatic.cli Cxx [--tier quick|thorough] [--root DIR] [--replay F] [--no-evidence]"""
from __future__ import annotations

import argparse
import importlib
import json
import os
import sys
import traceback

from .report import Ctx, finish, VERIF
from .src import AnalysisError
from .alg import AlgebraTimeout


MAX_ALTS = 16


def run_with_scenarios(mod, ctx):
    """Generic run, then one re-run of the whole rule per alternative scenario recorded by the default chooser
    (see qstatic/scenario.py).  On a tree without default-decided conditions this is exactly one run."""
    from . import scenario
    from .alg import set_zero_atoms
    S = scenario.SCEN
    S.reset()
    set_zero_atoms(())
    mod.run(ctx)
    _verbose_lint(ctx)
    # a site whose special outcome is already exercised with consistent (zero-specialised) data is not ALSO forced with generic
    # data: the forced combination (special branch + generic values) is contradictory there and only produces noise
    alts = [a for a in S.alts if not (a[0] == "force" and a[1] in S.zero_sites)]
    ctx.notes["default_decided_conditions"] = S.decisions
    ctx.notes["alternative_scenarios"] = [_alt_label(a) for a in alts[:MAX_ALTS]]
    skipped = []
    import time as _t
    t_generic = _t.time() - ctx.t0
    # alternative scenarios are bounded in number (MAX_ALTS re-runs of the rule) and in time (room for MAX_ALTS re-runs of the
    # observed cost, inside the watchdog limit of the tier)
    budget = max(float(os.environ.get("VERIF_ALT_BUDGET", "60")), (MAX_ALTS + 2) * t_generic)
    t_alt0 = _t.time()
    queue = [(a, 1) for a in alts]
    done = 0
    while queue:
        alt, depth = queue.pop(0)
        if done >= MAX_ALTS:
            skipped.append(f"{_alt_label(alt)}: more than {MAX_ALTS} alternative scenarios")
            continue
        if _t.time() - t_alt0 > budget:
            skipped.append(f"{_alt_label(alt)}: time budget for alternative scenarios exhausted")
            continue
        done += 1
        S.mode = "alt"
        S.force_sites = frozenset([alt[1]]) if alt[0] == "force" else frozenset()
        S.zero_atoms = frozenset(alt[1]) if alt[0] == "zero" else frozenset()
        S.depth = depth
        S.nested = []
        set_zero_atoms(alt[1] if alt[0] == "zero" else ())
        sub = Ctx(ctx.prop, ctx.tier, ctx.root, ctx.seed, ctx.jobs)
        sub._program = ctx._program
        sub.scenario = _alt_label(alt)
        try:
            mod.run(sub)
        except (AnalysisError, AlgebraTimeout) as e:
            skipped.append(f"{sub.scenario}: {e}")      # the alternative is outside the analysable subset: not decided ...
            for f in sub.findings:                       # ... but what it established before it broke off stands
                if f.key() not in {g.key() for g in ctx.findings}:
                    ctx.findings.append(f)
            continue
        finally:
            S.force_sites = frozenset()
            S.zero_atoms = frozenset()
            set_zero_atoms(())
            for a2 in S.nested:
                if a2 not in [q[0] for q in queue] and a2 not in alts:
                    queue.append((a2, depth + 1))
                    alts.append(a2)
            S.nested = []
        ctx.obligations.extend(sub.obligations)
        for f in sub.findings:
            if f.key() not in {g.key() for g in ctx.findings}:
                ctx.findings.append(f)
        for k, v in sub.instances.items():
            ctx.instances[k] = ctx.instances.get(k, 0) + v
        ctx.analysed.update(sub.analysed)
    S.mode = "generic"
    if skipped:
        ctx.notes["alternative_scenarios_not_analysable"] = skipped[:10]
        # A zero-specialised alternative is a consistent input (e.g. "the i and j planes are zero") that takes a branch the generic
        # run does not take.  If that branch cannot be analysed the property is NOT decided for those inputs: fail closed (exit 2)
        # instead of passing on the strength of the generic run alone.  (Forced alternatives pair a branch with generic, possibly
        # contradictory data; failing to analyse those is not held against the code.)
        hard = list(skipped)       # (forced alternatives as well: a branch nobody could analyse is a branch nobody decided)
        if hard and not ctx.findings:
            raise AnalysisError("data-dependent branch not analysable for the specialised input: " + hard[0][:300])


def _verbose_lint(ctx):
    """E3.verbose-pure: in every function the rule analysed, a branch guarded by `verbose` only reports - it neither rebinds nor writes
    a variable that is read outside the branch, nor leaves the branch through return / break / continue / raise."""
    from .effects_lint import verbose_impurities
    n_funcs = 0
    for mod_ in ctx.program.modules.values():
        for fi in mod_.all_funcs:
            if fi.where not in ctx.analysed:
                continue
            n_funcs += 1
            for ln, name, what in verbose_impurities(fi.node):
                ctx.ob(f"{ctx.prop}.E3.verbose-pure", f"{fi.where}: diagnostics branch at line {ln}", False,
                       f"a branch guarded by `verbose` {what} {name!r}, which the rest of the function uses: the result depends on "
                       f"the verbosity flag", where=fi.where, construct=f"verbose branch changes {name}", loc=f"{mod_.relpath}:{ln}")
    ctx.notes["verbose_lint_functions"] = n_funcs


def run_selftest(prop, ctx):
    """Thorough tier: test the checker both ways on scratch copies (selftest/variants.py; C07/C17 have an additional set).
    A variant that is not handled as expected makes the run an ANALYSIS-ERROR (the checker, not the repository, is broken)."""
    import subprocess
    signal_alarm_off()
    cmds = [[sys.executable, os.path.join(VERIF, "selftest", "run.py"), prop, "--jobs", str(max(1, ctx.jobs))]]
    if prop in ("C07", "C17"):
        cmds.append([sys.executable, os.path.join(VERIF, "selftest", "mut_c07_c17.py"), prop])
    total = 0
    for cmd in cmds:
        p = subprocess.run(cmd, capture_output=True, text=True, cwd=VERIF, env=dict(os.environ, VERIF_NO_SELFTEST="1"))
        lines = [l for l in p.stdout.splitlines() if l.startswith("SELFTEST") or "variants" in l or "problems" in l]
        for l in lines[-3:]:
            print(l)
        total += sum(1 for l in p.stdout.splitlines() if l.startswith("SELFTEST ") and "summary" not in l)
        if p.returncode != 0:
            bad = [l for l in p.stdout.splitlines() if "UNEXPECTED" in l or "PROBLEM" in l.upper()]
            raise AnalysisError(f"checker self-test failed for {prop}: " + "; ".join(bad[:3]) + (p.stderr[-300:] if not bad else ""))
    ctx.notes["selftest_variants_run"] = total


def signal_alarm_off():
    import signal
    signal.alarm(0)


def _alt_label(alt):
    if alt[0] == "force":
        rel, line, col = alt[1]
        return f"force {rel}:{line}:{col}"
    return "zero " + ",".join(sorted(repr(a) for a in alt[1]))[:120]


def main(argv=None):
    ap = argparse.ArgumentParser()
    ap.add_argument("prop")
    ap.add_argument("--tier", default=os.environ.get("VERIF_TIER", "quick"), choices=["quick", "thorough"])
    ap.add_argument("--root", default=os.environ.get("QUATICA_ROOT", "/repo"))
    ap.add_argument("--replay", default=None)
    ap.add_argument("--no-evidence", action="store_true")
    ap.add_argument("--evidence-dir", default=None)
    ap.add_argument("--jobs", type=int, default=int(os.environ.get("VERIF_JOBS", "16")))
    a = ap.parse_args(argv)
    prop = a.prop.upper()
    # watchdog: a check that runs away (expression swell on an unforeseen path) ends as ANALYSIS-ERROR, never hangs
    import signal
    limit = int(os.environ.get("VERIF_TIME_LIMIT", "900" if a.tier == "quick" else "5400"))

    def _timeout(signum, frame):
        print(f"ANALYSIS-ERROR property={prop}: time limit of {limit}s exceeded")
        sys.stdout.flush()
        try:
            import multiprocessing as mp
            for c in mp.active_children():
                c.kill()
        except Exception:
            pass
        os._exit(2)
    signal.signal(signal.SIGALRM, _timeout)
    signal.alarm(limit)
    seed = int(os.environ.get("VERIF_SEED", "0") or 0)
    ctx = Ctx(prop, a.tier, a.root, seed=seed, jobs=a.jobs)
    try:
        try:
            mod = importlib.import_module(f"rules.{prop.lower()}")
        except ModuleNotFoundError as e:
            if e.name == f"rules.{prop.lower()}":
                print(f"ANALYSIS-ERROR property={prop}: no rule module")
                return 2
            raise
        run_with_scenarios(mod, ctx)
        if a.tier == "thorough" and os.path.abspath(a.root) == "/repo" and not a.replay and not os.environ.get("VERIF_NO_SELFTEST"):
            run_selftest(prop, ctx)
        write = not a.no_evidence
        if a.replay:
            want = json.load(open(a.replay))
            hit = [f for f in ctx.findings if f.rule == want.get("rule") and f.where == want.get("where")
                   and f.construct == want.get("construct")]
            print(f"REPLAY {a.replay}: finding {'REPRODUCED' if hit else 'not reproduced'} on {a.root}")
            for f in hit:
                print(f"  {f.loc} {f.where} rule={f.rule}: {f.message}")
            write = False
        rc = finish(ctx, level=getattr(mod, "LEVEL", "other"), explanation=getattr(mod, "EXPLANATION", ""),
                    write_evidence=write, evidence_dir=a.evidence_dir)
        return rc
    except AnalysisError as e:
        print(f"ANALYSIS-ERROR property={prop}: {e}")
        return 2
    except AlgebraTimeout as e:
        print(f"ANALYSIS-ERROR property={prop}: {e}")
        return 2
    except Exception as e:  # fail closed, but never disguised as a violation
        traceback.print_exc()
        print(f"ANALYSIS-ERROR property={prop}: internal error {type(e).__name__}: {e}")
        return 2


if __name__ == "__main__":
    sys.stdout.reconfigure(line_buffering=True)
    rc = main()
    sys.stdout.flush()
    os._exit(rc)
