"""Checker self-test variants: one textual edit of the analysed tree each (applied on a scratch copy).

(prop, name, relfile, regex_old, new, expect)   expect: "F" = the check must exit 1 (VIOLATION), "S" = must stay silent
(exit 0, same verdict as the unedited tree).  `new` is inserted literally.  The edits are behaviour-breaking ("F") or
behaviour-preserving ("S") rewrites that still parse; they test the checker both ways.  Properties C07, C14, C17, C20
have additional, larger variant sets of their own (selftest/mut_c07_c17.py, rules/c14.py SELFTEST, tools/mut_c20.py).
"""

U = "quatica/utils.py"
S = "quatica/solver.py"
SCH = "quatica/decomp/schur.py"
HES = "quatica/decomp/hessenberg.py"
TRI = "quatica/decomp/tridiagonalize.py"
EIG = "quatica/decomp/eigen.py"
QSVD = "quatica/decomp/qsvd.py"
LU = "quatica/decomp/LU.py"
QS = "quatica/qslst.py"
TEN = "quatica/tensor.py"
APP = "applications/image_deblurring/script_image_deblurring.py"

VARIANTS = [
    # ---- C01
    ("C01", "sparse_multiply sign", U, r"\+ self\.j @ other\.k", "- self.j @ other.k", "F"),
    ("C01", "left_multiply operand order", U, r"return temp @ self", "return self @ temp", "F"),
    ("C01", "sparse conjugate sign", U, r"-self\.j\.conjugate\(\)", "self.j.conjugate()", "F"),
    ("C01", "dense kernel term", U, r"Cy = Aw @ By - Ax @ Bz", "Cy = Aw @ By + Ax @ Bz", "F"),
    ("C01", "dense kernel reordered (same value)", U, r"Cw = Aw @ Bw - Ax @ Bx - Ay @ By - Az @ Bz",
     "Cw = -(Az @ Bz) - Ay @ By + Aw @ Bw - Ax @ Bx", "S"),
    ("C01", "component access spelled with slices", U, r"Aw, Ax, Ay, Az = A_comp\[\.\.\., 0\], A_comp\[\.\.\., 1\], A_comp\[\.\.\., 2\], A_comp\[\.\.\., 3\]",
     "Aw, Ax, Ay, Az = A_comp[:, :, 0], A_comp[:, :, 1], A_comp[:, :, 2], A_comp[:, :, 3]", "S"),
    # ---- C02
    ("C02", "real_expand sign", U, r"\[x, w, -z, y\]", "[x, w, z, -y]", "F"),
    ("C02", "real_contract wrong cell", U, r"x = block\[1, 0\]", "x = block[0, 1]", "F"),
    ("C02", "adjoint sign", U, r"M\[n : 2 \* n, 0:n\] = -np\.conjugate\(D\)", "M[n : 2 * n, 0:n] = np.conjugate(D)", "F"),
    ("C02", "real_contract reads the first row instead (equivalent)", U, r"x = block\[1, 0\]", "x = -block[0, 1]", "S"),
    ("C02", "Realp buffer takes the dtype of the first plane", U, r"AR = np\.zeros\(\(4 \* m, 4 \* n\)\)", "AR = np.zeros((4 * m, 4 * n), dtype=A1.dtype)", "F"),
    ("C02", "Realp buffer with the promoted dtype (equivalent)", U, r"AR = np\.zeros\(\(4 \* m, 4 \* n\)\)",
     "AR = np.zeros((4 * m, 4 * n), dtype=np.result_type(A1, A2, A3, A4))", "S"),
    ("C02", "real_expand fast path for real input that tests only the i and j planes", U,
     r"        Q_array = quaternion\.as_float_array\(Q\)  # Shape: \(m, n, 4\)\n",
     "        Q_array = quaternion.as_float_array(Q)  # Shape: (m, n, 4)\n        if not Q_array[..., 1:3].any():\n            return np.kron(Q_array[..., 0], np.eye(4))\n", "F"),
    ("C02", "real_expand fast path for real input, all three imaginary planes tested (equivalent)", U,
     r"        Q_array = quaternion\.as_float_array\(Q\)  # Shape: \(m, n, 4\)\n",
     "        Q_array = quaternion.as_float_array(Q)  # Shape: (m, n, 4)\n        if not Q_array[..., 1:].any():\n            return np.kron(Q_array[..., 0], np.eye(4))\n", "S"),
    ("C02", "real_expand reinterprets the buffer in memory order", U,
     r"        Q_array = quaternion\.as_float_array\(Q\)  # Shape: \(m, n, 4\)\n",
     "        Q_array = np.ravel(Q, order=\"K\").view(np.float64).reshape(m, n, 4)\n", "F"),
    # ---- C03
    ("C03", "constructor replaces gamma outside (0,1) by the default", S,
     r"self\.gamma = gamma\n        self\.max_iter = max_iter\n        self\.tol = tol\n        self\.verbose = verbose\n        self\.compute_residuals = compute_residuals\n\n",
     "self.gamma = gamma if 0.0 < gamma < 1.0 else 0.5\n        self.max_iter = max_iter\n        self.tol = tol\n        self.verbose = verbose\n        self.compute_residuals = compute_residuals\n\n", "F"),
    ("C03", "constructor converts with float()/int() (equivalent)", S,
     r"self\.gamma = gamma\n        self\.max_iter = max_iter\n        self\.tol = tol\n        self\.verbose = verbose\n        self\.compute_residuals = compute_residuals\n\n",
     "self.gamma = float(gamma)\n        self.max_iter = int(max_iter)\n        self.tol = tol\n        self.verbose = verbose\n        self.compute_residuals = compute_residuals\n\n", "S"),
    ("C03", "initial scaling", S, r"alpha = 1\.0 / \(norm_A\*\*2\) if", "alpha = 1.0 / norm_A if", "F"),
    ("C03", "update sign", S, r"X = X - self\.gamma \* update", "X = X + self.gamma * update", "F"),
    ("C03", "third-order polynomial", S, r"\+ quat_matmat\(T, AT_sq\)", "+ quat_matmat(T, AT)", "F"),
    ("C03", "zero guard removed", S, r"alpha = 1\.0 / \(norm_A\*\*2\) if norm_A > 0 else 0\.0", "alpha = 1.0 / (norm_A**2)", "F"),
    ("C03", "equal rewrite of the update", S, r"X = X - self\.gamma \* update",
     "X = (1 + self.gamma) * X - self.gamma * quat_matmat(quat_matmat(X, A), X)", "S"),
    # ---- C04
    ("C04", "internal residual reported", S, r'info\["residual"\] = r_true\n', 'info["residual"] = res\n', "F"),
    ("C04", "b preconditioned with L only", S, r"b = _solve_upper_triangular_quat\(Uq, Yb\)", "b = Yb", "F"),
    ("C04", "conjugate sign in the inner product", S, r"v_i_conj_2 = -V2\[:, i : i \+ 1\]\.T", "v_i_conj_2 = V2[:, i : i + 1].T", "F"),
    ("C04", "restart carry dropped", S, r"x0_0, x0_1, x0_2, x0_3 = xm_0, xm_1, xm_2, xm_3", "pass", "F"),
    ("C04", "flag fix reverted", S, r'info\["converged"\] = bool\(r_true < self\.tol\)', "pass", "F"),
    ("C04", "lucky-breakdown test through np.isclose (default tolerances)", S, r"if abs\(H0\[j \+ 1, j\]\) \+ ninf == ninf:",
     "if np.isclose(abs(H0[j + 1, j]) + ninf, ninf):", "F"),
    ("C04", "lucky-breakdown test through np.isclose with zero tolerances (exact, equivalent)", S, r"if abs\(H0\[j \+ 1, j\]\) \+ ninf == ninf:",
     "if np.isclose(abs(H0[j + 1, j]) + ninf, ninf, rtol=0, atol=0):", "S"),
    # ---- C05 / C06 / C11 / C12
    ("C05", "stride", QSVD, r"s_quat\.append\(s\[4 \* i\]\)\n\n    # Convert to numpy array\n    s_quat = np\.array\(s_quat\)\n\n    # Truncate",
     "s_quat.append(s[i])\n\n    # Convert to numpy array\n    s_quat = np.array(s_quat)\n\n    # Truncate", "F"),
    ("C05", "vectorised stride (equivalent)", QSVD, r"    s_quat = \[\]\n    for i in range\(min_dim\):\n        s_quat\.append\(s\[4 \* i\]\)\n\n    # Convert to numpy array\n    s_quat = np\.array\(s_quat\)\n\n    return",
     "    s_quat = s[::4][:min_dim]\n\n    return", "S"),
    ("C06", "thin extraction", QSVD, r"Qr_thin = Qr\[:, : 4 \* n\]", "Qr_thin = Qr[:, :n]", "F"),
    ("C11", "strict threshold", U, r"rank_count = np\.sum\(s > tol\)", "rank_count = np.sum(s >= tol)", "F"),
    ("C11", "null space columns", U, r"return V\[:, rank:\]", "return V[:, :rank]", "F"),
    ("C11", "count_nonzero (equivalent)", U, r"rank_count = np\.sum\(s > tol\)", "rank_count = np.count_nonzero(s > tol)", "S"),
    ("C12", "stride", QSVD, r"s = S\[::4\]\[:R\]\n\n    # 6\)", "s = S[:R]\n\n    # 6)", "F"),
    ("C12", "lift pairing", QSVD, r"V_quat = quat_matmat\(Q2, V_small\)\n    U_quat = quat_matmat\(Q1, U_small\)\n\n    return U_quat, s, V_quat\n\n\ndef pass_eff",
     "V_quat = quat_matmat(Q1, V_small)\n    U_quat = quat_matmat(Q1, U_small)\n\n    return U_quat, s, V_quat\n\n\ndef pass_eff", "F"),
    ("C07", "rank-1 update skipped when the multipliers have zero real part", LU,
     r"            # Update: submatrix = submatrix - col_vector \* row_vector\n",
     "            if not np.any(quaternion.as_float_array(col_vector)[..., 0]):\n                continue\n", "F"),
    ("C07", "rank-1 update skipped when the multipliers are entirely zero (equivalent)", LU,
     r"            # Update: submatrix = submatrix - col_vector \* row_vector\n",
     "            if not np.any(quaternion.as_float_array(col_vector)):\n                continue\n", "S"),
    # ---- C08 / C09 / C10
    ("C08", "general eigen-solver", EIG, r"np\.linalg\.eigh\(B_complex\)", "np.linalg.eig(B_complex)", "F"),
    ("C08", "accumulation order", TRI, r"P = quat_matmat\(Q, P\)", "P = quat_matmat(P, Q)", "F"),
    ("C08", "back-transformation", EIG, r"eigenvectors = quat_matmat\(P_H, eigenvectors_B\)", "eigenvectors = quat_matmat(P, eigenvectors_B)", "F"),
    ("C08", "householder formula side", TRI, r"h = \(1\.0 / zeta\) \* \(h - uuH\)", "h = (h - uuH) * (1.0 / zeta)", "F"),
    ("C08", "zeta branch decided by one component of romega", TRI, r"if r != 0:", "if romega.w != 0:", "F"),
    ("C08", "zeta branch spelled r > 0 (equivalent)", TRI, r"if r != 0:", "if r > 0:", "S"),
    ("C09", "zeta branch decided by the real part of romega", TRI, r"if r != 0:", "if romega.real != 0:", "F"),
    ("C09", "vector zero test spelled alpha <= 0 (equivalent)", TRI, r"if alpha == 0:", "if alpha <= 0:", "S"),
    ("C10", "zeta branch decided by one component of romega", TRI, r"if r != 0:", "if romega.w != 0:", "F"),
    ("C08", "diagnostics branch re-orders the returned eigenvalues", EIG,
     r'        print\("Eigendecomposition of tridiagonal matrix completed"\)\n',
     '        print("Eigendecomposition of tridiagonal matrix completed")\n        eigenvalues = eigenvalues[::-1]\n', "F"),
    ("C08", "diagnostics branch computes a value it only prints (equivalent)", EIG,
     r'        print\("Eigendecomposition of tridiagonal matrix completed"\)\n',
     '        print("Eigendecomposition of tridiagonal matrix completed")\n        largest = eigenvalues[-1]\n        print(largest)\n', "S"),
    ("C09", "accumulation order", HES, r"P = quat_matmat\(Hk, P\)", "P = quat_matmat(P, Hk)", "F"),
    ("C09", "one-sided update", HES, r"H = quat_matmat\(quat_matmat\(Hk, H\), Hk_H\)", "H = quat_matmat(Hk, H)", "F"),
    ("C09", "clean-up predicate", HES, r"if i > j \+ 1:\n                hij = H_clean", "if i > j:\n                hij = H_clean", "F"),
    ("C09", "no defensive copy needed (rebinding only)", HES, r"H = A\.copy\(\)\n    P = np", "H = A\n    P = np", "S"),
    ("C10", "windowed sweep updates the rows only inside the window", SCH, r"                    apply_left_rows\(H, s, Hj_sub\)\n                    apply_right_cols\(H, s, Hj_sub\)\n                    apply_right_cols\(Q_accum, s, Hj_sub\)",
     "                    apply_left_rows(H[:, start:], s, Hj_sub)\n                    apply_right_cols(H, s, Hj_sub)\n                    apply_right_cols(Q_accum, s, Hj_sub)", "F"),
    ("C09", "reduction skips columns that are already reduced (equivalent)", HES,
     r"        if col_segment\.shape\[0\] <= 1:\n            continue  # nothing to zero\n",
     "        if col_segment.shape[0] <= 1:\n            continue  # nothing to zero\n        if not np.any(quaternion.as_float_array(H[k + 2 :, k])):\n            continue\n", "S"),
    ("C10", "accumulator order", SCH, r"Q_accum = quat_matmat\(Q_accum, HjH\)", "Q_accum = quat_matmat(HjH, Q_accum)", "F"),
    ("C10", "shift not restored", SCH, r"H\[i, i\] = H\[i, i\] \+ qsigma", "H[i, i] = H[i, i] + 0 * qsigma", "F"),
    ("C10", "unguarded deflation", SCH, r'if variant in \("aed", "ds"\) and sv_sq <= bound_sq:', 'if variant in ("aed", "ds"):', "F"),
    ("C10", "left factor not transposed", SCH, r"Gc_left = P8\.T @ G\.T @ P8", "Gc_left = P8.T @ G @ P8", "F"),
    ("C10", "flag fix reverted (real-expanded)", SCH,
     r'diag\["converged"\] = bool\(_max_below_diagonal\(H\) <= tol\)\n            diag\["iterations_run"\] = k \+ 1\n            break\n\n        # Adaptive',
     'diag["converged"] = True\n            diag["iterations_run"] = k + 1\n            break\n\n        # Adaptive', "F"),
    ("C10", "post-sweep negligibility test reads the pre-sweep iterate", SCH, r"h_sub = H_tmp\[i, i - 1\]", "h_sub = H[i, i - 1]", "F"),
    ("C10", "post-sweep negligibility test through a local alias of the contracted iterate", SCH, r"h_sub = H_tmp\[i, i - 1\]",
     "Hc = H_tmp\n            h_sub = Hc[i][i - 1]", "S"),
    # ---- C13
    ("C13", "constant flag", S, r'"converged": residual_norms\[-1\] <= self\.tol if residual_norms else False', '"converged": True', "F"),
    ("C13", "CGNE residual recurrence", S, r"R = R - alpha_k \* W", "R = R + alpha_k * W", "F"),
    ("C13", "CGNE breakdown test on the squared norm, same constant", S, r"if Wn <= 1e-20:", "if Wn * Wn <= 1e-20:", "F"),
    ("C13", "CGNE breakdown test on the squared norm, squared constant (equivalent)", S, r"if Wn <= 1e-20:", "if Wn * Wn <= 1e-40:", "S"),
    ("C13", "hyperpower start", S, r"S = I\.copy\(\)\n        F_power = F\.copy\(\)", "S = 0 * I\n        F_power = F.copy()", "F"),
    # ---- C15 / C16 / C18 / C19
    ("C15", "dropped plane", U, r"return np\.sqrt\(real_norm \+ i_norm \+ j_norm \+ k_norm\)", "return np.sqrt(real_norm + i_norm + j_norm)", "F"),
    ("C15", "rewired ord", U, r"if ord == 1:\n        return induced_matrix_norm_1\(A\)", "if ord == 1:\n        return induced_matrix_norm_inf(A)", "F"),
    ("C16", "GRSGivens fix reverted", U, r"np\.allclose\(g1\[1:4\], 0\)", "np.allclose(g1[1:3], 0)", "F"),
    ("C16", "row update not transposed", U, r"Hess\[rows_to_update, s:n\] = G\.T @ Hess\[rows_to_update, s:n\]", "Hess[rows_to_update, s:n] = G @ Hess[rows_to_update, s:n]", "F"),
    ("C16", "inverse sign", U, r"inv1 = -A1 / den", "inv1 = A1 / den", "F"),
    ("C16", "eps regulariser", U, r"den = inv \+ \(inv == 0\)", "den = inv + np.finfo(float).eps", "F"),
    ("C16", "full-row update (equivalent)", U, r"Hess\[rows_to_update, s:n\] = G\.T @ Hess\[rows_to_update, s:n\]", "Hess[rows_to_update, :] = G.T @ Hess[rows_to_update, :]", "S"),
    ("C18", "fold axes", TEN, r"return np\.transpose\(M\.reshape\(K, I, J\), \(1, 2, 0\)\)", "return np.transpose(M.reshape(K, I, J), (2, 0, 1))", "F"),
    ("C18", "channel order", QS, r"q\[\.\.\., 1:\] = rgb\.astype\(np\.float64\)", "q[..., 1:] = rgb.astype(np.float64)[..., ::-1]", "F"),
    ("C19", "no normalisation", U, r"v_k = Av_k / Av_k_norm", "v_k = Av_k", "F"),
    ("C19", "previous norm", U, r"v_k = Av_k / Av_k_norm", "v_k = Av_k / v_k_norm", "F"),
    ("C19", "eigenvalue without denominator", U, r"eigenvalue = quat_frobenius_norm\(numerator\) / quat_frobenius_norm\(denominator\)",
     "eigenvalue = quat_frobenius_norm(numerator)", "F"),
    ("C19", "alias of the previous iterate (rebinding, equivalent)", U, r"v_k_prev = v_k\.copy\(\)", "v_k_prev = v_k", "S"),
]
