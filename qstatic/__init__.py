"""qstatic - static-analysis engines for the QuatIca verification (see /verif/DESIGN.md)."""
