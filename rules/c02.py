"""C02 - real and complex embeddings are faithful *-homomorphisms with exact round trip.

Every anchored function is interpreted (AST only) on small arrays of generic symbolic entries for every shape
of a box; the results are compared entry by entry, as exact polynomial identities, with references computed
here from the mathematics (Hamilton product `rules.common.ref_matmul`, conjugate transpose, squared norm).

  D1 real_expand   R: H^{m x n} -> R^{4m x 4n}.  (a) shape; (b) every entry is 0 or +-one component symbol and every
     component of every entry occurs (real-linear, injective); (c) R(A) R(B) = R(AB) and R(A^H) = R(A)^T as
     polynomial identities - this accepts ANY faithful representation, not only today's literal; (d)
     ||R(A)||_F^2 = 4 ||A||_F^2 (scale exactly 2); (e) block locality: the symbols of entry (i, j) occur only in
     rows 4i..4i+3, columns 4j..4j+3.
  D2 real_contract(real_expand(A), m, n) = A with the same symbols (copies, sign +); ValueError for a real
     matrix whose shape is not (4m, 4n).
  D3 Realp (component-blocked): shape (4m, 4n); block (a, b) of size m x n at rows a*m.., columns b*n.. is +-one
     input plane; homomorphism, adjoint -> transpose, scale 2; the scalar branch equals the matrix branch on
     1 x 1 planes (sibling agreement).
  D4 writer / reader agreement of the column-blocked split.
     Reader: A2A0123(M) for M = [B0 B1 B2 B3] (four column blocks) returns (A0, A1, A2, A3) = (B0, B2, B1, B3), the
     documented layout [A0 A2 A1 A3].
     Writers: the two trailing re-layouts of Hess_QR_ggivens.  Layout contract checked (derived from the MATLAB
     comments in the source, `W = [W(1:m,1:m), -W(1:m,2m+1:3m), -W(1:m,m+1:2m), -W(1:m,3m+1:4m)]`, and from Realp's
     table whose first block ROW is [A0, -A1, -A2, -A3] and first block COLUMN is [A0; A1; A2; A3]):
       * the accumulator W (m x 4m) is the first block row of Realp(U0, U1, U2, U3) - it starts as [I 0 0 0] and is
         multiplied on the right by Realp-structured rotations;  the first returned matrix, read by A2A0123,
         must be (U0, U1, U2, U3);
       * the work matrix Hess (4m x n) is the first block column of Realp(H0, H1, H2, H3);  the second
         returned matrix, read by A2A0123, must be (H0, H1, H2, H3).
     The re-layout statements are located by data flow, not by text: the top-level statements of the function
     are executed abstractly in order; statements that only move data (allocation, slicing, negation, stacking,
     shape arithmetic) are interpreted, every other statement (loops, products, calls of rotation generators)
     is replaced by `havoc` of the arrays it may write (contents := fresh symbols, shape kept).  The two returned
     arrays are then exact signed maps of the havoc'ed accumulator / work matrix; the Realp block row / column
     (taken from the interpreted Realp, so the check is an agreement of siblings) is substituted for them.
     The rotations themselves (ggivens, index sets) are C16's subject and are not analysed here.
  D5 complex adjoint chi(A) (n x n -> 2n x 2n complex): chi(A) chi(B) = chi(AB), chi(A^H) = conj(chi(A))^T, every
     component occurs exactly twice, sum |entries|^2 = 2 ||A||_F^2 (scale sqrt 2); guards.
  D6 Krylov conversions: _quat_to_components (dense, sparse instance, 4-tuple) returns planes (0, 1, 2, 3);
     _components_to_quat rebuilds the same array (lossless both ways).
Shapes are bounded (box in the evidence); values are generic, so every shape is decided for all entries.
"""
from __future__ import annotations

import ast

from qstatic.alg import Poly, SQ, SC, P
import numpy as np
from qstatic.dom_sym import SymArr, sym_quat, sym_real, arrays_same, first_diff, mk
from qstatic.interp import Instance, Env
from qstatic.src import AnalysisError
from .common import (new_interp, sparse_from_dense, planes_of, quat_from_planes, ref_matmul, ref_hermitian,
                     ref_fro2, run_guarded, short)
from .common2 import indices, signed_atom, sumsq_real, sumsq_any, transpose2, conj_arr, is_symarr

LEVEL = "other"
EXPLANATION = ("Abstract interpretation (AST only) of real_expand / real_contract / Realp / A2A0123 / "
               "quaternion_to_complex_adjoint / the Krylov plane converters on arrays of generic symbolic entries "
               "for every shape in a bounded box; homomorphism, adjoint, scale, locality and round-trip laws are "
               "exact polynomial identities against references generated from the quaternion relations. The "
               "re-layout of Hess_QR_ggivens is isolated by data flow (non-movement statements are havoc'ed) and "
               "checked against the reader A2A0123 and Realp's block row/column. Bounded-exhaustive in the shape, "
               "generic in the values.")

Q_SHAPES = [(1, 1), (1, 3), (3, 1), (2, 2), (2, 3)]
T_SHAPES = [(m, n) for m in (1, 2, 3) for n in (1, 2, 3)]
Q_PROD = [(1, 1, 1), (2, 1, 2), (1, 3, 1), (2, 2, 2), (2, 3, 1)]
T_PROD = [(m, k, n) for m in (1, 2, 3) for k in (1, 2, 3) for n in (1, 2)]
Q_RP = [(1, 1), (2, 2), (2, 3), (1, 2)]
Q_RP_PROD = [(1, 1, 1), (2, 2, 2), (1, 2, 3), (2, 3, 1)]


def _fail(ctx, rule, inst, f, what, out):
    ctx.ob(rule, inst, False, f"{what}: {short(out)}", where=f.where, construct=f"{f.name}: fails in-domain",
           loc=f.loc())


# =========================================================================================== D1 / D2
def check_real_expand(ctx, it, f_exp, f_con):
    shapes = T_SHAPES if ctx.thorough else Q_SHAPES
    prods = T_PROD if ctx.thorough else Q_PROD
    ctx.notes["C02.real_expand_shapes"] = [list(s) for s in shapes]
    ctx.notes["C02.real_expand_product_shapes"] = [list(s) for s in prods]
    w = f_exp.where
    for (m, n) in shapes:
        A = sym_quat("a", (m, n))
        st, R = run_guarded(lambda: it.run(f_exp, [A]))
        if st != "ok" or not isinstance(R, SymArr):
            _fail(ctx, "C02.D1.expand", f"real_expand {m}x{n}", f_exp, "embedding fails on a quaternion matrix", R)
            continue
        if m >= 2 and n >= 2:
            # memory-layout independence: the same matrix handed over as a transposed (Fortran-ordered) view must embed identically
            AT = SymArr(np.asarray(A, dtype=object).T.copy().T, "quat")          # same entries, column-major storage
            stL, RL = run_guarded(lambda: it.run(f_exp, [AT]))
            ctx.ob("C02.D1.layout", f"real_expand {m}x{n}: independent of the memory layout of the argument",
                   stL == "ok" and isinstance(RL, SymArr) and arrays_same(RL, R),
                   "the embedding of a column-major (transposed-view) argument differs from that of the same matrix stored row-major "
                   "(buffer reinterpretation such as ravel(order='K').view(float64) / reshape(order='A'))", where=w,
                   construct="real_expand: depends on the memory layout of the argument", loc=f_exp.loc())
        ok_shape = is_symarr(R, "real", (4 * m, 4 * n))
        ctx.ob("C02.D1.expand", f"real_expand {m}x{n}: shape (4m,4n) real", ok_shape,
               f"result has shape {R.shape} kind {R.kind}, expected ({4 * m},{4 * n}) real", where=w,
               construct="real_expand: result shape is not (4m,4n)", loc=f_exp.loc())
        if not ok_shape:
            continue
        # (b) linear + injective, (e) locality
        lin, local, seen = True, True, set()
        bad = None
        for (r, c) in indices(R.shape):
            sa = signed_atom(R[r, c])
            if sa is None:
                lin, bad = False, ((r, c), R[r, c])
                continue
            if sa == 0:
                continue
            atom = sa[1]
            seen.add(atom)
            if not (isinstance(atom, tuple) and len(atom) == 4 and atom[0] == "a" and atom[1] == r // 4 and atom[2] == c // 4):
                local, bad = False, ((r, c), R[r, c])
        want = {("a", i, j, p) for i in range(m) for j in range(n) for p in range(4)}
        want = {k_ for k_ in want if not Poly.atom(k_).is_zero()}      # (symbols specialised to 0 in an alternative scenario cannot occur)
        ctx.ob("C02.D1.expand", f"real_expand {m}x{n}: entries are 0 or +-one component, all components occur",
               lin and seen >= want, "embedding is not real-linear and injective on the components", where=w,
               construct="real_expand: not a signed component table / a component is dropped", loc=f_exp.loc(),
               detail=short(bad if bad else sorted(want - seen)[:4]))
        ctx.ob("C02.D1.expand", f"real_expand {m}x{n}: block locality rows 4i..4i+3, cols 4j..4j+3", local,
               "symbols of entry (i,j) occur outside block (4i..4i+3, 4j..4j+3)", where=w,
               construct="real_expand: block of entry (i,j) not at rows 4i.., cols 4j..", loc=f_exp.loc(), detail=short(bad))
        ok = sumsq_real(R).same(ref_fro2(A) * 4)
        ctx.ob("C02.D1.expand", f"real_expand {m}x{n}: Frobenius scale exactly 2", ok,
               "sum of squares of R(A) is not 4 * ||A||_F^2", where=w, construct="real_expand: Frobenius scale is not 2",
               loc=f_exp.loc())
        # adjoint -> transpose
        st, RH = run_guarded(lambda: it.run(f_exp, [ref_hermitian(A)]))
        ok = st == "ok" and arrays_same(RH, transpose2(R))
        ctx.ob("C02.D1.homomorphism", f"R(A^H) = R(A)^T {m}x{n}", ok, "conjugate transpose is not mapped to transpose",
               where=w, construct="real_expand: R(A^H) != R(A)^T", loc=f_exp.loc(),
               detail=short(first_diff(RH, transpose2(R)) if st == "ok" else RH))
        # ---- D2 round trip and guard
        st, back = run_guarded(lambda: it.run(f_con, [R, m, n]))
        ok = st == "ok" and is_symarr(back, "quat", (m, n)) and arrays_same(back, A)
        ctx.ob("C02.D2.contract", f"real_contract(real_expand(A)) = A {m}x{n}", ok,
               "contracting the expansion does not return the original entries", where=f_con.where,
               construct="real_contract: contract(expand(A)) != A", loc=f_con.loc(),
               detail=short(first_diff(back, A) if st == "ok" and isinstance(back, SymArr) else back))
        for (dr, dc, mm, nn) in [(0, 1, m, n), (1, 0, m, n), (0, 0, m + 1, n), (0, 0, m, n + 1), (4, 0, m, n)]:
            Rb = sym_real("r", (4 * m + dr, 4 * n + dc))
            st, out = run_guarded(lambda: it.run(f_con, [Rb, mm, nn]))
            ok = st == "raise" and out.exc_name == "ValueError"
            ctx.ob("C02.D2.guard", f"real_contract rejects shape ({4 * m + dr},{4 * n + dc}) for (m,n)=({mm},{nn})", ok,
                   f"a real matrix whose shape is not (4m,4n) is not rejected with ValueError ({st})",
                   where=f_con.where, construct="real_contract: shape (4m,4n) guard missing", loc=f_con.loc())
    for (m, k, n) in prods:
        A, B = sym_quat("a", (m, k)), sym_quat("b", (k, n))
        st, out = run_guarded(lambda: (it.run(f_exp, [A]), it.run(f_exp, [B]), it.run(f_exp, [ref_matmul(A, B)])))
        if st != "ok":
            _fail(ctx, "C02.D1.homomorphism", f"R(A)R(B) = R(AB) {m}x{k}x{n}", f_exp, "embedding fails", out)
            continue
        RA, RB, RAB = out
        st, prod = run_guarded(lambda: it.domain.matmul(RA, RB))
        ok = st == "ok" and arrays_same(prod, RAB)
        ctx.ob("C02.D1.homomorphism", f"R(A)R(B) = R(AB) {m}x{k}@{k}x{n}", ok,
               "products are not mapped to products (not a left-regular representation)", where=w,
               construct="real_expand: R(A)R(B) != R(AB)", loc=f_exp.loc(),
               detail=short(first_diff(prod, RAB) if st == "ok" else prod))
    ctx.require_instances("C02.D1.expand", 4 * len(shapes))
    ctx.require_instances("C02.D1.homomorphism", len(shapes) + len(prods))
    ctx.require_instances("C02.D2.contract", len(shapes))
    ctx.require_instances("C02.D2.guard", 5 * len(shapes))


# =========================================================================================== D3
def check_realp(ctx, it, f_rp):
    shapes = (T_SHAPES if ctx.thorough else Q_RP)
    prods = (T_PROD if ctx.thorough else Q_RP_PROD)
    ctx.notes["C02.Realp_shapes"] = [list(s) for s in shapes]
    ctx.notes["C02.Realp_product_shapes"] = [list(s) for s in prods]
    w = f_rp.where
    for (m, n) in shapes:
        A = sym_quat("a", (m, n))
        st, R = run_guarded(lambda: it.run(f_rp, planes_of(A)))
        if st != "ok" or not isinstance(R, SymArr):
            _fail(ctx, "C02.D3.realp", f"Realp {m}x{n}", f_rp, "matrix branch fails on four real planes", R)
            continue
        ok_shape = is_symarr(R, "real", (4 * m, 4 * n))
        ctx.ob("C02.D3.realp", f"Realp {m}x{n}: shape (4m,4n) real", ok_shape, f"result shape {R.shape}", where=w,
               construct="Realp: result shape is not (4m,4n)", loc=f_rp.loc())
        if not ok_shape:
            continue
        # component-blocked layout: block (a,b) = +- plane p, position preserved; every plane in every block row/col
        ok, bad = True, None
        for a in range(4):
            planes_in_row = set()
            for b in range(4):
                sig = set()
                for i in range(m):
                    for j in range(n):
                        sa = signed_atom(R[a * m + i, b * n + j])
                        if not sa or sa == 0 or not (isinstance(sa[1], tuple) and sa[1][:3] == ("a", i, j)):
                            ok, bad = False, ((a * m + i, b * n + j), R[a * m + i, b * n + j])
                        else:
                            sig.add((sa[0], sa[1][3]))
                if len(sig) != 1:
                    ok, bad = False, bad or (("block", a, b), sorted(sig))
                else:
                    planes_in_row.add(next(iter(sig))[1])
            if planes_in_row != {0, 1, 2, 3}:
                ok, bad = False, bad or (("block row", a), sorted(planes_in_row))
        ctx.ob("C02.D3.realp", f"Realp {m}x{n}: component-blocked layout (block (a,b) = +-one plane)", ok,
               "block (a,b) at rows a*m.., columns b*n.. is not +-one input plane / a plane is missing from a block row",
               where=w, construct="Realp: not a component-blocked signed table", loc=f_rp.loc(), detail=short(bad),
               generic_only=True)        # (a zero-specialised plane gives zero blocks; scale and homomorphism clauses still apply there)
        ctx.ob("C02.D3.realp", f"Realp {m}x{n}: Frobenius scale exactly 2", sumsq_real(R).same(ref_fro2(A) * 4),
               "sum of squares of Realp(A) is not 4 * ||A||_F^2", where=w, construct="Realp: Frobenius scale is not 2",
               loc=f_rp.loc())
        st, RH = run_guarded(lambda: it.run(f_rp, planes_of(ref_hermitian(A))))
        ok = st == "ok" and arrays_same(RH, transpose2(R))
        ctx.ob("C02.D3.homomorphism", f"Realp(A^H) = Realp(A)^T {m}x{n}", ok,
               "conjugate transpose is not mapped to transpose", where=w, construct="Realp: Realp(A^H) != Realp(A)^T",
               loc=f_rp.loc(), detail=short(first_diff(RH, transpose2(R)) if st == "ok" else RH))
    for (m, k, n) in prods:
        A, B = sym_quat("a", (m, k)), sym_quat("b", (k, n))
        st, out = run_guarded(lambda: (it.run(f_rp, planes_of(A)), it.run(f_rp, planes_of(B)),
                                       it.run(f_rp, planes_of(ref_matmul(A, B)))))
        if st != "ok":
            _fail(ctx, "C02.D3.homomorphism", f"Realp product {m}x{k}x{n}", f_rp, "matrix branch fails", out)
            continue
        RA, RB, RAB = out
        st, prod = run_guarded(lambda: it.domain.matmul(RA, RB))
        ok = st == "ok" and arrays_same(prod, RAB)
        ctx.ob("C02.D3.homomorphism", f"Realp(A)Realp(B) = Realp(AB) {m}x{k}@{k}x{n}", ok,
               "products are not mapped to products", where=w, construct="Realp: Realp(A)Realp(B) != Realp(AB)",
               loc=f_rp.loc(), detail=short(first_diff(prod, RAB) if st == "ok" else prod))
    # scalar branch = matrix branch on 1x1 planes; scalar homomorphism
    s = [Poly.atom(("a", 0, 0, p)) for p in range(4)]
    t = [Poly.atom(("b", 0, 0, p)) for p in range(4)]
    ok_isscalar = it.domain.np_isscalar(s[0]) is True
    st, RS = run_guarded(lambda: it.run(f_rp, s))
    st2, RM = run_guarded(lambda: it.run(f_rp, planes_of(sym_quat("a", (1, 1)))))
    ok = ok_isscalar and st == "ok" and st2 == "ok" and is_symarr(RS, "real", (4, 4)) and arrays_same(RS, RM)
    ctx.ob("C02.D3.realp-scalar", "Realp scalar branch = matrix branch on 1x1 planes", ok,
           "the scalar literal and the block assignments disagree", where=w,
           construct="Realp: scalar branch != matrix branch", loc=f_rp.loc(),
           detail=short(first_diff(RS, RM) if st == "ok" and st2 == "ok" else (RS, RM)))
    if st == "ok" and isinstance(RS, SymArr):
        st3, RT = run_guarded(lambda: it.run(f_rp, t))
        qs, qt = SQ(*s), SQ(*t)
        st4, RST = run_guarded(lambda: it.run(f_rp, list((qs * qt).c)))
        ok = st3 == "ok" and st4 == "ok" and arrays_same(it.domain.matmul(RS, RT), RST)
        ctx.ob("C02.D3.realp-scalar", "Realp scalar branch: M(p)M(q) = M(pq)", ok, "scalar branch is not multiplicative",
               where=w, construct="Realp: scalar branch M(p)M(q) != M(pq)", loc=f_rp.loc())
        st5, RC = run_guarded(lambda: it.run(f_rp, list(qs.conjugate().c)))
        ctx.ob("C02.D3.realp-scalar", "Realp scalar branch: M(conj q) = M(q)^T", st5 == "ok" and arrays_same(RC, transpose2(RS)),
               "scalar branch does not map conjugation to transposition", where=w,
               construct="Realp: scalar branch M(conj q) != M(q)^T", loc=f_rp.loc())
    ctx.require_instances("C02.D3.realp", 3 * len(shapes))
    ctx.require_instances("C02.D3.homomorphism", len(shapes) + len(prods))
    ctx.require_instances("C02.D3.realp-scalar", 3)


# =========================================================================================== D4
PURE_NP = {"zeros", "empty", "zeros_like", "empty_like", "hstack", "vstack", "concatenate", "column_stack", "array",
           "asarray", "copy", "eye", "negative", "transpose", "reshape", "stack", "arange", "block", "split", "hsplit", "vsplit",
           "take", "swapaxes", "moveaxis", "ascontiguousarray", "where", "copyto", "positive"}
PURE_METHODS = {"copy", "astype", "reshape", "transpose"}
PURE_BUILTINS = {"int", "float", "len", "tuple", "list", "range", "min", "max", "slice", "zip", "enumerate", "reversed", "bool"}


def _np_aliases(fi):
    return {k for k, v in fi.module.imports.items() if v[0] == "extmod" and v[1] in ("numpy", "np")}


def _is_movement(node, np_names):
    """True iff the expression / statement only moves data (no product, no repository call, no reduction)."""
    for n in ast.walk(node):
        if isinstance(n, ast.BinOp) and isinstance(n.op, (ast.MatMult, ast.Pow)):
            return False
        # (comprehensions, conditional expressions and comparisons over loop constants only select / place blocks; a condition on
        #  array DATA cannot be evaluated on the havoc'ed state and makes the run an analysis error, never a pass)
        if isinstance(n, (ast.Lambda, ast.SetComp, ast.DictComp, ast.NamedExpr, ast.Await, ast.Yield, ast.YieldFrom)):
            return False
        if isinstance(n, ast.Call):
            f = n.func
            if isinstance(f, ast.Name) and f.id in PURE_BUILTINS:
                continue
            if isinstance(f, ast.Attribute):
                if isinstance(f.value, ast.Name) and f.value.id in np_names:
                    if f.attr in PURE_NP:
                        continue
                    return False
                if f.attr in PURE_METHODS:
                    continue
            return False
    return True


def _stores(stmt):
    """(names re-bound, names whose object may be written in place) by a statement (any nesting)."""
    bound, written = set(), set()
    for n in ast.walk(stmt):
        if isinstance(n, ast.Name) and isinstance(n.ctx, (ast.Store, ast.Del)):
            bound.add(n.id)
        if isinstance(n, (ast.Subscript, ast.Attribute)) and isinstance(n.ctx, ast.Store):
            b = n.value
            while isinstance(b, (ast.Subscript, ast.Attribute)):
                b = b.value
            if isinstance(b, ast.Name):
                written.add(b.id)
        if isinstance(n, ast.Call):
            for a in list(n.args) + [k.value for k in n.keywords]:
                for x in ast.walk(a):
                    if isinstance(x, ast.Name):
                        written.add(x.id)
            if isinstance(n.func, ast.Attribute):
                b = n.func.value
                while isinstance(b, (ast.Subscript, ast.Attribute)):
                    b = b.value
                if isinstance(b, ast.Name):
                    written.add(b.id)
    return bound, written


def _loads(node):
    """names read by a statement, not counting the loop variables of its own comprehensions (they are bound inside it)"""
    own = set()
    for n in ast.walk(node):
        if isinstance(n, ast.comprehension):
            for t in ast.walk(n.target):
                if isinstance(t, ast.Name):
                    own.add(t.id)
    return {n.id for n in ast.walk(node) if isinstance(n, ast.Name) and isinstance(n.ctx, ast.Load)} - own


class Relayout:
    """Abstract execution of the top-level statements of a function: movement statements are interpreted,
    everything else havocs what it may write."""

    def __init__(self, it, fi):
        self.it, self.fi = it, fi
        self.np_names = _np_aliases(fi)
        self.havocs = {}       # k -> (name, shape)
        self.poisoned = set()
        self.n_moved = 0

    def havoc(self, env, name):
        v = env.vars.get(name)
        if isinstance(v, SymArr):
            k = len(self.havocs)
            self.havocs[k] = (name, tuple(v.shape))
            flat_idx = list(indices(v.shape))
            for idx in flat_idx:
                v[idx] = Poly.atom(("hv", k) + idx)
        elif name in env.vars:
            if not isinstance(v, (int, float, str, bool, type(None), tuple)):
                del env.vars[name]
                self.poisoned.add(name)

    def run(self, arg):
        fi, it = self.fi, self.it
        body = fi.node.body
        rets = [n for n in ast.walk(fi.node) if isinstance(n, ast.Return)]
        if len(rets) != 1 or body[-1] is not rets[0] or not isinstance(rets[0].value, ast.Tuple) or len(rets[0].value.elts) != 2:
            raise AnalysisError(f"{fi.where}: expected a single trailing `return <W>, <Hess>` (re-layout idiom not recognised)")
        params = fi.params()
        if len(params) != 1:
            raise AnalysisError(f"{fi.where}: expected exactly one parameter")
        env = Env()
        env.vars[params[0]] = arg
        it.call_stack.append(fi)
        try:
            for s in body[:-1]:
                if isinstance(s, ast.Expr) and isinstance(s.value, ast.Constant):
                    continue
                # (also bare calls that move data into an `out=` target: np.negative(src, out=dst[...]), np.copyto(dst, src))
                is_out_call = isinstance(s, ast.Expr) and isinstance(s.value, ast.Call) and (
                    any(k.arg == "out" for k in s.value.keywords)
                    or (isinstance(s.value.func, ast.Attribute) and s.value.func.attr == "copyto"))
                # (and `for` loops over constants whose whole body is data movement: block-by-block re-layout)
                is_move_loop = isinstance(s, ast.For) and not s.orelse and all(
                    isinstance(b_, (ast.Assign, ast.AnnAssign)) or (isinstance(b_, ast.Expr) and isinstance(b_.value, ast.Call))
                    for b_ in s.body)
                simple = (isinstance(s, (ast.Assign, ast.AnnAssign)) or is_out_call or is_move_loop) and _is_movement(s, self.np_names) \
                    and not (_loads(s) & self.poisoned)
                if simple:
                    it.exec(s, env)
                    bound, _ = _stores(s)
                    self.poisoned -= bound
                    self.n_moved += 1
                    continue
                bound, written = _stores(s)
                for nm in sorted(written):
                    self.havoc(env, nm)
                for nm in sorted(bound):
                    env.vars.pop(nm, None)
                    self.poisoned.add(nm)
            ret = rets[0].value
            if _loads(ret) & self.poisoned or not _is_movement(ret, self.np_names):
                raise AnalysisError(f"{fi.where}: returned values are not built by data movement from the work arrays "
                                    f"(re-layout idiom not recognised)")
            return it.eval(ret, env)
        finally:
            it.call_stack.pop()


def _source_of(arr, havocs):
    """havoc ids occurring in a result array; None if some entry is not a signed havoc symbol."""
    ks = set()
    for idx in indices(arr.shape):
        sa = signed_atom(arr[idx])
        if sa is None:
            return None
        if sa == 0:
            continue
        a = sa[1]
        if not (isinstance(a, tuple) and a and a[0] == "hv"):
            return None
        ks.add(a[1])
    return ks


def check_split(ctx, it, f_rd, f_wr, f_rp):
    boxes = [(1, 1), (2, 1), (2, 3), (3, 2)] + ([(3, 3), (4, 2), (1, 3)] if ctx.thorough else [])
    ctx.notes["C02.split_shapes_m_n"] = [list(b) for b in boxes]
    # ---- reader
    for (r, c) in [(1, 1), (2, 2), (3, 1), (2, 3)]:
        M = sym_real("b", (r, 4 * c))
        st, out = run_guarded(lambda: it.run(f_rd, [M]))
        ok = st == "ok" and isinstance(out, tuple) and len(out) == 4 and all(is_symarr(x, "real", (r, c)) for x in out)
        if ok:
            want = [M[:, 0:c], M[:, 2 * c:3 * c], M[:, c:2 * c], M[:, 3 * c:4 * c]]
            ok = all(arrays_same(x, y) for x, y in zip(out, want))
        ctx.ob("C02.D4.reader", f"A2A0123 on ({r},{4 * c}): (A0,A1,A2,A3) = column blocks (0,2,1,3)", ok,
               "reader does not return the blocks of the documented layout [A0 A2 A1 A3]", where=f_rd.where,
               construct="A2A0123: returned planes are not column blocks (0,2,1,3)", loc=f_rd.loc(), detail=short(out))
    ctx.require_instances("C02.D4.reader", 4)
    # ---- writers
    for (m, n) in boxes:
        rl = Relayout(it, f_wr)
        st, out = run_guarded(lambda: rl.run(sym_real("h_in", (4 * m, n))))
        for pos, (tag, src_shape) in enumerate([("W", (m, 4 * m)), ("Hess", (4 * m, n))]):
            inst = f"Hess_QR_ggivens re-layout of {tag} (m={m}, n={n}) read back by A2A0123"
            construct = f"Hess_QR_ggivens: re-layout of returned value {pos} ({tag}) disagrees with A2A0123/Realp"
            if st != "ok" or not isinstance(out, tuple) or len(out) != 2 or not isinstance(out[pos], SymArr):
                ctx.ob("C02.D4.writer", inst, False, f"re-layout statements fail: {short(out)}", where=f_wr.where,
                       construct=construct, loc=f_wr.loc())
                continue
            res = out[pos]
            ks = _source_of(res, rl.havocs)
            if ks is None or len(ks) != 1:
                raise AnalysisError(f"{f_wr.where}: returned value {pos} is not a signed rearrangement of one work array "
                                    f"(sources {ks}); re-layout idiom not recognised")
            k = next(iter(ks))
            if rl.havocs[k][1] != src_shape:
                ctx.ob("C02.D4.writer", inst, False, f"source array has shape {rl.havocs[k][1]}, expected {src_shape}",
                       where=f_wr.where, construct=construct, loc=f_wr.loc())
                continue
            cols = m if pos == 0 else n
            X = sym_quat("u" if pos == 0 else "h", (m, cols))
            st2, RP = run_guarded(lambda: it.run(f_rp, planes_of(X)))
            if st2 != "ok" or not is_symarr(RP, "real", (4 * m, 4 * cols)):
                ctx.ob("C02.D4.writer", inst, False, f"Realp fails: {short(RP)}", where=f_wr.where, construct=construct,
                       loc=f_wr.loc())
                continue
            src = RP[0:m, :] if pos == 0 else RP[:, 0:cols]
            sub = {("hv", k) + idx: src[idx] for idx in indices(src.shape)}
            conc = mk(res.shape, "real")
            for idx in indices(res.shape):
                conc[idx] = P(res[idx]).subs(sub)
            st3, planes = run_guarded(lambda: it.run(f_rd, [conc]))
            ok = st3 == "ok" and isinstance(planes, tuple) and len(planes) == 4 and \
                all(isinstance(p, SymArr) for p in planes) and arrays_same(quat_from_planes(list(planes)), X)
            what = ("first block row of Realp(U) -> [U0 U2 U1 U3]" if pos == 0 else
                    "first block column of Realp(H) -> [H0 H2 H1 H3]")
            ctx.ob("C02.D4.writer", inst, ok, f"writer and reader disagree ({what} expected)", where=f_wr.where,
                   construct=construct, loc=f_wr.loc(),
                   detail=short(first_diff(quat_from_planes(list(planes)), X)) if st3 == "ok" and isinstance(planes, tuple)
                   and len(planes) == 4 and all(isinstance(p, SymArr) and p.shape == (m, cols) for p in planes) else short(planes))
        if rl.n_moved < 4:
            raise AnalysisError(f"{f_wr.where}: fewer than 4 data-movement statements recognised")
    ctx.require_instances("C02.D4.writer", 2 * len(boxes))


# =========================================================================================== D5
def check_adjoint(ctx, it, f_ad):
    ns = (1, 2, 3)
    ctx.notes["C02.adjoint_sizes"] = list(ns)
    w = f_ad.where
    for n in ns:
        A, B = sym_quat("a", (n, n)), sym_quat("b", (n, n))
        st, XA = run_guarded(lambda: it.run(f_ad, [A]))
        if st != "ok" or not isinstance(XA, SymArr):
            _fail(ctx, "C02.D5.adjoint", f"complex adjoint n={n}", f_ad, "embedding fails on a square quaternion matrix", XA)
            continue
        ok_shape = is_symarr(XA, "complex", (2 * n, 2 * n))
        ctx.ob("C02.D5.adjoint", f"chi(A) n={n}: shape (2n,2n) complex", ok_shape, f"shape {XA.shape} kind {XA.kind}",
               where=w, construct="quaternion_to_complex_adjoint: result is not (2n,2n) complex", loc=f_ad.loc())
        if not ok_shape:
            continue
        # linear in the components, each component exactly twice, scale sqrt 2
        count, lin = {}, True
        for idx in indices(XA.shape):
            v = SC.lift(XA[idx])
            for part in (v.re, v.im):
                sa = signed_atom(part)
                if sa is None:
                    lin = False
                elif sa != 0:
                    count[sa[1]] = count.get(sa[1], 0) + 1
        want = {("a", i, j, p) for i in range(n) for j in range(n) for p in range(4)}
        want = {k_ for k_ in want if not Poly.atom(k_).is_zero()}
        ok = lin and set(count) == want and all(c == 2 for c in count.values())
        ctx.ob("C02.D5.adjoint", f"chi(A) n={n}: every component occurs exactly twice (+-1)", ok,
               "entries are not +-single components / a component does not occur exactly twice", where=w,
               construct="quaternion_to_complex_adjoint: component multiplicity is not 2", loc=f_ad.loc(),
               detail=short(sorted((k, c) for k, c in count.items() if c != 2)[:4]))
        ctx.ob("C02.D5.adjoint", f"chi(A) n={n}: sum |entries|^2 = 2 ||A||_F^2", sumsq_any(XA).same(ref_fro2(A) * 2),
               "Frobenius scale is not sqrt 2", where=w, construct="quaternion_to_complex_adjoint: scale is not sqrt 2",
               loc=f_ad.loc())
        st, out = run_guarded(lambda: (it.run(f_ad, [B]), it.run(f_ad, [ref_matmul(A, B)]), it.run(f_ad, [ref_hermitian(A)])))
        if st != "ok":
            _fail(ctx, "C02.D5.homomorphism", f"chi product n={n}", f_ad, "embedding fails", out)
            continue
        XB, XAB, XAH = out
        prod = it.domain.matmul(XA, XB)
        ctx.ob("C02.D5.homomorphism", f"chi(A)chi(B) = chi(AB) n={n}", arrays_same(prod, XAB),
               "products are not mapped to products", where=w,
               construct="quaternion_to_complex_adjoint: chi(A)chi(B) != chi(AB)", loc=f_ad.loc(),
               detail=short(first_diff(prod, XAB)))
        cT = transpose2(conj_arr(XA))
        ctx.ob("C02.D5.homomorphism", f"chi(A^H) = chi(A)^H n={n}", arrays_same(XAH, cT),
               "conjugate transpose is not mapped to conjugate transpose", where=w,
               construct="quaternion_to_complex_adjoint: chi(A^H) != conj(chi(A))^T", loc=f_ad.loc(),
               detail=short(first_diff(XAH, cT)))
    guards = [("non-square 2x3", [sym_quat("a", (2, 3))], {}, "ValueError"),
              ("non-square 3x1", [sym_quat("a", (3, 1))], {}, "ValueError"),
              ("real ndarray 2x2", [sym_real("r", (2, 2))], {}, "ValueError"),
              ("1-D quaternion vector", [sym_quat("a", (3,))], {}, "ValueError"),
              ("3-D quaternion tensor", [sym_quat("a", (2, 2, 2))], {}, "ValueError"),
              ("axis='y'", [sym_quat("a", (2, 2))], {"axis": "y"}, "NotImplementedError"),
              ("axis='z'", [sym_quat("a", (2, 2)), "z"], {}, "NotImplementedError")]
    for name, args, kw, exc in guards:
        st, out = run_guarded(lambda: it.run(f_ad, args, kw))
        ok = st == "raise" and out.exc_name == exc
        ctx.ob("C02.D5.guard", f"quaternion_to_complex_adjoint rejects {name} with {exc}", ok,
               f"out-of-domain argument not rejected with {exc} ({st}: {short(out, 80)})", where=w,
               construct=f"quaternion_to_complex_adjoint: no {exc} for {name}", loc=f_ad.loc())
    ctx.require_instances("C02.D5.adjoint", 3 * len(ns))
    ctx.require_instances("C02.D5.homomorphism", 2 * len(ns))
    ctx.require_instances("C02.D5.guard", 7)


# =========================================================================================== D6
def check_krylov(ctx, it, f_q2c, f_c2q):
    inst = Instance(ctx.program.cls("solver", "QGMRESSolver"), {})
    shapes = [(1, 1), (2, 3), (3, 1), (2, 2)] + ([(3, 3), (1, 4)] if ctx.thorough else [])
    ctx.notes["C02.krylov_shapes"] = [list(s) for s in shapes]
    for (m, n) in shapes:
        A = sym_quat("a", (m, n))
        want = planes_of(A)
        for kind in ("dense", "sparse", "tuple"):
            arg = A if kind == "dense" else (sparse_from_dense(it, ctx, A) if kind == "sparse" else tuple(want))
            st, out = run_guarded(lambda: it.run(f_q2c, [arg], bound_self=inst))
            ok = st == "ok" and isinstance(out, tuple) and len(out) == 4 and \
                all(isinstance(x, SymArr) and not x.sparse and arrays_same(x, y) for x, y in zip(out, want))
            ctx.ob("C02.D6.krylov", f"_quat_to_components[{kind}] {m}x{n}: planes in order (0,1,2,3)", ok,
                   "the four returned planes are not the components w, x, y, z in order", where=f_q2c.where,
                   construct=f"_quat_to_components[{kind}]: plane order is not (0,1,2,3)", loc=f_q2c.loc(), detail=short(out))
            if ok:
                st, back = run_guarded(lambda: it.run(f_c2q, list(out), bound_self=inst))
                ok2 = st == "ok" and is_symarr(back, "quat", (m, n)) and arrays_same(back, A)
                ctx.ob("C02.D6.roundtrip", f"_components_to_quat(_quat_to_components[{kind}](A)) = A {m}x{n}", ok2,
                       "split followed by merge is not the identity", where=f_c2q.where,
                       construct="_components_to_quat: merge(split(A)) != A", loc=f_c2q.loc(), detail=short(back))
        st, back = run_guarded(lambda: it.run(f_c2q, want, bound_self=inst))
        ok = st == "ok" and is_symarr(back, "quat", (m, n)) and arrays_same(back, A)
        ctx.ob("C02.D6.krylov", f"_components_to_quat {m}x{n}: stacks planes in order (0,1,2,3)", ok,
               "merge does not place plane p in component p", where=f_c2q.where,
               construct="_components_to_quat: stack order is not (0,1,2,3)", loc=f_c2q.loc(), detail=short(back))
        if ok:
            st, again = run_guarded(lambda: it.run(f_q2c, [back], bound_self=inst))
            ok2 = st == "ok" and isinstance(again, tuple) and len(again) == 4 and all(arrays_same(x, y) for x, y in zip(again, want))
            ctx.ob("C02.D6.roundtrip", f"_quat_to_components(_components_to_quat(planes)) = planes {m}x{n}", ok2,
                   "merge followed by split is not the identity", where=f_q2c.where,
                   construct="_quat_to_components: split(merge(planes)) != planes", loc=f_q2c.loc())
    ctx.require_instances("C02.D6.krylov", 4 * len(shapes))
    ctx.require_instances("C02.D6.roundtrip", 4 * len(shapes))


def run(ctx):
    prog = ctx.program
    f_exp = prog.func("utils", "real_expand")
    f_con = prog.func("utils", "real_contract")
    f_rp = prog.func("utils", "Realp")
    f_rd = prog.func("utils", "A2A0123")
    f_wr = prog.func("utils", "Hess_QR_ggivens")
    f_ad = prog.func("utils", "quaternion_to_complex_adjoint")
    f_q2c = prog.func("solver", "QGMRESSolver._quat_to_components")
    f_c2q = prog.func("solver", "QGMRESSolver._components_to_quat")
    for f in (f_exp, f_con, f_rp, f_rd, f_wr, f_ad, f_q2c, f_c2q):
        ctx.touch(f)
    ctx.touch(prog.func("utils", "SparseQuaternionMatrix.__init__"))
    ctx.assume("numpy semantics of slicing / stacking / @ / as_float_array / as_quat_array as modelled (numpy's own "
               "indexing is used on object arrays)", "python ast reflects the code that runs",
               "exact arithmetic (polynomial identities; 'bit-for-bit' rests on numpy copy semantics)",
               "shapes bounded by the recorded boxes; values generic",
               "D4: the rotations applied to W / Hess keep the Realp block-row / block-column structure (C16)")
    it, d = new_interp(ctx)
    check_real_expand(ctx, it, f_exp, f_con)
    check_realp(ctx, it, f_rp)
    check_split(ctx, it, f_rd, f_wr, f_rp)
    check_adjoint(ctx, it, f_ad)
    check_krylov(ctx, it, f_q2c, f_c2q)
