"""Origin-tag element domain (engine E8 for LU's row bookkeeping).

A `Tagged` value stands for "a quaternion computed from the input matrix"; it carries

  row, col : the *index type* of the value - which original row / which column of the
             matrix it belongs to.  Typing follows the bimodule structure of matrix entries:
             a product x*y is typed (row(x), col(y)) like E_ic = E_ik E_kc, inverses keep their
             type (x / y = x * y^-1 is typed (row(x), col(y))), sums keep a component only when
             both operands agree on it (otherwise that component becomes None = "no definite
             origin"); constants carry no type.
  uid      : hash-consed identity of the expression that produced the value (the same
             computation gives the same uid, in this run or another run of the same TagSpace),
             so arrays from two runs can be compared entry by entry.

Numeric contents do not exist.  The four components `.c` are opaque atoms keyed by the uid, so
code that takes a modulus (as_float_array / abs) of a Tagged value yields a recognisable real
polynomial in those atoms; `uids_in` recovers which values a real expression was computed from.
The class derives from SQ so that the quaternion-array models of dom_sym accept it unchanged.
"""
from __future__ import annotations

from .alg import Poly, SQ, is_number, P


class TagSpace:
    def __init__(self):
        self.table = {}      # structural key -> uid
        self.vals = {}       # uid -> Tagged
        self.reset_run()

    def reset_run(self):
        """per-run logs (the intern table is kept so that uids are comparable across runs)"""
        self.tested = set()      # uids whose modulus was compared and found non-zero on this path
        self.div_events = []     # (denominator uid, was it tested before the division)

    def intern(self, key):
        u = self.table.get(key)
        if u is None:
            u = len(self.table)
            self.table[key] = u
        return u

    def make(self, key, row, col):
        u = self.intern(key)
        v = self.vals.get(u)
        if v is None:
            v = Tagged(self, row, col, u)
            self.vals[u] = v
        return v

    def leaf(self, r, c):
        return self.make(("in", r, c), r, c)


def _okey(x):
    if isinstance(x, Tagged):
        return ("t", x.uid)
    if isinstance(x, SQ):
        return x.key()
    return ("p", P(x).key())


def _const_kind(x):
    """None if x is not a constant operand; else 'zero' | 'one' | 'other'"""
    if isinstance(x, Tagged):
        return None
    if isinstance(x, SQ):
        if x.is_zero():
            return "zero"
        return "one" if x.same(SQ(1)) else "other"
    if isinstance(x, Poly) or is_number(x):
        p = P(x)
        if p.is_zero():
            return "zero"
        return "one" if p.same(Poly.const(1)) else "other"
    return False


class Tagged(SQ):
    __slots__ = ("sp", "row", "col", "uid")

    def __init__(self, sp, row, col, uid):
        self.sp, self.row, self.col, self.uid = sp, row, col, uid
        self.c = tuple(Poly.atom(("tq", uid, p)) for p in range(4))

    def __repr__(self):
        return f"T{self.uid}(row={self.row},col={self.col})"

    def key(self):
        return ("T", self.uid)

    def __hash__(self):
        return hash(("T", self.uid))

    def same(self, o):
        return isinstance(o, Tagged) and o.sp is self.sp and o.uid == self.uid

    def is_zero(self):
        return False

    @property
    def typ(self):
        return (self.row, self.col)

    # ------------------------------------------------------------------ arithmetic
    def _addsub(self, o, name, swapped):
        k = _const_kind(o)
        if k is False:
            return NotImplemented
        if k is not None:
            if k == "zero":
                if name == "sub" and swapped:
                    return -self
                return self
            row, col = self.row, self.col
        else:
            row = self.row if self.row == o.row else None
            col = self.col if self.col == o.col else None
        a, b = (o, self) if swapped else (self, o)
        return self.sp.make((name, _okey(a), _okey(b)), row, col)

    def __add__(self, o):
        return self._addsub(o, "add", False)

    def __radd__(self, o):
        return self._addsub(o, "add", True)

    def __sub__(self, o):
        return self._addsub(o, "sub", False)

    def __rsub__(self, o):
        return self._addsub(o, "sub", True)

    def __neg__(self):
        return self.sp.make(("neg", self.uid), self.row, self.col)

    def __pos__(self):
        return self

    def _mul(self, o, swapped):
        k = _const_kind(o)
        if k is False:
            return NotImplemented
        if k is not None:
            if k == "zero":
                return SQ(0)
            if k == "one":
                return self
            row, col = self.row, self.col
        elif swapped:
            row, col = o.row, self.col
        else:
            row, col = self.row, o.col
        a, b = (o, self) if swapped else (self, o)
        return self.sp.make(("mul", _okey(a), _okey(b)), row, col)

    def __mul__(self, o):
        return self._mul(o, False)

    def __rmul__(self, o):
        return self._mul(o, True)

    def inverse(self):
        self.sp.div_events.append((self.uid, self.uid in self.sp.tested))
        return self.sp.make(("inv", self.uid), self.row, self.col)

    def __truediv__(self, o):
        k = _const_kind(o)
        if k is False:
            return NotImplemented
        if k is not None:
            if k == "zero":
                raise ZeroDivisionError("division of a tagged value by the constant zero")
            if k == "one":
                return self
            return self.sp.make(("div", _okey(self), _okey(o)), self.row, self.col)
        self.sp.div_events.append((o.uid, o.uid in self.sp.tested))
        return self.sp.make(("div", _okey(self), _okey(o)), self.row, o.col)

    def __rtruediv__(self, o):
        k = _const_kind(o)
        if k is False or k is None:
            return NotImplemented
        self.sp.div_events.append((self.uid, self.uid in self.sp.tested))
        if k == "zero":
            return SQ(0)
        return self.sp.make(("div", _okey(o), _okey(self)), self.row, self.col)

    def conjugate(self):
        return self.sp.make(("conj", self.uid), self.row, self.col)

    conj = conjugate


def uids_in(x, out=None):
    """uids of the Tagged values whose component atoms occur in a real expression (Poly),
    searched through nested function atoms (sqrt, abs, inv, max ...)."""
    if out is None:
        out = set()
    if isinstance(x, Poly):
        for m in x.terms:
            for a, _ in m:
                uids_in(a, out)
    elif isinstance(x, SQ):
        if isinstance(x, Tagged):
            out.add(x.uid)
        else:
            for c in x.c:
                uids_in(c, out)
    elif isinstance(x, tuple):
        if len(x) == 3 and x[0] == "tq" and isinstance(x[1], int):
            out.add(x[1])
        else:
            for y in x:
                if isinstance(y, (tuple, Poly, SQ)):
                    uids_in(y, out)
    return out


def is_const_entry(x):
    return not isinstance(x, Tagged)
