"""C01 - the matrix product is the Hamilton product in every storage format.

Decided clauses (DESIGN section 4, C01):
  D1 every product kernel (dense*dense, sparse*dense, sparse*sparse, dense*sparse through
     quat_matmat's dispatch, and the component-form kernel timesQsparse with its scalar
     branches) yields, entry by entry and as a polynomial identity in generic symbolic
     entries, the definition C_ij = sum_k A_ik B_kj with the Hamilton product.  The oracle is
     generated from i^2=j^2=k^2=ijk=-1 (qstatic.alg.hamilton), never from repository code.
  D2 conjugate transpose (dense and sparse): (A^H)_ji = conj(A_ij), shape swapped, involution,
     (AB)^H = B^H A^H across the four storage combinations.
  D3 Frobenius norm: dense and sparse branch are the same polynomial sqrt(sum of all squared
     components); invariant under ^H.
Shapes are enumerated over a box (the kernels are written shape-generically through numpy
broadcasting; the box includes 1x1, vectors, rectangular); values are generic symbols, so each
shape is decided for all entry values at once.
"""
from __future__ import annotations

import itertools

from qstatic.alg import Poly, SQ, hamilton
from qstatic.dom_sym import sym_quat, sym_real, arrays_same, first_diff, mk
from qstatic.interp import Instance, RepoRaise, ModelError
from .common import (new_interp, sparse_from_dense, dense_from_any, planes_of, quat_from_planes, ref_matmul,
                     ref_hermitian, ref_fro2, run_guarded, short)

LEVEL = "other"
EXPLANATION = ("Abstract interpretation of the product / adjoint / norm kernels over arrays of generic symbolic "
               "quaternions (exact polynomial identity per entry) for every shape in a box and every dense/sparse "
               "operand configuration; oracle generated from the defining relations of the quaternion units.")

QUICK_SHAPES = [(1, 1, 1), (2, 1, 2), (1, 3, 1), (2, 3, 1), (2, 2, 3)]
THOROUGH_SHAPES = [(m, k, n) for m in (1, 2, 3) for k in (1, 2, 3) for n in (1, 2, 3)]


def run(ctx):
    prog = ctx.program
    f_matmat = prog.func("utils", "quat_matmat")
    f_herm = prog.func("utils", "quat_hermitian")
    f_fro = prog.func("utils", "quat_frobenius_norm")
    f_times = prog.func("utils", "timesQsparse")
    for q in ["SparseQuaternionMatrix.__matmul__", "SparseQuaternionMatrix.dense_multiply",
              "SparseQuaternionMatrix.sparse_multiply", "SparseQuaternionMatrix.left_multiply",
              "SparseQuaternionMatrix.conjugate", "SparseQuaternionMatrix.transpose"]:
        ctx.touch(prog.func("utils", q))
    for f in (f_matmat, f_herm, f_fro, f_times):
        ctx.touch(f)
    ctx.assume("numpy/scipy semantics of @, slicing, stack, transpose as modelled (numpy's own indexing is used)",
               "python ast reflects the code that runs", "exact arithmetic (polynomial identities, no rounding)")
    shapes = THOROUGH_SHAPES if ctx.thorough else QUICK_SHAPES
    ctx.notes["shape_box"] = [list(s) for s in shapes]
    it, d = new_interp(ctx)

    def mkop(kind, A):
        return sparse_from_dense(it, ctx, A) if kind == "sparse" else A

    for (m, k, n) in shapes:
        A = sym_quat("a", (m, k))
        B = sym_quat("b", (k, n))
        ref = ref_matmul(A, B)
        # ---- D1: quat_matmat dispatch, four configurations
        for ka, kb in itertools.product(("dense", "sparse"), repeat=2):
            inst = f"quat_matmat[{ka}x{kb}] shape {m}x{k}@{k}x{n}"
            st, out = run_guarded(lambda: it.run(f_matmat, [mkop(ka, A), mkop(kb, B)]))
            if st != "ok":
                ctx.ob("C01.D1.product", inst, False, f"kernel fails in-domain: {out}", where=f_matmat.where,
                       construct=f"quat_matmat[{ka}x{kb}] fails", loc=f_matmat.loc())
                continue
            dense, shp = dense_from_any(out)
            want_sparse = (ka == "sparse" and kb == "sparse") or (ka == "dense" and kb == "sparse")
            ok = arrays_same(dense, ref) and tuple(shp) == (m, n)
            diff = None if ok else first_diff(dense, ref)
            ctx.ob("C01.D1.product", inst, ok,
                   f"result differs from the Hamilton-product definition at {short(diff)}" if not ok else "",
                   where=f_matmat.where, construct=f"quat_matmat[{ka}x{kb}] != Hamilton product",
                   loc=f_matmat.loc(), detail=short(diff))
            # ---- D2: product reversal with the repository's own adjoint
            st2, lhs = run_guarded(lambda: it.run(f_herm, [out]))
            st3, rhs = run_guarded(lambda: it.run(f_matmat, [it.run(f_herm, [mkop(kb, B)]), it.run(f_herm, [mkop(ka, A)])]))
            if st2 == "ok" and st3 == "ok":
                l, _ = dense_from_any(lhs)
                r, _ = dense_from_any(rhs)
                ctx.ob("C01.D2.reversal", f"(AB)^H = B^H A^H [{ka}x{kb}] {m}x{k}x{n}", arrays_same(l, r),
                       "conjugate transpose does not reverse the product", where=f_herm.where,
                       construct=f"reversal[{ka}x{kb}]", loc=f_herm.loc(), detail=short(first_diff(l, r)))
            else:
                ctx.ob("C01.D2.reversal", f"(AB)^H = B^H A^H [{ka}x{kb}] {m}x{k}x{n}", False,
                       f"adjoint/product fails in-domain: {lhs if st2 != 'ok' else rhs}", where=f_herm.where,
                       construct=f"reversal[{ka}x{kb}] fails", loc=f_herm.loc())
        # ---- D1: component-form kernel (dense planes, sparse planes)
        for mode in ("dense", "sparse"):
            pa, pb = planes_of(A), planes_of(B)
            if mode == "sparse":
                for x in pa + pb:
                    x.sparse = True
            st, out = run_guarded(lambda: it.run(f_times, pa + pb))
            inst = f"timesQsparse[{mode}] {m}x{k}@{k}x{n}"
            if st != "ok" or not isinstance(out, tuple) or len(out) != 4:
                ctx.ob("C01.D1.component", inst, False, f"kernel fails in-domain: {out}", where=f_times.where,
                       construct="timesQsparse fails", loc=f_times.loc())
            else:
                got = quat_from_planes(list(out))
                ok = arrays_same(got, ref)
                ctx.ob("C01.D1.component", inst, ok, "component-form product differs from the Hamilton product",
                       where=f_times.where, construct="timesQsparse != Hamilton product", loc=f_times.loc(),
                       detail=short(first_diff(got, ref)))
    # ---- D1: structured operands (whole component planes identically zero): storage-dependent shortcuts ("nothing stored in the real
    # plane", "no imaginary part") must not change the product.  Exact identity against the Hamilton product of the same operands.
    def masked(name, shape, keep):
        M = sym_quat(name, shape)
        for idx in itertools.product(*[range(x) for x in shape]):
            M[idx] = SQ(*[c if keep[p] else Poly.const(0) for p, c in enumerate(M[idx].c)])
        return M
    MASKS = [(1, 0, 0, 0), (0, 1, 0, 0), (0, 0, 1, 1), (0, 1, 1, 1)] + ([(0, 0, 0, 1), (1, 1, 0, 0)] if ctx.thorough else [])
    for (m, k, n) in ([(2, 2, 2)] + ([(2, 3, 2)] if ctx.thorough else [])):
        for ma, mb in itertools.product(MASKS, repeat=2):
            A, B = masked("a", (m, k), ma), masked("b", (k, n), mb)
            ref = ref_matmul(A, B)
            for ka, kb in itertools.product(("dense", "sparse"), repeat=2):
                inst = f"quat_matmat[{ka}x{kb}] planes A={ma} B={mb} shape {m}x{k}@{k}x{n}"
                st, out = run_guarded(lambda: it.run(f_matmat, [mkop(ka, A), mkop(kb, B)]))
                ok = False
                diff = out
                if st == "ok":
                    dense, shp = dense_from_any(out)
                    ok = arrays_same(dense, ref) and tuple(shp) == (m, n)
                    diff = None if ok else first_diff(dense, ref)
                ctx.ob("C01.D1.structured", inst, ok,
                       f"product of operands with identically zero component planes differs from the Hamilton product at {short(diff)}"
                       if not ok else "", where=f_matmat.where,
                       construct=f"quat_matmat[{ka}x{kb}] != Hamilton product for operands with empty component planes",
                       loc=f_matmat.loc(), detail=short(diff))
    # ---- D1: scalar branches of the component kernel (as used by Arnoldi: vector*scalar, scalar*vector)
    for (rows, cols) in [(3, 1), (2, 2)] + ([(1, 1), (1, 3)] if ctx.thorough else []):
        V = sym_quat("v", (rows, cols))
        s = SQ(*[Poly.atom(("s", p)) for p in range(4)])
        for side in ("matrix*scalar", "scalar*matrix"):
            if side == "matrix*scalar":
                args = planes_of(V) + list(s.c)
                ref = mk(V.shape, "quat")
                for idx in itertools.product(range(rows), range(cols)):
                    ref[idx] = V[idx] * s
            else:
                args = list(s.c) + planes_of(V)
                ref = mk(V.shape, "quat")
                for idx in itertools.product(range(rows), range(cols)):
                    ref[idx] = s * V[idx]
            st, out = run_guarded(lambda: it.run(f_times, args))
            inst = f"timesQsparse[{side}] {rows}x{cols}"
            if st != "ok":
                ctx.ob("C01.D1.component", inst, False, f"scalar branch fails: {out}", where=f_times.where,
                       construct="timesQsparse scalar branch fails", loc=f_times.loc())
                continue
            got = quat_from_planes(list(out))
            ctx.ob("C01.D1.component", inst, arrays_same(got, ref),
                   "scalar branch of the component-form product differs from the Hamilton product",
                   where=f_times.where, construct=f"timesQsparse[{side}] != Hamilton product", loc=f_times.loc(),
                   detail=short(first_diff(got, ref)))
    # ---- D2: adjoint definition + involution; D3: norms
    for (m, n) in ([(1, 1), (2, 3), (3, 1)] if not ctx.thorough else [(a, b) for a in (1, 2, 3) for b in (1, 2, 3)]):
        A = sym_quat("a", (m, n))
        refH = ref_hermitian(A)
        fro = ref_fro2(A).sqrt()
        for kind in ("dense", "sparse"):
            op = mkop(kind, A)
            st, out = run_guarded(lambda: it.run(f_herm, [op]))
            inst = f"quat_hermitian[{kind}] {m}x{n}"
            if st != "ok":
                ctx.ob("C01.D2.adjoint", inst, False, f"adjoint fails in-domain: {out}", where=f_herm.where,
                       construct=f"quat_hermitian[{kind}] fails", loc=f_herm.loc())
                continue
            dense, shp = dense_from_any(out)
            ok = arrays_same(dense, refH) and tuple(shp) == (n, m)
            ctx.ob("C01.D2.adjoint", inst, ok, "conjugate transpose differs from (A^H)_ji = conj(A_ij) / shape not swapped",
                   where=f_herm.where, construct=f"quat_hermitian[{kind}] wrong", loc=f_herm.loc(),
                   detail=short(first_diff(dense, refH)) + f" shape={shp}")
            st, back = run_guarded(lambda: it.run(f_herm, [out]))
            if st == "ok":
                bd, bshp = dense_from_any(back)
                ctx.ob("C01.D2.involution", f"(A^H)^H = A [{kind}] {m}x{n}", arrays_same(bd, A) and tuple(bshp) == (m, n),
                       "conjugate transpose is not an involution", where=f_herm.where,
                       construct=f"involution[{kind}]", loc=f_herm.loc())
            # D3
            st, nv = run_guarded(lambda: it.run(f_fro, [op]))
            inst = f"quat_frobenius_norm[{kind}] {m}x{n}"
            ok = st == "ok" and isinstance(nv, Poly) and nv.same(fro)
            ctx.ob("C01.D3.frobenius", inst, ok, "Frobenius norm is not sqrt(sum of squared components)",
                   where=f_fro.where, construct=f"quat_frobenius_norm[{kind}] wrong", loc=f_fro.loc(), detail=short(nv))
            st, nh = run_guarded(lambda: it.run(f_fro, [out]))
            ctx.ob("C01.D3.invariance", f"||A^H||_F = ||A||_F [{kind}] {m}x{n}",
                   st == "ok" and isinstance(nh, Poly) and nh.same(fro),
                   "Frobenius norm changes under conjugate transpose", where=f_fro.where,
                   construct=f"fro-invariance[{kind}]", loc=f_fro.loc())
    # ---- dispatch guards of the sparse class
    f_mm = prog.func("utils", "SparseQuaternionMatrix.__matmul__")
    A = sym_quat("a", (2, 2))
    sp = sparse_from_dense(it, ctx, A)
    st, out = run_guarded(lambda: it.run(f_mm, [sp, "not-a-matrix"]))
    ctx.ob("C01.D1.dispatch", "__matmul__ rejects unsupported operand", st == "raise" and out.exc_name == "TypeError",
           "unsupported operand is not rejected with TypeError", where=f_mm.where, construct="__matmul__ no TypeError",
           loc=f_mm.loc())
    ctx.require_instances("C01.D1.product", 4 * len(shapes))
    ctx.require_instances("C01.D1.component", 2 * len(shapes) + 4)
    ctx.require_instances("C01.D2.adjoint", 6)
    ctx.require_instances("C01.D3.frobenius", 6)
