#!/bin/sh
# usage: tools/mut.sh <relfile> <python-regex-old> <new> <prop>... ; runs checks on a scratch copy with one textual edit
set -e
T=$(mktemp -d /tmp/qmut.XXXXXX)
mkdir -p $T/applications
cp -r /repo/quatica $T/quatica
cp -r /repo/applications/image_deblurring $T/applications/image_deblurring
f=$1; old=$2; new=$3; shift 3
/venv/bin/python - "$T/$f" "$old" "$new" <<'PY'
import sys,re
p,old,new=sys.argv[1:4]
s=open(p).read()
n=len(re.findall(old,s))
if n!=1: print("MUT: pattern matches",n,"times"); sys.exit(3)
open(p,'w').write(re.sub(old,lambda m:new,s,count=1))
PY
rc=0
for p in "$@"; do /verif/check $p --root $T --no-evidence | grep -E 'FINDING|ANALYSIS|^\[' | cut -c1-260 || true; done
rm -rf $T
