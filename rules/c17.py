"""C17 - QSLST restoration (quatica/qslst.py and the BCCB builders of the deblurring application).

Decided clauses (DESIGN section 4, C17); repository code is parsed and interpreted abstractly only:

  D1 kernel placement (label domain, bounded-exhaustive).  _pad_psf on a kernel of symbolic taps
     k[u,v], for every image size in the box and every kernel size <= image: tap (u,v) lands at
     ((u - kH//2) mod H, (v - kW//2) mod W), every other entry is 0.
  D2 FFT paths (per-frequency commutative algebra).  fft2 / ifft2 are modelled symbolically (the
     spectrum F(x) of an array is an opaque generator; elementwise products, conjugates, |.|^2
     = H conj(H), quotients are exact commutative algebra).  apply_blur_fft: channel c of the
     result is real(ifft2(F(Q_c) * F(pad))) with the same F(pad), pad = _pad_psf(psf, (H,W)), for
     the four channels and nothing else.  qslst_restore_fft: channel c is
     real(ifft2(conj(F(pad)) F(B_c) / (F(pad) conj(F(pad)) + lam))) - the normal equations of that
     operator - for the four channels; boundary != 'periodic' is refused.
  D3 matrix path.  np.linalg.pinv is applied to exactly A^T A + lam I (A^T A on the lam == 0
     path); x_c = T^+ (A^T vec(B_c)) with vec order i*W + j and the inverse reshape; channels
     independent; a non (N,N) operator is refused.
  D4 builders (label domain, bounded-exhaustive).  _build_bccb_matrix and _build_bccb_csr equal
     the same reference operator (A x)[i,j] = sum_{u,v} k[u,v] x[(i-(u-cH)) mod H, (j-(v-cW)) mod W],
     vec order i*W + j, i.e. A[p,q] = pad[(p-q) mod (H,W)], for every image size in the box and
     every kernel size <= image with generic (asymmetric) taps.
  D5 PSF generators return an array divided by its own sum on every path (flow check on the AST).
Not decided: numerical agreement of the FFT and the matrix path, lam -> 0 inversion.
"""
from __future__ import annotations

import ast
import itertools

import numpy as np

from qstatic.alg import Poly, P, is_number
from qstatic.dom_sym import SymDomain, SymArr, Namespace, sym_real, mk, arrays_same, first_diff, wrap
from qstatic.interp import Interp, ModelError, RepoRaise, Unsupported, PathExplorer
from qstatic.src import AnalysisError
from .common import run_guarded as _run_guarded, short


def run_guarded(fn):
    """as common.run_guarded; a Python-level failure inside a library model caused by a spectrum operand is a
    construct outside the analysable subset (clean ANALYSIS-ERROR), never an internal error"""
    try:
        return _run_guarded(fn)
    except (TypeError, AttributeError) as e:
        if "Spec" in str(e) or "SpecCond" in str(e):
            raise Unsupported(f"operation on a spectrum outside the FFT model: {e}")
        raise

LEVEL = "other"
EXPLANATION = ("Abstract interpretation of _pad_psf and the two BCCB builders over arrays of symbolic taps for every image / "
               "kernel size of a box (index maps compared with the definition of centred circular convolution); symbolic "
               "FFT model with exact per-frequency algebra for the FFT blur and the Tikhonov filter; exact symbolic run of "
               "the pinv path; reaching-definition flow check of the PSF normalisation.")

R_PAD, R_FFT, R_MAT, R_BLD, R_NORM = "C17.D1.padding", "C17.D2.fft", "C17.D3.matrix", "C17.D4.builders", "C17.D5.normalised"


# ==============================================================================================
# symbolic FFT model
# ==============================================================================================

def content_key(x):
    x = wrap(x)
    return (tuple(x.shape),) + tuple(P(v).key() for v in np.asarray(x, dtype=object).reshape(-1))


def _obj0(v):
    t = np.empty((), dtype=object)
    t[()] = v
    return t


def _ew(op, a, b=None):
    """elementwise op on object arrays of Poly with numpy broadcasting; always returns an ndarray"""
    r = np.frompyfunc(op, 1 if b is None else 2, 1)(*((a,) if b is None else (a, b)))
    return r if isinstance(r, np.ndarray) else _obj0(r)


class Spec:
    """A frequency-domain array, all frequencies of the two transformed (leading) axes at once, with
    optional trailing batch axes (channels): logical shape = fshape + batch shape; `polys` is an
    object array over the batch axes of commutative polynomials in the generators ('F', key) =
    fft2 of the 2-D spatial array with contents `key`, ('Fc', key) its conjugate, real scalars,
    ('absS', polykey) = |S|, ('inv', polykey).  Elementwise algebra with numpy broadcasting over the
    batch axes; the frequency axes can only be taken whole."""

    __array_ufunc__ = None       # ndarray (op) Spec defers to Spec's reflected method

    def __init__(self, dom, polys, fshape):
        self.dom, self.fshape = dom, tuple(fshape)
        self.polys = polys if isinstance(polys, np.ndarray) else _obj0(polys)

    @property
    def shape(self):
        return self.fshape + tuple(self.polys.shape)

    @property
    def ndim(self):
        return 2 + self.polys.ndim

    def __repr__(self):
        return f"Spec{self.shape}[{self.polys.tolist()!r}]"

    def _other(self, o):
        if isinstance(o, Spec):
            if o.fshape != self.fshape:
                raise ModelError(f"operands could not be broadcast together with shapes {self.shape} {o.shape}")
            return o.polys
        if isinstance(o, Poly) or (is_number(o) and not isinstance(o, bool)):
            return _obj0(P(o))
        return None

    def _mk(self, polys):
        return Spec(self.dom, polys, self.fshape)

    def _bin(self, op, o, swapped=False):
        p = self._other(o)
        if p is None:
            return NotImplemented
        try:
            return self._mk(_ew(op, p, self.polys) if swapped else _ew(op, self.polys, p))
        except ValueError as e:          # batch axes do not broadcast
            raise ModelError(str(e))

    def __add__(self, o):
        return self._bin(lambda a, b: a + b, o)

    __radd__ = __add__

    def __sub__(self, o):
        return self._bin(lambda a, b: a - b, o)

    def __rsub__(self, o):
        return self._bin(lambda a, b: a - b, o, True)

    def __neg__(self):
        return self._mk(_ew(lambda a: -a, self.polys))

    def __mul__(self, o):
        return self._bin(lambda a, b: a * b, o)

    __rmul__ = __mul__

    def _inv(self, p):
        if p.is_zero():
            raise ModelError("division by zero")
        self.dom.inv_args[p.key()] = p
        # every division of the spectral algebra is logged with a certificate that the denominator cannot vanish at any
        # frequency; the value algebra below may cancel (H / H -> 1), the log is what the 'no division by a spectrum that
        # may vanish' clause reads
        self.dom.div_events.append((p, self.dom.poly_pos(p)))
        return p.inverse()

    def __truediv__(self, o):
        return self._bin(lambda a, b: a * self._inv(b), o)

    def __rtruediv__(self, o):
        return self._bin(lambda a, b: a * self._inv(b), o, True)

    def __pow__(self, e):
        if isinstance(e, Poly) and e.is_const():
            e = e.const_value()
        if not (is_number(e) and float(e) == int(e) and int(e) >= 0):
            raise Unsupported(f"power {e!r} of a spectrum")
        e = int(e)

        def one(p):
            s = p.as_single_atom()
            if e == 2 and s is not None and s[0] == 1 and s[2] == 1 and isinstance(s[1], tuple) and s[1][0] == "absS":
                inner = self.dom.abs_args[s[1][1]]
                return inner * self.dom.conj_poly(inner)       # |S|^2 = S conj(S)
            return p ** e
        return self._mk(_ew(one, self.polys))

    def __abs__(self):
        def one(p):
            self.dom.abs_args[p.key()] = p
            return Poly.atom(("absS", p.key()))
        return self._mk(_ew(one, self.polys))

    def conjugate(self):
        return self._mk(_ew(self.dom.conj_poly, self.polys))

    conj = conjugate

    # elementwise min / max with a scalar or another spectrum-shaped real array: a symbolic node
    # ('smax' | 'smin', key, key) that is NOT equal to either operand, unless one operand provably
    # dominates (difference syntactically non-negative, e.g. max(|H|^2 + lam, 0) with lam >= 0)
    def minmax(self, name, o):
        p = self._other(o)
        if p is None:
            raise Unsupported(f"np.{name}imum of a spectrum and a {type(o).__name__}")
        nn = self.dom.poly_nonneg

        def one(a, b):
            if nn(a - b):                      # a >= b everywhere
                return a if name == "max" else b
            if nn(b - a):
                return b if name == "max" else a
            ka, kb = sorted((a.key(), b.key()), key=repr)
            at = ("s" + name, ka, kb)
            self.dom.minmax_args[at] = (a, b)
            return Poly.atom(at)
        try:
            return self._mk(_ew(one, self.polys, p))
        except ValueError as e:
            raise ModelError(str(e))

    def _cmp(self, op, o):
        p = self._other(o)
        if p is None:
            return NotImplemented
        return SpecCond(self.dom, _ew(lambda a, b: (op, a.key(), b.key()), self.polys, p), self.fshape)

    def __lt__(self, o):
        return self._cmp("lt", o)

    def __le__(self, o):
        return self._cmp("le", o)

    def __gt__(self, o):
        return self._cmp("gt", o)

    def __ge__(self, o):
        return self._cmp("ge", o)

    def __eq__(self, o):
        return self._cmp("eq", o)

    def __ne__(self, o):
        return self._cmp("ne", o)

    __hash__ = object.__hash__

    def batch_index(self, idx):
        """numpy index on the logical array; the two frequency axes must be taken whole"""
        if not isinstance(idx, tuple):
            idx = (idx,)
        n_real = sum(1 for i in idx if i is not None and i is not Ellipsis)
        if sum(1 for i in idx if i is Ellipsis) > 1:
            raise ModelError("an index can only have a single ellipsis")
        if any(i is Ellipsis for i in idx):
            k = list(idx).index(Ellipsis)
            fill = self.ndim - n_real
            if fill < 0:
                raise ModelError("too many indices for array")
            idx = idx[:k] + (slice(None),) * fill + idx[k + 1:]
        full = slice(None)
        if len(idx) < 2 or not all(isinstance(i, slice) and i == full for i in idx[:2]):
            if len(idx) < 2 and all(isinstance(i, slice) and i == full for i in idx):
                return ()
            raise Unsupported("indexing into the frequency axes of a spectrum")
        return tuple(idx[2:])

    def __getitem__(self, idx):
        rest = self.batch_index(idx)
        try:
            r = self.polys[rest] if rest else self.polys
        except IndexError as e:
            raise ModelError(str(e))
        return type(self)(self.dom, r if isinstance(r, np.ndarray) else _obj0(r), self.fshape)


class SpecCond:
    """elementwise comparison of spectrum-shaped values: only usable as the condition of np.where"""

    __array_ufunc__ = None

    def __init__(self, dom, conds, fshape):
        self.dom, self.conds, self.fshape = dom, conds, tuple(fshape)

    def __bool__(self):
        raise Unsupported("truth value of an elementwise comparison of spectra")

    def _no(self, *a):
        raise Unsupported("boolean algebra on elementwise comparisons of spectra")

    __and__ = __or__ = __invert__ = __rand__ = __ror__ = __xor__ = _no


class ISpec(Spec):
    """ifft2 of a spectrum: a complex spatial array (same layout); only slicing of the batch axes
    and taking the real part are modelled."""

    def _bin(self, op, o, swapped=False):
        raise Unsupported("arithmetic on an un-materialised ifft2 result")

    def __neg__(self):
        raise Unsupported("arithmetic on an un-materialised ifft2 result")

    __pow__ = conjugate = conj = lambda self, *a: (_ for _ in ()).throw(
        Unsupported("operation on an un-materialised ifft2 result"))

    def part_array(self, tag):
        out = mk(self.shape, "real")
        for b in itertools.product(*[range(s) for s in self.polys.shape]):
            out[(slice(None), slice(None)) + b] = np.asarray(re_ifft2_array(self.polys[b], self.fshape, tag), dtype=object)
        return out

    def real_array(self):
        return self.part_array("re_ifft2")

    def imag_array(self):
        return self.part_array("im_ifft2")

    def __abs__(self):
        # the magnitude of the complex spatial array: a non-linear function of the data, equal to the real part only
        # for non-negative real results - a distinct label
        return self.part_array("abs_ifft2")


def re_ifft2_array(poly, shape, tag="re_ifft2"):
    out = mk(shape, "real")
    k = poly.key()
    for idx in itertools.product(*[range(s) for s in shape]):
        out[idx] = Poly.atom((tag, k) + idx)
    return out


class FftDomain(SymDomain):
    def __init__(self, **kw):
        super().__init__(**kw)
        self.inv_args = {}
        self.abs_args = {}
        self.fft_calls = []
        self.fftns = Namespace("numpy.fft", fft2=self.fft2, ifft2=self.ifft2, fftshift=self._shift(np.fft.fftshift, "fftshift"),
                               ifftshift=self._shift(np.fft.ifftshift, "ifftshift"))
        self.np.fft = self.fftns
        self.nonneg_atoms = {("lam",)}       # documented: lam >= 0
        self.pos_atoms = {("lam",)}          # the division clause is stated for lam > 0 (lam == 0: invertible blurs only)
        self.minmax_args = {}
        self.re_args = {}
        self.div_events = []
        self._spec_aware_np()

    SPEC_AWARE = {"conj", "conjugate", "abs", "absolute", "real", "imag"}

    def _spec_aware_np(self):
        """np.maximum / minimum / fmax / fmin / clip / where understand spectra; every other numpy model called with a
        spectrum operand is a clean Unsupported (never a Python TypeError from inside a model)."""
        ns = self.np.__dict__

        def has_spec(args, kw):
            return any(isinstance(x, (Spec, SpecCond)) for x in list(args) + list(kw.values()))

        def guard(name, f):
            def g(*a, **k):
                if has_spec(a, k):
                    raise Unsupported(f"np.{name} applied to a spectrum (outside the per-frequency algebra of the FFT model)")
                return f(*a, **k)
            g._wants_interp = getattr(f, "_wants_interp", False)
            return g

        def mm(name, orig):
            def f(a, b, **k):
                if not has_spec((a, b), {}):
                    return orig(a, b, **k)
                if k:
                    raise Unsupported(f"np.{name}imum on spectra with keyword arguments")
                sp, o = (a, b) if isinstance(a, Spec) else (b, a)
                if isinstance(sp, ISpec) or isinstance(o, (ISpec, SpecCond)) or not isinstance(sp, Spec):
                    raise Unsupported(f"np.{name}imum on an un-materialised ifft2 / a comparison")
                return sp.minmax(name, o)
            return f

        def clip(a, a_min=None, a_max=None, **k):
            if not has_spec((a, a_min, a_max), {}):
                return orig_clip(a, a_min, a_max, **k)
            if k or not isinstance(a, Spec) or isinstance(a, ISpec):
                raise Unsupported("np.clip on spectra: unsupported form")
            r = a
            if a_min is not None:
                r = r.minmax("max", a_min)
            if a_max is not None:
                r = r.minmax("min", a_max)
            return r

        def where(c, a=None, b=None):
            if not has_spec((c, a, b), {}):
                return orig_where(c, a, b) if a is not None or b is not None else orig_where(c)
            if not isinstance(c, SpecCond) or a is None or b is None:
                raise Unsupported("np.where on spectra: condition is not an elementwise comparison of spectra")
            ref = a if isinstance(a, Spec) else b
            if not isinstance(ref, Spec) or isinstance(ref, ISpec) or isinstance(a, ISpec) or isinstance(b, ISpec):
                raise Unsupported("np.where on spectra: branches must be spectra / scalars")
            if ref.fshape != c.fshape:
                raise ModelError("operands could not be broadcast together")
            pa, pb = ref._other(a), ref._other(b)
            if pa is None or pb is None:
                raise Unsupported("np.where on spectra: branch of unsupported type")

            def one(cc, x, y):
                return x if x.same(y) else Poly.atom(("swhere", cc, x.key(), y.key()))
            try:
                r = np.frompyfunc(one, 3, 1)(c.conds, pa, pb)
            except ValueError as e:
                raise ModelError(str(e))
            return ref._mk(r if isinstance(r, np.ndarray) else _obj0(r))

        orig_clip, orig_where = ns.get("clip"), ns.get("where")
        special = {"maximum": mm("max", ns.get("maximum")), "fmax": mm("max", ns.get("fmax")),
                   "minimum": mm("min", ns.get("minimum")), "fmin": mm("min", ns.get("fmin")), "clip": clip, "where": where}
        def wrap_ns(nsd, prefix, special):
            for name, f in list(nsd.items()):
                if name.startswith("_") or name in self.SPEC_AWARE:
                    continue
                if isinstance(f, Namespace):
                    if f is not self.fftns:
                        wrap_ns(f.__dict__, prefix + name + ".", {})
                elif name in special:
                    nsd[name] = special[name]
                elif callable(f) and not isinstance(f, type) and type(f).__name__ not in ("TypeModel", "DType"):
                    nsd[name] = guard(prefix + name, f)

        wrap_ns(ns, "", special)

    def poly_nonneg(self, p):
        """syntactic certificate that a real per-frequency expression is >= 0: every monomial has a positive coefficient
        and is a product of |F|^2-pairs (F^e Fc^e), |S| atoms, declared non-negative scalars (lam), inverses of
        non-negative expressions, and even powers of other real atoms"""
        for m, c in p.terms.items():
            if c < 0:
                return False
            exps = dict(m)
            for a, e in m:
                head = a[0] if isinstance(a, tuple) and a else None
                if head in ("F", "Fc"):
                    mate = ("Fc" if head == "F" else "F",) + a[1:]
                    if exps.get(mate) != e:
                        return False
                elif head == "absS" or a in self.nonneg_atoms:
                    continue
                elif head == "inv":
                    arg = self.inv_args.get(a[1])
                    if arg is None or not (self.poly_nonneg(arg) or e % 2 == 0):
                        return False
                elif head in ("smax", "smin") and a in self.minmax_args:
                    x, y = self.minmax_args[a]
                    ok = (self.poly_nonneg(x) or self.poly_nonneg(y)) if head == "smax" else (self.poly_nonneg(x) and self.poly_nonneg(y))
                    if not (ok or e % 2 == 0):
                        return False
                elif head in ("smax", "smin", "swhere", "re_ifft2", "sre", "sim") or e % 2 != 0:
                    return False
        return True

    def poly_pos(self, p):
        """syntactic certificate that a real per-frequency expression is > 0 at every frequency: non-negative, with at
        least one monomial that is strictly positive on its own (a positive constant, a power of a declared positive scalar
        such as lam, the inverse of a positive expression, a max with a positive operand)"""
        if not self.poly_nonneg(p):
            return False
        for m, c in p.terms.items():
            if c <= 0:
                continue
            if all(self._atom_pos(a) for a, _ in m):
                return True
        return False

    def _atom_pos(self, a):
        head = a[0] if isinstance(a, tuple) and a else None
        if a in self.pos_atoms:
            return True
        if head == "inv":
            arg = self.inv_args.get(a[1])
            return arg is not None and self.poly_pos(arg)
        if head in ("smax", "smin") and a in self.minmax_args:
            x, y = self.minmax_args[a]
            return (self.poly_pos(x) or self.poly_pos(y)) if head == "smax" else (self.poly_pos(x) and self.poly_pos(y))
        return False

    def spec_part(self, sp, which):
        """real / imaginary part of a frequency-domain array: the identity / zero on provably real (self-conjugate)
        expressions such as H conj(H), otherwise a distinct node"""
        def one(p):
            if self.conj_poly(p).same(p):
                return p if which == "re" else Poly.const(0)
            at = ("s" + which, p.key())
            self.re_args[at] = p
            return Poly.atom(at)
        return sp._mk(_ew(one, sp.polys))

    def compare(self, interp, op, a, b, node):
        if isinstance(a, (Spec, SpecCond)) or isinstance(b, (Spec, SpecCond)):
            if isinstance(a, (ISpec, SpecCond)) or isinstance(b, (ISpec, SpecCond)):
                raise Unsupported("comparison of an un-materialised ifft2 / of a comparison")
            r = op(a, b)
            if r is NotImplemented or not isinstance(r, SpecCond):
                raise Unsupported(f"comparison of a spectrum with a {type(b if isinstance(a, Spec) else a).__name__}")
            return r
        return super().compare(interp, op, a, b, node)

    def unop(self, interp, op, v, node):
        if isinstance(v, (Spec, SpecCond)):
            try:
                return op(v)
            except TypeError:
                raise Unsupported(f"unary operator {getattr(op, '__name__', op)} on a spectrum")
        return super().unop(interp, op, v, node)

    def truth(self, v):
        if isinstance(v, (Spec, SpecCond)):
            raise Unsupported("truth value of a spectrum")
        return super().truth(v)

    def ext_module(self, name):
        if name == "numpy.fft":
            return self.fftns
        return super().ext_module(name)

    @staticmethod
    def _shift(npf, name):
        """fftshift / ifftshift are pure index rolls (by n//2 / -(n//2) per axis): numpy's own implementation is applied
        to the label array, so the data movement is numpy's"""
        def f(x, axes=None):
            if isinstance(x, (Spec, SpecCond)):
                raise Unsupported(f"np.fft.{name} of a spectrum (outside the per-frequency algebra of the FFT model)")
            x = wrap(x)
            try:
                return wrap(npf(np.asarray(x, dtype=object), axes=axes), x.kind)
            except (ValueError, IndexError, TypeError) as e:
                raise ModelError(f"{name}: {e}")
        return f

    def F(self, x):
        return Poly.atom(("F", content_key(x)))

    @staticmethod
    def _leading_axes(axes, ndim, what):
        """the model covers 2-D transforms over the two LEADING axes, batch axes trailing"""
        if axes is None:
            axes = (-2, -1)
        try:
            ax = tuple(int(a) % ndim for a in axes)
        except (TypeError, ValueError):
            raise Unsupported(f"{what}: axes={axes!r}")
        if ax != (0, 1):
            raise Unsupported(f"{what} over axes {axes!r} of a {ndim}-d array (model: the two leading axes)")

    def fft2(self, x, s=None, axes=None, norm=None, **k):
        if s is not None or k or norm not in (None, "backward"):
            raise Unsupported("fft2 with s= / norm= / out= arguments")
        if isinstance(x, (Spec, ISpec)):
            raise Unsupported("fft2 of a spectrum / of an un-materialised ifft2")
        x = wrap(x)
        if x.ndim < 2 or x.kind != "real":
            raise Unsupported(f"fft2 of a {x.kind} array with ndim {x.ndim}")
        self._leading_axes(axes, x.ndim, "fft2")
        self.fft_calls.append(("fft2", x))
        polys = np.empty(x.shape[2:], dtype=object)
        for b in itertools.product(*[range(n) for n in x.shape[2:]]):
            polys[b] = self.F(x[(slice(None), slice(None)) + b])
        return Spec(self, polys, x.shape[:2])

    def ifft2(self, sp, s=None, axes=None, norm=None, **k):
        if s is not None or k or norm not in (None, "backward"):
            raise Unsupported("ifft2 with s= / norm= / out= arguments")
        if not isinstance(sp, Spec) or isinstance(sp, ISpec):
            raise Unsupported("ifft2 of a value that is not a spectrum expression")
        self._leading_axes(axes, sp.ndim, "ifft2")
        self.fft_calls.append(("ifft2", sp))
        return ISpec(self, sp.polys, sp.fshape)

    def conj_poly(self, p):
        mapping = {}
        for a in p.atoms():
            if isinstance(a, tuple) and a and a[0] == "F":
                mapping[a] = Poly.atom(("Fc",) + a[1:])
            elif isinstance(a, tuple) and a and a[0] == "Fc":
                mapping[a] = Poly.atom(("F",) + a[1:])
            elif isinstance(a, tuple) and a and a[0] == "inv":
                arg = self.inv_args.get(a[1])
                if arg is None:
                    raise Unsupported("conjugate of an unregistered inverse")
                c = self.conj_poly(arg)
                self.inv_args[c.key()] = c
                mapping[a] = c.inverse()
            # every other atom is a real scalar (lam, |S|, labels): invariant
        return p.subs(mapping) if mapping else p

    # numpy functions that must understand spectra
    def np_real(self, a):
        if isinstance(a, ISpec):
            return a.real_array()
        if isinstance(a, Spec):
            return self.spec_part(a, "re")
        return super().np_real(a)

    def np_imag(self, a):
        if isinstance(a, ISpec):
            return a.imag_array()
        if isinstance(a, Spec):
            return self.spec_part(a, "im")
        return super().np_imag(a)

    def getattr(self, interp, obj, attr, node=None):
        if isinstance(obj, Spec):
            if attr == "shape":
                return obj.shape
            if attr == "ndim":
                return obj.ndim
            if attr in ("real", "imag"):
                return self.np_real(obj) if attr == "real" else self.np_imag(obj)
            if attr in ("conj", "conjugate") and not isinstance(obj, ISpec):
                return obj.conjugate
            raise Unsupported(f"attribute {attr!r} of a spectrum")
        return super().getattr(interp, obj, attr, node)

    def getitem(self, interp, obj, idx, node):
        if isinstance(obj, Spec):
            return obj[self._conv_index(idx)]
        return super().getitem(interp, obj, idx, node)

    def setitem(self, interp, obj, idx, v, node):
        if isinstance(v, Spec):
            raise Unsupported("store of a complex spectrum / un-materialised ifft2 into an array")
        return super().setitem(interp, obj, idx, v, node)


def fft_interp(ctx, chooser=None):
    d = FftDomain()
    it = Interp(ctx.program, d, chooser=chooser)
    d._interp = it
    return it, d


# ==============================================================================================
# references (from the definition of centred circular convolution)
# ==============================================================================================

def ref_pad(k, H, W):
    kH, kW = k.shape
    out = mk((H, W), "real")
    for u in range(kH):
        for v in range(kW):
            i, j = (u - kH // 2) % H, (v - kW // 2) % W
            out[i, j] = out[i, j] + k[u, v]
    return out


def ref_operator(k, H, W):
    """(A x)[i,j] = sum_{u,v} k[u,v] x[(i-(u-cH)) mod H, (j-(v-cW)) mod W], vec order i*W+j"""
    kH, kW = k.shape
    cH, cW = kH // 2, kW // 2
    N = H * W
    A = mk((N, N), "real")
    for i in range(H):
        for j in range(W):
            for u in range(kH):
                for v in range(kW):
                    i2, j2 = (i - (u - cH)) % H, (j - (v - cW)) % W
                    A[i * W + j, i2 * W + j2] = A[i * W + j, i2 * W + j2] + k[u, v]
    # the same operator written with the padded kernel: A[p,q] = pad[(p-q) mod (H,W)]
    pad = ref_pad(k, H, W)
    for i in range(H):
        for j in range(W):
            for i2 in range(H):
                for j2 in range(W):
                    if not P(A[i * W + j, i2 * W + j2]).same(pad[(i - i2) % H, (j - j2) % W]):
                        raise AnalysisError("internal: the two forms of the reference operator disagree")
    return A


# ==============================================================================================
# D5: flow check "the returned array was divided by its own sum after its last other store"
# ==============================================================================================

MUTATING_METHODS = {"fill", "sort", "resize", "put", "itemset", "partition", "setfield", "clip"}
MUTATING_FUNCS = {"fill_diagonal", "put", "copyto", "place", "putmask", "put_along_axis"}


class _St:
    __slots__ = ("ver", "norm", "sums", "zero")

    def __init__(self, ver=0, norm=False, sums=None, zero=False):
        self.ver, self.norm, self.sums, self.zero = ver, norm, dict(sums or {}), zero

    def copy(self):
        return _St(self.ver, self.norm, self.sums, self.zero)


class NormFlow:
    """Abstract execution of one function body, path by path, tracking for the returned array
    variable v: a version counter (incremented by every store), whether the current version is
    'its previous version divided by its own total sum', which local names hold v.sum() of the
    current version, and whether the current version is known to be all zero (branch of a test
    sum == 0 / not sum > 0; entries are non-negative counts - stated as an assumption)."""

    def __init__(self, fi):
        self.fi = fi
        self.counter = itertools.count(1)
        names = set()
        for n in ast.walk(fi.node):
            if isinstance(n, ast.Return) and n.value is not None:
                if isinstance(n.value, ast.Name):
                    names.add(n.value.id)
                elif self._self_normalised_expr(n.value) is None:
                    raise Unsupported(f"{fi.where}: return of an expression that is not a local array name")
        if len(names) > 1:
            raise Unsupported(f"{fi.where}: several different returned names")
        self.v = names.pop() if names else None
        self.returns = []          # (node, ok, description)

    # -- expression recognisers
    def _is_v(self, e):
        return isinstance(e, ast.Name) and e.id == self.v

    def _sum_of_v(self, e, st=None):
        """e denotes the total sum of the current version of v"""
        if isinstance(e, ast.Call) and not e.keywords:
            f = e.func
            if isinstance(f, ast.Attribute) and f.attr == "sum" and self._is_v(f.value) and not e.args:
                return True
            if isinstance(f, ast.Attribute) and f.attr == "sum" and isinstance(f.value, ast.Name) and f.value.id in ("np", "numpy") \
                    and len(e.args) == 1 and self._is_v(e.args[0]):
                return True
        if st is not None and isinstance(e, ast.Name) and st.sums.get(e.id) == st.ver:
            return True
        return False

    @staticmethod
    def _self_normalised_expr(e):
        """`X / X.sum()` or `X / np.sum(X)` for a name X -> X"""
        if isinstance(e, ast.BinOp) and isinstance(e.op, ast.Div) and isinstance(e.left, ast.Name):
            x = e.left.id
            r = e.right
            if isinstance(r, ast.Call) and not r.keywords and isinstance(r.func, ast.Attribute) and r.func.attr == "sum":
                if isinstance(r.func.value, ast.Name) and r.func.value.id == x and not r.args:
                    return x
                if isinstance(r.func.value, ast.Name) and r.func.value.id in ("np", "numpy") and len(r.args) == 1 \
                        and isinstance(r.args[0], ast.Name) and r.args[0].id == x:
                    return x
        return None

    @staticmethod
    def _const(e):
        if isinstance(e, ast.Constant) and isinstance(e.value, (int, float)) and not isinstance(e.value, bool):
            return float(e.value)
        return None

    def _stores_v(self, stmts):
        for s in stmts:
            for n in ast.walk(s):
                if isinstance(n, (ast.Assign, ast.AugAssign, ast.AnnAssign)):
                    tg = n.targets if isinstance(n, ast.Assign) else [n.target]
                    for t in tg:
                        for x in ast.walk(t):
                            if self._is_v(x):
                                return True
                if isinstance(n, ast.Call) and self._call_mutates(n):
                    return True
        return False

    def _call_mutates(self, c):
        f = c.func
        if isinstance(f, ast.Attribute) and self._is_v(f.value) and f.attr in MUTATING_METHODS:
            return True
        if isinstance(f, ast.Attribute) and f.attr in MUTATING_FUNCS and any(self._is_v(a) for a in c.args[:1]):
            return True
        if any(k.arg == "out" and any(self._is_v(x) for x in ast.walk(k.value)) for k in c.keywords):
            return True
        return False

    # -- statements
    def store(self, st, norm=False):
        st.ver = next(self.counter)
        st.norm = norm
        st.zero = False
        st.sums = {}

    def run(self):
        for st in self.block(self.fi.node.body, [_St()]):
            pass
        return self.returns

    def block(self, stmts, states):
        for s in stmts:
            nxt = []
            for st in states:
                nxt.extend(self.stmt(s, st))
            states = nxt
            if len(states) > 256:
                raise Unsupported(f"{self.fi.where}: too many paths")
        return states

    def stmt(self, s, st):
        if isinstance(s, ast.Return):
            if s.value is None:
                self.returns.append((s, False, "returns None"))
            elif isinstance(s.value, ast.Name):
                self.returns.append((s, st.norm, "returned array divided by its own sum" if st.norm else
                                     "the last store to the returned array is not a division by its own sum"))
            else:
                self.returns.append((s, True, "returns X / X.sum()"))
            return []
        if isinstance(s, ast.Raise):
            return []
        if isinstance(s, (ast.Pass, ast.Import, ast.ImportFrom, ast.Assert, ast.Global, ast.Nonlocal)):
            return [st]
        if isinstance(s, ast.Expr):
            for n in ast.walk(s.value):
                if isinstance(n, ast.Call) and self._call_mutates(n):
                    self.store(st)
            return [st]
        if isinstance(s, ast.AnnAssign):
            if s.value is None:
                return [st]
            s = ast.Assign(targets=[s.target], value=s.value)
        if isinstance(s, ast.Assign):
            for n in ast.walk(s.value):
                if isinstance(n, ast.Call) and self._call_mutates(n):
                    self.store(st)
            for t in s.targets:
                if self._is_v(t):
                    v = s.value
                    ok = isinstance(v, ast.BinOp) and isinstance(v.op, ast.Div) and self._is_v(v.left) and self._sum_of_v(v.right, st)
                    self.store(st, norm=ok)
                elif isinstance(t, ast.Subscript) and self._is_v(t.value):
                    idx = t.slice.elts if isinstance(t.slice, ast.Tuple) else [t.slice]
                    single = not any(isinstance(i, (ast.Slice, ast.Constant)) and (isinstance(i, ast.Slice) or i.value is Ellipsis)
                                     for i in idx) and not any(isinstance(i, (ast.List, ast.Tuple)) for i in idx)
                    unit = st.zero and single and self._const(s.value) == 1.0
                    self.store(st, norm=unit)
                elif isinstance(t, ast.Name):
                    if self._sum_of_v(s.value):
                        st.sums[t.id] = st.ver
                    else:
                        st.sums.pop(t.id, None)
                else:
                    for x in ast.walk(t):
                        if self._is_v(x):
                            self.store(st)
                        elif isinstance(x, ast.Name):
                            st.sums.pop(x.id, None)
            return [st]
        if isinstance(s, ast.AugAssign):
            t = s.target
            if self._is_v(t):
                ok = isinstance(s.op, ast.Div) and self._sum_of_v(s.value, st)
                self.store(st, norm=ok)
            elif isinstance(t, ast.Subscript) and self._is_v(t.value):
                self.store(st)
            elif isinstance(t, ast.Name):
                st.sums.pop(t.id, None)
            return [st]
        if isinstance(s, ast.If):
            a, b = st.copy(), st.copy()
            fact = self._sum_test(s.test, st)
            if fact == "true-means-zero":
                a.zero = True
            elif fact == "false-means-zero":
                b.zero = True
            return self.block(s.body, [a]) + self.block(s.orelse, [b])
        if isinstance(s, (ast.For, ast.While)):
            out = [st.copy()]                      # zero iterations
            inner = st.copy()
            if self._stores_v(s.body):
                self.store(inner)
            for n in ast.walk(s):                  # names assigned in the loop are no longer sum aliases
                if isinstance(n, ast.Name) and isinstance(n.ctx, ast.Store):
                    inner.sums.pop(n.id, None)
                    out[0].sums.pop(n.id, None)
            after = self.block(s.body, [inner])
            for x in after:
                if self._stores_v(s.body):
                    self.store(x)
            return self.block(s.orelse, out + after) if s.orelse else out + after
        if isinstance(s, ast.With):
            return self.block(s.body, [st])
        if isinstance(s, (ast.FunctionDef, ast.ClassDef)):
            return [st]
        raise Unsupported(f"{self.fi.where}: statement {type(s).__name__} outside the subset of the normalisation flow check")

    def _sum_test(self, test, st):
        if isinstance(test, ast.UnaryOp) and isinstance(test.op, ast.Not):
            r = self._sum_test(test.operand, st)
            return {"true-means-zero": "false-means-zero", "false-means-zero": "true-means-zero"}.get(r)
        if not (isinstance(test, ast.Compare) and len(test.ops) == 1):
            return None
        l, op, r = test.left, test.ops[0], test.comparators[0]
        if self._sum_of_v(l, st) and self._const(r) == 0.0:
            pass
        elif self._sum_of_v(r, st) and self._const(l) == 0.0:
            op = {ast.Gt: ast.Lt, ast.Lt: ast.Gt, ast.GtE: ast.LtE, ast.LtE: ast.GtE}.get(type(op), type(op))()
        else:
            return None
        if isinstance(op, (ast.Gt, ast.NotEq)):
            return "false-means-zero"
        if isinstance(op, (ast.LtE, ast.Eq)):
            return "true-means-zero"
        return None


# ==============================================================================================
def run(ctx):
    prog = ctx.program
    f_pad = prog.func("qslst", "_pad_psf")
    f_blur = prog.func("qslst", "apply_blur_fft")
    f_rfft = prog.func("qslst", "qslst_restore_fft")
    f_rmat = prog.func("qslst", "qslst_restore_matrix")
    f_gauss = prog.func("qslst", "build_psf_gaussian")
    f_motion = prog.func("qslst", "build_psf_motion")
    f_dense = prog.func("app.script_image_deblurring", "_build_bccb_matrix")
    f_csr = prog.func("app.script_image_deblurring", "_build_bccb_csr")
    for f in (f_pad, f_blur, f_rfft, f_rmat, f_gauss, f_motion, f_dense, f_csr):
        ctx.touch(f)
    ctx.assume("python ast reflects the code that runs",
               "numpy indexing / roll / reshape / stack semantics are numpy's own (object arrays of symbolic labels)",
               "convolution theorem (library fact): ifft2(fft2(x) * fft2(h)) is the circular convolution of x with h",
               "np.linalg.pinv returns the Moore-Penrose pseudo-inverse of its argument (labelled output)",
               "the 'no division by a spectrum that may vanish' clause is stated for lam > 0 (documented regularised use); "
               "for lam == 0 the property only speaks about invertible blurs",
               "scipy.sparse.csr_matrix((data,(rows,cols))) sums duplicate entries",
               "bounded-exhaustive: D1/D4 verdicts hold for the stated image/kernel size box",
               "build_psf_motion: tap counts are non-negative, so 'sum is not > 0' means the array is all zero")

    # ------------------------------------------------------------------ D1 padding
    hmax = 6 if ctx.thorough else 5
    ctx.notes["pad_box"] = f"H,W <= {hmax}, every kernel kH <= H, kW <= W"
    it, d = fft_interp(ctx)
    n_pad = 0
    for H in range(1, hmax + 1):
        for W in range(1, hmax + 1):
            for kH in range(1, H + 1):
                for kW in range(1, W + 1):
                    k = sym_real("k", (kH, kW))
                    st, out = run_guarded(lambda: it.run(f_pad, [k, (H, W)]))
                    ref = ref_pad(k, H, W)
                    ok = st == "ok" and isinstance(out, SymArr) and arrays_same(out, ref)
                    n_pad += 1
                    det = None
                    if not ok:
                        if st == "ok" and isinstance(out, SymArr) and out.shape == ref.shape:
                            idx, got, want = first_diff(out, ref)
                            det = f"image {H}x{W}, kernel {kH}x{kW}: entry {idx} holds {got!r}, the definition puts {want!r} there"
                        else:
                            det = f"image {H}x{W}, kernel {kH}x{kW}: {st} {short(out, 200)}"
                    ctx.ob(R_PAD, f"_pad_psf image {H}x{W} kernel {kH}x{kW}", ok,
                           "tap (u,v) does not land at ((u - kH//2) mod H, (v - kW//2) mod W) (PSF not centred for the FFT)",
                           where=f_pad.where, construct="_pad_psf: tap placement differs from centred circular placement",
                           loc=f_pad.loc(), detail=det)
    ctx.require_instances(R_PAD, 225)

    # ------------------------------------------------------------------ D4 builders
    bmax = 5 if ctx.thorough else 4
    ctx.notes["builder_box"] = f"H,W <= {bmax}, every kernel kH <= H, kW <= W, generic (asymmetric) taps"

    def true_chooser(interp, node, cond):
        return True        # `psf[du,dv] != 0.0` on a symbolic tap: treat every tap as present

    itb, db = fft_interp(ctx, chooser=true_chooser)
    for H in range(1, bmax + 1):
        for W in range(1, bmax + 1):
            for kH in range(1, H + 1):
                for kW in range(1, W + 1):
                    k = sym_real("k", (kH, kW))
                    ref = ref_operator(k, H, W)
                    for f, nm in ((f_dense, "dense"), (f_csr, "csr")):
                        st, out = run_guarded(lambda: itb.run(f, [k, H, W]))
                        ok = st == "ok" and isinstance(out, SymArr) and arrays_same(out, ref) and (out.sparse == (nm == "csr"))
                        det = None
                        if not ok:
                            if st == "ok" and isinstance(out, SymArr) and out.shape == ref.shape:
                                fd = first_diff(out, ref)
                                if fd is None:
                                    det = f"image {H}x{W}, kernel {kH}x{kW}: storage kind (sparse={out.sparse})"
                                else:
                                    (p, q), got, want = fd
                                    det = (f"image {H}x{W}, kernel {kH}x{kW}: A[({p // W},{p % W}),({q // W},{q % W})] is {got!r}, "
                                           f"convolution with the centred kernel has {want!r}")
                            else:
                                det = f"image {H}x{W}, kernel {kH}x{kW}: {st} {short(out, 200)}"
                        ctx.ob(R_BLD, f"{f.name} image {H}x{W} kernel {kH}x{kW}", ok,
                               "builder does not represent centred circular convolution A[p,q] = pad[(p-q) mod (H,W)] "
                               "(the operator of the FFT path)", where=f.where,
                               construct=f"{f.name}: operator differs from centred circular convolution", loc=f.loc(), detail=det)
    ctx.require_instances(R_BLD, 2 * 100)

    # ------------------------------------------------------------------ D2 FFT paths
    lam = Poly.atom(("lam",))
    fft_cases = [((2, 2), (2, 2)), ((2, 3), (1, 2)), ((3, 2), (3, 1))] + ([((3, 3), (2, 3)), ((1, 4), (1, 3)), ((4, 4), (3, 3))]
                                                                         if ctx.thorough else [])
    for (H, W), (kH, kW) in fft_cases:
        k = sym_real("k", (kH, kW))
        itf, df = fft_interp(ctx)
        st, padI = run_guarded(lambda: itf.run(f_pad, [k, (H, W)]))
        if st != "ok" or not isinstance(padI, SymArr) or padI.shape != (H, W):
            padI = ref_pad(k, H, W)
        Hh = df.F(padI)
        Hc = df.conj_poly(Hh)
        cfg = f"image {H}x{W} kernel {kH}x{kW}"

        def describe(p, df=df, Hh=Hh, Hc=Hc):
            names = {}
            for a in p.atoms():
                if Poly.atom(a).same(Hh):
                    names[a] = Poly.atom("H")
                elif Poly.atom(a).same(Hc):
                    names[a] = Poly.atom("conj(H)")
                elif isinstance(a, tuple) and a and a[0] in ("F", "Fc"):
                    names[a] = Poly.atom("F(data)" if a[0] == "F" else "conj(F(data))")
                elif isinstance(a, tuple) and a and a[0] == "absS":
                    names[a] = Poly.atom("|" + describe(df.abs_args[a[1]]) + "|") if a[1] in df.abs_args else Poly.atom("|.|")
            return short(p.subs(names) if names else p, 160)

        def division_clause(f, cfg, df=df):
            """no division by a spectrum that may vanish: exact zeros of the transfer function are in the domain (box /
            motion kernels whose length divides the image size), and 0 * (B / 0) is NaN for the whole image"""
            bad = [p for (p, ok) in df.div_events if not ok]
            ctx.ob(R_FFT, f"{f.name}: every spectral division has a denominator that cannot vanish (lam > 0) [{cfg}]", not bad,
                   "a per-frequency division has a denominator that vanishes at a spectral zero of the PSF (not bounded away "
                   "from zero by lam): NaN/inf at exact zeros of the transfer function although the Tikhonov system is "
                   "uniquely solvable", where=f.where, construct=f"{f.name}: division by a spectrum that may vanish",
                   loc=f.loc(), detail=f"{cfg}: {len(bad)} of {len(df.div_events)} division(s); first denominator: "
                                       f"{describe(bad[0]) if bad else None}")

        # ---- blur
        Q = sym_real("q", (H, W, 4))
        Q0 = Q.copy()
        del df.div_events[:]
        st, out = run_guarded(lambda: itf.run(f_blur, [Q, k]))
        division_clause(f_blur, cfg)
        okshape = st == "ok" and isinstance(out, SymArr) and out.shape == (H, W, 4)
        ctx.ob(R_FFT, f"apply_blur_fft returns (H,W,4) [{cfg}]", okshape, f"blur fails / wrong shape: {short(out, 200)}",
               where=f_blur.where, construct="apply_blur_fft: result shape", loc=f_blur.loc())
        for c in range(4):
            ref = re_ifft2_array(df.F(Q0[..., c]) * Hh, (H, W))
            ok = okshape and arrays_same(out[..., c], ref)
            ctx.ob(R_FFT, f"apply_blur_fft channel {c} = real(ifft2(F(Q_c) F(pad))) [{cfg}]", ok,
                   "blurred channel is not the circular convolution of that channel with the padded PSF (same spectrum for "
                   "all channels, no cross-channel term)", where=f_blur.where,
                   construct=f"apply_blur_fft: channel {c} is not F(Q_{c}) * F(pad)", loc=f_blur.loc(),
                   detail=f"{cfg}: entry (0,0,{c}) = {short(out[0, 0, c], 300) if okshape else out}")
        ctx.ob(R_FFT, f"apply_blur_fft leaves its input unchanged [{cfg}]", arrays_same(Q, Q0), "apply_blur_fft modifies Q",
               where=f_blur.where, construct="apply_blur_fft: input modified", loc=f_blur.loc())
        st, out = run_guarded(lambda: itf.run(f_blur, [Q, k], {"boundary": "reflect"}))
        ctx.ob(R_FFT, f"apply_blur_fft refuses a non-periodic boundary [{cfg}]", st == "raise" and out.exc_name == "AssertionError",
               "a boundary condition other than 'periodic' is accepted by the BCCB/FFT path", where=f_blur.where,
               construct="apply_blur_fft: boundary not checked", loc=f_blur.loc())
        # ---- restoration
        B = sym_real("b", (H, W, 4))
        B0 = B.copy()
        del df.div_events[:]
        st, out = run_guarded(lambda: itf.run(f_rfft, [B, k, lam]))
        division_clause(f_rfft, cfg)
        okshape = st == "ok" and isinstance(out, SymArr) and out.shape == (H, W, 4)
        ctx.ob(R_FFT, f"qslst_restore_fft returns (H,W,4) [{cfg}]", okshape, f"restoration fails / wrong shape: {short(out, 200)}",
               where=f_rfft.where, construct="qslst_restore_fft: result shape", loc=f_rfft.loc())
        den = Hh * Hc + lam
        df.inv_args[den.key()] = den
        for c in range(4):
            ref = re_ifft2_array(Hc * df.F(B0[..., c]) * den.inverse(), (H, W))
            ok = okshape and arrays_same(out[..., c], ref)
            ctx.ob(R_FFT, f"qslst_restore_fft channel {c}: X (|H|^2 + lam) = conj(H) B_c [{cfg}]", ok,
                   "restored channel is not conj(H) F(B_c) / (H conj(H) + lam): the Tikhonov normal equations of the blur "
                   "operator are not solved", where=f_rfft.where,
                   construct=f"qslst_restore_fft: channel {c} is not conj(H) B_{c} / (|H|^2 + lam)", loc=f_rfft.loc(),
                   detail=f"{cfg}: entry (0,0,{c}) = {short(out[0, 0, c], 400) if okshape else out}")
        ctx.ob(R_FFT, f"qslst_restore_fft leaves its input unchanged [{cfg}]", arrays_same(B, B0), "qslst_restore_fft modifies Bq",
               where=f_rfft.where, construct="qslst_restore_fft: input modified", loc=f_rfft.loc())
        st, out = run_guarded(lambda: itf.run(f_rfft, [B, k, lam], {"boundary": "reflect"}))
        ctx.ob(R_FFT, f"qslst_restore_fft refuses a non-periodic boundary [{cfg}]", st == "raise" and out.exc_name == "AssertionError",
               "a boundary condition other than 'periodic' is accepted by the BCCB/FFT path", where=f_rfft.where,
               construct="qslst_restore_fft: boundary not checked", loc=f_rfft.loc())
    ctx.require_instances(R_FFT, 3 * 16)

    # ------------------------------------------------------------------ D3 matrix path
    mat_cases = [(1, 1), (1, 2), (2, 1), (2, 2), (2, 3)] + ([(3, 2), (3, 3), (1, 4)] if ctx.thorough else [])
    for (H, W) in mat_cases:
        N = H * W
        A = sym_real("A", (N, N))
        B = sym_real("b", (H, W, 4))
        AtA = mk((N, N), "real")
        for p in range(N):
            for q in range(N):
                s = Poly.const(0)
                for r in range(N):
                    s = s + A[r, p] * A[r, q]
                AtA[p, q] = s

        def one_path(chooser):
            log = []

            def ch(interp, node, cond):
                r = chooser(interp, node, cond)
                log.append((getattr(cond, "why", None), r))
                return r

            itm, dm = fft_interp(ctx, chooser=ch)
            out = itm.run(f_rmat, [B.copy(), A.copy(), lam])
            return out, list(dm.events), log

        def assumes_lam_zero(log):
            """a decided condition on this path that implies lam == 0 (`lam != 0` false, `lam == 0` true, ...)"""
            for why, r in log:
                if isinstance(why, tuple) and len(why) == 3 and isinstance(why[1], Poly) and isinstance(why[2], Poly):
                    d = why[1] - why[2]
                    if d.same(lam) or d.same(-lam):
                        if (why[0] == "ne" and not r) or (why[0] == "eq" and r):
                            return True
                        if why[0] in ("ne", "eq"):
                            continue
                raise Unsupported(f"qslst_restore_matrix: data dependent condition outside the model: {why!r}")
            return False

        res = PathExplorer().explore(one_path)
        generic = [1 for _, o in res if o[0] == "ok" and not assumes_lam_zero(o[1][2])]
        ctx.ob(R_MAT, f"every path returns; a path for lam != 0 exists [{H}x{W}]", all(o[0] == "ok" for _, o in res) and bool(generic),
               f"unexpected paths / failures: {[(t, o[0], short(o[1], 120)) for t, o in res]}", where=f_rmat.where,
               construct="qslst_restore_matrix: paths", loc=f_rmat.loc())
        for taken, (status, val) in res:
            if status != "ok":
                continue
            X, events, log = val
            lam_nonzero = not assumes_lam_zero(log)
            path = "lam != 0" if lam_nonzero else "lam == 0"
            pinvs = [e for e in events if e[0] == "pinv"]
            Tref = AtA.copy()
            if lam_nonzero:
                for p in range(N):
                    Tref[p, p] = Tref[p, p] + lam
            okT = len(pinvs) == 1 and arrays_same(pinvs[0][2], Tref)
            ctx.ob(R_MAT, f"pinv argument is A^T A + lam I [{H}x{W}, {path}]", okT,
                   "the pseudo-inverse is not taken of T = A^T A + lam I", where=f_rmat.where,
                   construct="qslst_restore_matrix: pinv argument is not A^T A + lam I", loc=f_rmat.loc(),
                   detail=f"{H}x{W} {path}: {len(pinvs)} pinv call(s); first difference {short(first_diff(pinvs[0][2], Tref), 300) if pinvs else None}")
            if len(pinvs) != 1:
                continue
            tag = pinvs[0][1]
            Tp = [[Poly.atom(("lapack", f"pinv{tag}", r, q)) for q in range(N)] for r in range(N)]
            okshape = isinstance(X, SymArr) and X.shape == (H, W, 4)
            for c in range(4):
                ref = mk((H, W), "real")
                e = []
                for q in range(N):
                    s = Poly.const(0)
                    for p in range(N):
                        s = s + A[p, q] * B[p // W, p % W, c]
                    e.append(s)
                for r in range(N):
                    s = Poly.const(0)
                    for q in range(N):
                        s = s + Tp[r][q] * e[q]
                    ref[r // W, r % W] = s
                ok = okshape and arrays_same(X[..., c], ref)
                ctx.ob(R_MAT, f"channel {c}: x = T^+ (A^T vec(B_c)), vec order i*W+j, un-vec inverse [{H}x{W}, {path}]", ok,
                       "restored channel is not T^+ A^T vec(B_c) reshaped with the builders' vec order (or channels mix)",
                       where=f_rmat.where, construct=f"qslst_restore_matrix: channel {c} is not T^+ A^T b_{c}",
                       loc=f_rmat.loc(), detail=f"{H}x{W} {path}: {short(first_diff(X[..., c], ref), 300) if okshape else short(X, 100)}")
        # operator-size assertion
        itm, dm = fft_interp(ctx, chooser=lambda i, n, c: True)
        for shp in ((N, N + 1), (N + 1, N + 1), (N + 1, N)):
            st, out = run_guarded(lambda: itm.run(f_rmat, [B.copy(), sym_real("A", shp), lam]))
            ctx.ob(R_MAT, f"operator of shape {shp} refused for a {H}x{W} image", st == "raise" and out.exc_name == "AssertionError",
                   "an operator whose shape is not (H*W, H*W) is accepted", where=f_rmat.where,
                   construct="qslst_restore_matrix: operator size not checked", loc=f_rmat.loc(), detail=f"{st} {short(out, 100)}")
    ctx.require_instances(R_MAT, 5 * (1 + 5 + 3))

    # ------------------------------------------------------------------ D5 normalisation
    for f, minpaths in ((f_gauss, 1), (f_motion, 2)):
        rets = NormFlow(f).run()
        if len(rets) < minpaths:
            raise AnalysisError(f"{f.where}: {len(rets)} return path(s) found, expected at least {minpaths}")
        for k_, (node, ok, why) in enumerate(rets):
            ctx.ob(R_NORM, f"{f.name} return path {k_}: {why}", ok,
                   "a path returns the PSF without dividing it by its own sum (total mass not preserved)", where=f.where,
                   construct=f"{f.name}: returned PSF not normalised on some path", loc=f.loc(node), detail=why)
    ctx.require_instances(R_NORM, 3)
