"""Helpers shared by the rule modules."""
from __future__ import annotations

import itertools

import numpy as np

from qstatic.alg import Poly, SQ, SC, P, hamilton
from qstatic.dom_sym import SymDomain, SymArr, sym_quat, sym_real, mk, arrays_same, first_diff, wrap
from qstatic.interp import Interp, Instance, ClassRef, ModelError, RepoRaise, NeedChoice, Unsupported
from qstatic.src import AnalysisError


def new_interp(ctx, chooser=None, choice=None, summaries=None, **kw):
    d = SymDomain(choice=choice)
    it = Interp(ctx.program, d, chooser=chooser, summaries=summaries, **kw)
    d._interp = it
    from qstatic.scenario import default_choice
    it.default_chooser = default_choice
    return it, d


def sparse_from_dense(it, ctx, A):
    """Build a SparseQuaternionMatrix instance from a dense symbolic quaternion array by
    interpreting the repository constructor."""
    ci = ctx.program.cls("utils", "SparseQuaternionMatrix")
    planes = []
    for p in range(4):
        pl = mk(A.shape, "real", sparse=True)
        for idx in itertools.product(*[range(s) for s in A.shape]):
            pl[idx] = A[idx].c[p]
        planes.append(pl)
    return it.call(ClassRef(ci), planes + [tuple(A.shape)], {})


def dense_from_any(v):
    """Quaternion SymArr from a dense quaternion SymArr or a SparseQuaternionMatrix instance."""
    if isinstance(v, Instance):
        pl = [v.attrs[n] for n in ("real", "i", "j", "k")]
        shape = pl[0].shape
        out = mk(shape, "quat")
        for idx in itertools.product(*[range(s) for s in shape]):
            out[idx] = SQ(*[pl[p][idx] for p in range(4)])
        return out, tuple(v.attrs.get("shape", shape))
    return v, tuple(v.shape)


def planes_of(A):
    out = []
    for p in range(4):
        pl = mk(A.shape, "real")
        for idx in itertools.product(*[range(s) for s in A.shape]):
            pl[idx] = A[idx].c[p]
        out.append(pl)
    return out


def quat_from_planes(pl):
    pl = [wrap(x) for x in pl]
    shape = pl[0].shape
    out = mk(shape, "quat")
    for idx in itertools.product(*[range(s) for s in shape]):
        out[idx] = SQ(*[pl[p][idx] for p in range(4)])
    return out


def ref_matmul(A, B):
    """Definition C_ij = sum_k A_ik * B_kj with the Hamilton product (oracle)."""
    m, k = A.shape
    k2, n = B.shape
    assert k == k2
    out = mk((m, n), "quat")
    for i in range(m):
        for j in range(n):
            s = SQ()
            for t in range(k):
                s = s + A[i, t] * B[t, j]
            out[i, j] = s
    return out


def ref_hermitian(A):
    m, n = A.shape
    out = mk((n, m), "quat")
    for i in range(m):
        for j in range(n):
            out[j, i] = A[i, j].conjugate()
    return out


def ref_fro2(A):
    s = Poly.const(0)
    for q in A.reshape(-1):
        s = s + q.norm2()
    return s


def run_guarded(fn):
    """Run fn(); map interpreter outcomes to (status, value)."""
    try:
        return "ok", fn()
    except RepoRaise as e:
        return "raise", e
    except ModelError as e:
        return "model_error", e


def short(x, n=300):
    s = repr(x)
    return s if len(s) <= n else s[: n - 3] + "..."
