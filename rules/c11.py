"""C11 - rank, null spaces, determinants.

Decided clauses (DESIGN section 4, C11):
  D1 rank (E7).  utils.rank is interpreted with classical_qsvd_full summarised by symbolic singular values:
     the result is the number of True outcomes of the conditions  s_i > tol  for ALL i (strict), with the
     documented default tol = eps * max(m, n) * max(s); an explicit tol is used unchanged; an empty spectrum
     gives 0 without evaluating max of an empty array.
  D2 null space (E9a).  quat_null_space with the same summary (U: m x m, V: n x n labels) and every rank
     r = 0..min(m,n) (the conditions s_i > rtol*s_max are decided True for i < r): 'right' returns V[:, r:]
     (n x (n-r)), 'left' returns U[:, r:] (m x (m-r)), full rank gives an empty (n, 0) / (m, 0) array; the
     conditions counted are strict and against rtol times the largest value; the three wrappers forward
     A / side / rtol unchanged; an invalid side raises ValueError before the SVD is computed.
  D3 det.  'Dieudonne' / 'Dieudonné' -> product of the singular values of classical_qsvd_full(X); 'Moore' ->
     product of quaternion_eigenvalues(X), only after ishermitian(X) returned True (False -> ValueError and
     the eigen-solver is never called); 'Study' -> NotImplementedError; anything else -> ValueError;
     non-square -> ValueError before anything is computed.
  D4 inherits C05-F.  The C05 structure sub-check is re-run on classical_qsvd_full; if its factors are
     contracted LAPACK factors, every routine here whose RESULT carries entries of U or V is a dependent
     finding (routines that only use the singular values - rank, det - are not affected: the stride-4
     values are LAPACK's sorted values whatever their multiplicity).
Not decided: rank/det algebraic laws, independence of the returned columns in floating point.
"""
from __future__ import annotations

import sys

from qstatic.alg import Poly, is_unknown
from qstatic.dom_sym import sym_quat, sym_real, arrays_same, first_diff, SymArr, mk
from .common import new_interp, run_guarded, short
from .common_qsvd import (q_labels, parse_threshold, PatternChooser, bind_like, require_unless_failed)
from . import c05

LEVEL = "other"
EXPLANATION = ("Abstract interpretation of rank / quat_null_space (+3 wrappers) / det with the Q-SVD, the eigen-solver "
               "and the Hermitian test replaced by recording summaries that return symbolic values: the counted "
               "threshold conditions, the returned column blocks for every rank in a shape box, argument forwarding, "
               "the option dispatch of det and the order guard -> solver are compared with the documentation; the "
               "C05 structure finding is propagated to the routines whose result carries contracted factors.")

R1, R2, R3, R4 = "C11.D1.rank", "C11.D2.nullspace", "C11.D3.det", "C11.D4.inherits"
QSVD_KEY = "decomp.qsvd:classical_qsvd_full"
EIG_KEY = "decomp.eigen:quaternion_eigenvalues"
HERM_KEY = "utils:ishermitian"
INHERIT = "uses classical_qsvd_full whose factors are contracted LAPACK factors (C05)"


class Rec:
    """recording summaries"""

    def __init__(self, herm=True):
        self.calls = []
        self.herm = herm

    def qsvd_full(self, it, X, *a, **k):
        self.calls.append(("qsvd", X))
        m, n = X.shape
        return q_labels(("fullU",), (m, m)), sym_real("sv", (min(m, n),)), q_labels(("fullV",), (n, n))

    def eig(self, it, X, *a, **k):
        self.calls.append(("eig", X))
        return sym_real("ev", (X.shape[0],))

    def ishermitian(self, it, X, *a, **k):
        self.calls.append(("herm", X))
        return self.herm

    def summaries(self):
        return {QSVD_KEY: self.qsvd_full, EIG_KEY: self.eig, HERM_KEY: self.ishermitian}


def s_atoms(k):
    return [Poly.atom(("sv", i)) for i in range(k)]


def check_counted(conds, k, small_refs):
    """conds: [(cond, decision)] of one count event.  All k conditions must be  s_i > small  (strict) with
    small equal to one of small_refs.  Returns (ok, reason)."""
    if len(conds) != k:
        return False, f"{len(conds)} conditions counted for {k} singular values"
    sa = s_atoms(k)
    for i, (c, dec) in enumerate(conds):
        p = parse_threshold(c)
        if p is None:
            return False, f"entry {i} is not a threshold comparison: {c!r}"
        strict, big, small = p
        if not (isinstance(big, Poly) and big.same(sa[i])):
            return False, f"entry {i} compares {short(big, 80)} instead of singular value {i}"
        if not any(isinstance(small, Poly) and small.same(r) for r in small_refs):
            return False, f"entry {i} uses the threshold {short(small, 120)}; documented: {short(small_refs[0], 120)}"
        if not strict:
            return False, f"entry {i} is counted with a non-strict comparison (>=); documented is strict >"
    return True, ""


# ----------------------------------------------------------------------------------------------- D1
def check_rank(ctx, f, N):
    where = f.where
    EPS = sys.float_info.epsilon
    n_ok = 0
    for m in range(1, N + 1):
        for n in range(1, N + 1):
            k = min(m, n)
            X = sym_quat("a", (m, n))
            patterns = {tuple([True] * k), tuple([False] * k), tuple(i % 2 == 0 for i in range(k))}
            patterns |= {tuple(i < r for i in range(k)) for r in range(k + 1)}
            for explicit in (False, True):
                tolsym = Poly.atom(("tol",))
                for pat in sorted(patterns):
                    rec = Rec()
                    ch = PatternChooser(pat)
                    it, d = new_interp(ctx, chooser=ch, summaries=rec.summaries())
                    cfg = f"m={m} n={n} tol={'explicit' if explicit else 'default'} outcomes={''.join('T' if b else 'F' for b in pat)}"
                    st, out = run_guarded(lambda: it.run(f, [X] + ([tolsym] if explicit else [])))
                    if st != "ok":
                        ctx.ob(R1, f"rank {cfg}: completes", False, f"rank fails on an in-domain input ({cfg}): {out}",
                               where=where, construct="rank: fails on an in-domain input", loc=f.loc(), detail=str(out))
                        continue
                    counts = [e for e in d.events if e[0] == "count"]
                    ok = len(rec.calls) == 1 and rec.calls[0][0] == "qsvd" and rec.calls[0][1] is X
                    ctx.ob(R1, f"rank {cfg}: singular values of classical_qsvd_full(X)", ok,
                           f"rank does not take its singular values from one call classical_qsvd_full(X) ({cfg})",
                           where=where, construct="rank: singular values are not those of classical_qsvd_full(X)",
                           loc=f.loc())
                    ok = isinstance(out, int) and not isinstance(out, bool) and out == sum(pat) and len(counts) == 1
                    ctx.ob(R1, f"rank {cfg}: result = number of true conditions", ok,
                           f"rank returns {out!r}, not the number ({sum(pat)}) of singular values above the threshold ({cfg})",
                           where=where, construct="rank: result is not the count of singular values above the threshold",
                           loc=f.loc())
                    if len(counts) != 1:
                        continue
                    if explicit:
                        refs = [tolsym]
                        what = "the tol argument unchanged"
                    else:
                        mx = d.sym_minmax("max", s_atoms(k))
                        refs = [Poly.const(EPS) * max(m, n) * mx]
                        what = "the documented default eps*max(m,n)*max(s)"
                    ok, why = check_counted(counts[0][1], k, refs)
                    n_ok += ok
                    ctx.ob(R1, f"rank {cfg}: every s_i > threshold (strict), threshold = {what}", ok,
                           f"rank does not count the conditions s_i > tol for all i with {what}: {why} ({cfg})",
                           where=where,
                           construct=("rank: counted conditions are not s_i > tol (strict) for all i with "
                                      + ("the tol argument" if explicit else "the default eps*max(m,n)*max(s)")),
                           loc=f.loc(), detail=why)
    # empty spectrum
    for shape in ((0, 3), (2, 0)):
        X = sym_quat("a", shape)
        rec = Rec()
        it, d = new_interp(ctx, chooser=PatternChooser([]), summaries=rec.summaries())
        st, out = run_guarded(lambda: it.run(f, [X]))
        ok = st == "ok" and isinstance(out, int) and out == 0
        ctx.ob(R1, f"rank empty spectrum shape={shape}: 0", ok,
               f"empty spectrum is not handled (shape {shape}): {st} {out}", where=where,
               construct="rank: empty spectrum does not give 0", loc=f.loc())


# ----------------------------------------------------------------------------------------------- D2
def check_nullspace(ctx, prog, N):
    f = prog.func("utils", "quat_null_space")
    where = f.where
    rt = Poly.atom(("rtol",))
    for m in range(1, N + 1):
        for n in range(1, N + 1):
            k = min(m, n)
            X = sym_quat("a", (m, n))
            Uref, Vref = q_labels(("fullU",), (m, m)), q_labels(("fullV",), (n, n))
            for side in ("right", "left"):
                for r in range(k + 1):
                    rec = Rec()
                    ch = PatternChooser([i < r for i in range(k)])
                    it, d = new_interp(ctx, chooser=ch, summaries=rec.summaries())
                    cfg = f"m={m} n={n} side={side} rank={r}"
                    st, out = run_guarded(lambda: it.run(f, [X], {"side": side, "rtol": rt}))
                    if st != "ok":
                        ctx.ob(R2, f"quat_null_space {cfg}: completes", False,
                               f"fails on an in-domain input ({cfg}): {out}", where=where,
                               construct="quat_null_space: fails on an in-domain input", loc=f.loc(), detail=str(out))
                        continue
                    ref = Vref[:, r:] if side == "right" else Uref[:, r:]
                    fac, dim = ("V", "n") if side == "right" else ("U", "m")
                    ok = (isinstance(out, SymArr) and out.kind == "quat" and arrays_same(out, ref)
                          and len(rec.calls) == 1 and rec.calls[0][1] is X)
                    ctx.ob(R2, f"quat_null_space {cfg}: trailing columns of {fac}", ok,
                           f"side='{side}' does not return the trailing {dim}-rank columns {fac}[:, rank:] of "
                           f"classical_qsvd_full(A) ({cfg}): got shape {getattr(out, 'shape', None)}, expected {ref.shape}; "
                           f"{short(first_diff(out, ref)) if isinstance(out, SymArr) else out}", where=where,
                           construct=f"quat_null_space: side='{side}' does not return the trailing {dim}-rank columns of {fac}",
                           loc=f.loc())
                    counts = [e for e in d.events if e[0] == "count"]
                    sa = s_atoms(k)
                    refs = [rt * sa[0]] + ([rt * d.sym_minmax("max", sa)] if k > 1 else [])
                    ok, why = (False, f"{len(counts)} counting events") if len(counts) != 1 else \
                        check_counted(counts[0][1], k, refs)
                    ctx.ob(R2, f"quat_null_space {cfg}: rank = #(s_i > rtol*s_max), strict", ok,
                           f"numerical rank is not the number of s_i > rtol * largest singular value (strict): {why} ({cfg})",
                           where=where,
                           construct="quat_null_space: rank is not the count of s_i > rtol*s_max (strict) for all i",
                           loc=f.loc(), detail=why)
    # invalid side: ValueError before the SVD
    for bad in ("both", "", "Right", None):
        rec = Rec()
        it, d = new_interp(ctx, chooser=PatternChooser([]), summaries=rec.summaries())
        X = sym_quat("a", (2, 3))
        st, out = run_guarded(lambda: it.run(f, [X], {"side": bad}))
        ok = st == "raise" and out.exc_name == "ValueError" and not rec.calls
        ctx.ob(R2, f"quat_null_space side={bad!r}: ValueError before the SVD", ok,
               f"invalid side {bad!r} is not rejected with ValueError before the SVD is computed: {st} {out}; "
               f"summarised calls {[c[0] for c in rec.calls]}", where=where,
               construct="quat_null_space: invalid side not rejected with ValueError before the SVD", loc=f.loc())
    # wrappers
    defaults = bind_like(f, [None], {})
    for wname, fixed_side in (("quat_null_right", "right"), ("quat_null_left", "left"), ("quat_kernel", None)):
        w = prog.func("utils", wname)
        ctx.touch(w)
        sides = [fixed_side] if fixed_side else ["right", "left", "up"]
        for side in sides:
            for with_rtol in (True, False):
                for use_default_side in ((False, True) if fixed_side is None else (False,)):
                    seen = []
                    sentinel = q_labels(("nullspace",), (2, 1))

                    def summ(it, *a, **k):
                        seen.append(bind_like(f, a, k))
                        return sentinel

                    it, d = new_interp(ctx, summaries={"utils:quat_null_space": summ})
                    X = sym_quat("a", (2, 3))
                    kw = {}
                    if fixed_side is None and not use_default_side:
                        kw["side"] = side
                    if with_rtol:
                        kw["rtol"] = rt
                    exp_side = fixed_side or (defaults["side"] if use_default_side else side)
                    exp_rtol = rt if with_rtol else defaults["rtol"]
                    cfg = f"{wname}({', '.join(['A'] + [f'{a}=...' for a in kw])})" + (f" side={side}" if "side" in kw else "") \
                        + ("" if "side" in kw or fixed_side else f" [default side, variant {side}]")
                    st, out = run_guarded(lambda: it.run(w, [X], kw))
                    ok = (st == "ok" and out is sentinel and len(seen) == 1 and seen[0].get("A") is X
                          and seen[0].get("side") == exp_side
                          and (seen[0].get("rtol") is exp_rtol or (not isinstance(exp_rtol, Poly) and not isinstance(seen[0].get("rtol"), Poly)
                                                                  and seen[0].get("rtol") == exp_rtol)))
                    ctx.ob(R2, f"wrapper {cfg}: forwards A, side, rtol unchanged", ok,
                           f"{wname} does not forward (A, side={exp_side!r}, rtol) unchanged to quat_null_space and return "
                           f"its result: {st} {short(seen, 200)}", where=w.where,
                           construct=f"{wname}: does not forward A/side/rtol unchanged to quat_null_space", loc=w.loc())


# ----------------------------------------------------------------------------------------------- D3
def check_det(ctx, f):
    where = f.where

    def go(X, dopt, herm=True):
        rec = Rec(herm)
        it, d = new_interp(ctx, summaries=rec.summaries())
        st, out = run_guarded(lambda: it.run(f, [X, dopt]))
        return rec, st, out

    def prod(vals):
        p = Poly.const(1)
        for v in vals:
            p = p * v
        return p

    for n in (1, 2, 3):
        X = sym_quat("a", (n, n))
        for dopt in ("Dieudonné", "Dieudonne"):
            rec, st, out = go(X, dopt)
            ref = prod(s_atoms(n))
            ok = (st == "ok" and isinstance(out, Poly) and out.same(ref)
                  and [c[0] for c in rec.calls] == ["qsvd"] and rec.calls[0][1] is X)
            ctx.ob(R3, f"det n={n} d={dopt!r}: product of singular values", ok,
                   f"det(X, {dopt!r}) is not the product of the singular values of classical_qsvd_full(X) (n={n}): "
                   f"{st} {short(out, 160)}; calls {[c[0] for c in rec.calls]}", where=where,
                   construct="det: Dieudonne branch is not the product of the singular values of classical_qsvd_full(X)",
                   loc=f.loc())
        rec, st, out = go(X, "Moore", herm=True)
        ref = prod([Poly.atom(("ev", i)) for i in range(n)])
        names = [c[0] for c in rec.calls]
        ok = st == "ok" and isinstance(out, Poly) and out.same(ref) and "eig" in names and all(c[1] is X for c in rec.calls)
        ctx.ob(R3, f"det n={n} d='Moore' Hermitian: product of eigenvalues", ok,
               f"det(X, 'Moore') is not the product of quaternion_eigenvalues(X) (n={n}): {st} {short(out, 160)}; calls {names}",
               where=where, construct="det: Moore branch is not the product of quaternion_eigenvalues(X)", loc=f.loc())
        ok = "herm" in names and "eig" in names and names.index("herm") < names.index("eig") and "qsvd" not in names
        ctx.ob(R3, f"det n={n} d='Moore' Hermitian: ishermitian(X) tested before the eigen-solver", ok,
               f"Moore branch does not test ishermitian(X) before calling the eigen-solver (n={n}): calls {names}",
               where=where, construct="det: Moore branch calls the eigen-solver without a preceding Hermitian test", loc=f.loc())
        rec, st, out = go(X, "Moore", herm=False)
        names = [c[0] for c in rec.calls]
        ok = st == "raise" and out.exc_name == "ValueError" and "eig" not in names and "herm" in names
        ctx.ob(R3, f"det n={n} d='Moore' non-Hermitian: ValueError, eigen-solver not called", ok,
               f"Moore determinant of a non-Hermitian matrix is not rejected with ValueError before the eigen-solver "
               f"(n={n}): {st} {short(out, 120)}; calls {names}", where=where,
               construct="det: Moore branch does not reject a non-Hermitian matrix before the eigen-solver", loc=f.loc())
        rec, st, out = go(X, "Study")
        ok = st == "raise" and out.exc_name == "NotImplementedError"
        ctx.ob(R3, f"det n={n} d='Study': NotImplementedError", ok,
               f"det(X, 'Study') does not raise NotImplementedError: {st} {short(out, 120)}", where=where,
               construct="det: Study branch does not raise NotImplementedError", loc=f.loc())
        for bad in ("foo", "", "dieudonne "):
            rec, st, out = go(X, bad)
            ok = st == "raise" and out.exc_name == "ValueError" and not rec.calls
            ctx.ob(R3, f"det n={n} d={bad!r}: ValueError", ok,
                   f"unrecognised determinant type {bad!r} is not rejected with ValueError: {st} {short(out, 120)}",
                   where=where, construct="det: unrecognised type not rejected with ValueError", loc=f.loc())
    for shape in ((2, 3), (3, 1)):
        X = sym_quat("a", shape)
        for dopt in ("Dieudonne", "Moore", "Study", "foo"):
            rec, st, out = go(X, dopt)
            ok = st == "raise" and out.exc_name == "ValueError" and not rec.calls
            ctx.ob(R3, f"det shape={shape} d={dopt!r}: square guard first", ok,
                   f"non-square input is not rejected with ValueError before anything is computed ({shape}, {dopt!r}): "
                   f"{st} {short(out, 120)}; calls {[c[0] for c in rec.calls]}", where=where,
                   construct="det: non-square input not rejected with ValueError first", loc=f.loc())


# ----------------------------------------------------------------------------------------------- D4
def check_inherits(ctx, prog, users):
    """users: [(FuncInfo, args, kwargs)].  Dependent finding when C05's structure sub-check fires on
    classical_qsvd_full AND the routine's result carries entries of the contracted factors."""
    f_full = prog.func("decomp.qsvd", "classical_qsvd_full")
    ctx.touch(f_full)
    tr = c05.run_structure(ctx, funcs=("classical_qsvd_full",), box=2)
    tainted = [s for s in tr.sites.values() if s["tainted"] and s["where"] == f_full.where]
    ctx.notes["c05_structure_sites_in_classical_qsvd_full"] = sorted(s["construct"] for s in tainted)
    ctx.ob(R4, "C05 structure sub-check on classical_qsvd_full evaluated", tr.calls > 0,
           "classical_qsvd_full no longer reaches real_contract: the dependency C05 -> C11 must be re-derived",
           where=f_full.where, construct="classical_qsvd_full: no real_contract call observed", loc=f_full.loc())
    for f, argsets in users:
        carries, called = set(), False
        for args, kw, pat in argsets:
            rec = Rec()
            it, d = new_interp(ctx, chooser=PatternChooser(pat), summaries=rec.summaries())
            st, out = run_guarded(lambda: it.run(f, args, kw))
            called |= any(c[0] == "qsvd" for c in rec.calls)
            if st == "ok":
                vals = out.reshape(-1) if isinstance(out, SymArr) else [out]
                for v in vals:
                    comps = v.c if hasattr(v, "c") else ([v] if isinstance(v, Poly) else [])
                    for p in comps:
                        for a in p.atoms():
                            if isinstance(a, tuple) and a and a[0] in ("fullU", "fullV"):
                                carries.add(a[0][4:])
        dep = called and bool(carries) and bool(tainted)
        ctx.ob(R4, f"{f.name}: result carries contracted LAPACK factors of classical_qsvd_full: "
                   f"{sorted(carries) if called else 'not called'}", not dep,
               f"{f.name} returns columns of the factors {sorted(carries)} of classical_qsvd_full, which are contractions "
               f"of raw LAPACK factors (C05-D2: {sorted(s['construct'] for s in tainted)}); for nullity >= 2 the "
               f"returned basis need not be orthonormal / quaternion-independent", where=f.where,
               construct=INHERIT, loc=f.loc())


def run(ctx):
    prog = ctx.program
    f_rank = prog.func("utils", "rank")
    f_null = prog.func("utils", "quat_null_space")
    f_det = prog.func("utils", "det")
    prog.func("utils", "ishermitian")
    prog.func("decomp.qsvd", "classical_qsvd_full")
    prog.func("decomp.eigen", "quaternion_eigenvalues")
    for f in (f_rank, f_null, f_det):
        ctx.touch(f)
    ctx.assume("classical_qsvd_full returns (U m x m, s of length min(m,n) sorted non-increasing, V n x n) (C05-D1); "
               "it, quaternion_eigenvalues and ishermitian are replaced by recording summaries returning symbolic values",
               "data dependent threshold comparisons are enumerated (every rank 0..min(m,n)), never evaluated",
               "bounded-exhaustive over the stated shape box", "python ast reflects the code that runs")
    N = 5 if ctx.thorough else 4
    ctx.notes["shape_box"] = {"m": [1, N], "n": [1, N], "rank": "0..min(m,n)", "det_n": [1, 3]}
    check_rank(ctx, f_rank, N)
    check_nullspace(ctx, prog, N)
    check_det(ctx, f_det)
    X = sym_quat("a", (3, 3))
    X23 = sym_quat("a", (2, 3))
    check_inherits(ctx, prog, [
        (f_rank, [([X23], {}, [True, False])]),
        (f_null, [([X23], {"side": "right"}, [True, False]), ([X23], {"side": "left"}, [True, False])]),
        (f_det, [([X, "Dieudonne"], {}, []), ([X, "Moore"], {}, [])]),
    ])
    ctx.require_instances(R1, 9)
    require_unless_failed(ctx, R1, 3 * N * N, (R1,))
    ctx.require_instances(R2, 2 + 3 + 1)
    require_unless_failed(ctx, R2, 2 * N * N + 4 + 3, (R2,))
    ctx.require_instances(R3, 4 + 1)
    require_unless_failed(ctx, R3, 3 * 9 + 8, (R3,))
    ctx.require_instances(R4, 4)
