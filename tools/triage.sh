#!/bin/sh
# tools/triage.sh <diff> : run every registered check against a scratch copy with the diff applied; one line per check
T=$(mktemp -d /tmp/qtri.XXXXXX)
mkdir -p $T/applications
cp -r /repo/quatica $T/quatica
cp -r /repo/applications/image_deblurring $T/applications/image_deblurring
( cd $T && patch -p1 -s < "$1" ) || { echo "PATCH FAILED $1"; rm -rf $T; exit 3; }
for p in $(ls /verif/rules | grep -E '^c[0-9]+\.py$' | sed 's/.py//' | tr a-z A-Z); do
  ( timeout 900 /verif/check $p --root $T --no-evidence > $T/out_$p.txt 2>&1; echo "$p rc=$? viol=$(grep -c '^VIOLATION' $T/out_$p.txt) $(grep -m1 -E 'FINDING|ANALYSIS-ERROR' $T/out_$p.txt | cut -c1-220)" ) &
done
wait
rm -rf $T
