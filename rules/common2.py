"""Helpers shared by the bounded symbolic-evaluation rules C02 / C15 / C18 (additive to common.py)."""
from __future__ import annotations

import itertools

from qstatic.alg import Poly, SQ, SC, P
from qstatic.dom_sym import SymArr, mk, wrap
from qstatic.interp import PathExplorer


def indices(shape):
    return itertools.product(*[range(s) for s in shape])


def signed_atom(p):
    """Poly -> (sign, atom) if p == +-atom, 0 if p == 0, else None."""
    p = P(p)
    if p.is_zero():
        return 0
    s = p.as_single_atom()
    if s is None:
        return None
    c, a, e = s
    if e != 1 or c not in (1, -1):
        return None
    return (int(c), a)


def sumsq_real(arr):
    s = Poly.const(0)
    for v in wrap(arr).reshape(-1):
        s = s + P(v) * P(v)
    return s


def sumsq_any(arr):
    """sum of |entry|^2 for real / complex / quaternion object arrays."""
    s = Poly.const(0)
    for v in wrap(arr).reshape(-1):
        s = s + (v.norm2() if isinstance(v, (SQ, SC)) else P(v) * P(v))
    return s


def atoms_of(v):
    if isinstance(v, SQ):
        out = set()
        for c in v.c:
            out |= c.atoms()
        return out
    if isinstance(v, SC):
        return v.re.atoms() | v.im.atoms()
    return P(v).atoms()


def transpose2(a):
    a = wrap(a)
    return SymArr(a.T.copy(), a.kind)


def conj_arr(a):
    a = wrap(a)
    out = mk(a.shape, a.kind)
    for idx in indices(a.shape):
        v = a[idx]
        out[idx] = v.conjugate() if hasattr(v, "conjugate") else v
    return out


def is_symarr(v, kind=None, shape=None):
    if not isinstance(v, SymArr):
        return False
    if kind is not None and v.kind != kind:
        return False
    if shape is not None and tuple(v.shape) != tuple(shape):
        return False
    return True


def poly_from_key(key):
    return Poly(dict(key))


def maxset(v):
    """Set of Poly keys whose maximum the value denotes: a ('max', k1, k2, ...) atom (possibly nested) is
    flattened, any other value is the singleton of itself.  Plain python numbers are lifted."""
    p = P(v)
    s = p.as_single_atom()
    if s is not None:
        c, a, e = s
        if c == 1 and e == 1 and isinstance(a, tuple) and a and a[0] == "max":
            out = set()
            for k in a[1:]:
                out |= maxset(poly_from_key(k))
            return out
    return {p.key()}


class Path:
    def __init__(self, conds, status, value):
        self.conds = conds          # list of (why, chosen_bool)
        self.status = status        # ok | raise | model_error
        self.value = value


def generic_zero_tests(interp, node, cond):
    """policy for explore_paths: order comparisons are explored both ways; equality / truth tests of data get their generic outcome
    (their special outcome is analysed by the scenario mechanism on consistently specialised inputs)"""
    why = getattr(cond, "why", None)
    if isinstance(why, tuple) and why and why[0] in ("eq", "ne", "truth", "any", "all", "not", "and", "or"):
        from qstatic.scenario import default_choice
        return default_choice(interp, node, cond)
    return None


def explore_paths(make_interp, fn, max_paths=512, policy=None):
    """Enumerate every resolution of the UNKNOWN conditions met by fn(interp).  make_interp(chooser) -> interp.
    Returns a list of Path with the condition objects (`why` of the UNKNOWN) and the outcome chosen."""
    paths = []
    snaps = []

    def wrapped(chooser):
        log = []
        snaps.append(log)

        def ch(interp, node, cond):
            r = chooser(interp, node, cond)
            log.append((getattr(cond, "why", None), bool(r)))
            return r
        return fn(make_interp(ch))

    pe = PathExplorer(policy=policy, max_paths=max_paths)
    res = pe.explore(wrapped)
    for (taken, (st, val)), conds in zip(res, snaps):
        paths.append(Path(conds, st, val))
    return paths


def ge_closure(elements, facts):
    """facts: list of (a, b) meaning a >= b over hashable keys.  Returns reach[a] = set of b with a >= b."""
    reach = {e: {e} for e in elements}
    for a, b in facts:
        reach.setdefault(a, {a})
        reach.setdefault(b, {b})
    changed = True
    while changed:
        changed = False
        for a, b in facts:
            for x in list(reach):
                if a in reach[x] and not reach[b] <= reach[x]:
                    reach[x] |= reach[b]
                    changed = True
    return reach


def order_facts(conds):
    """Translate path conditions ('gt'|'ge'|'lt'|'le', lhs, rhs) + outcome into >= facts on Poly keys.
    Returns (facts, unrecognised)."""
    facts, bad = [], []
    for why, chosen in conds:
        if not (isinstance(why, tuple) and len(why) == 3 and why[0] in ("gt", "ge", "lt", "le")):
            bad.append(why)
            continue
        op, l, r = why
        try:
            l, r = P(l).key(), P(r).key()
        except TypeError:
            bad.append(why)
            continue
        if op in ("lt", "le"):
            l, r = r, l          # l > r  /  l >= r
        if chosen:
            facts.append((l, r))
        else:
            facts.append((r, l))
    return facts, bad
