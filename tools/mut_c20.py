#!/venv/bin/python
"""Structural mutants for C20 that a single regex (tools/mut.sh) cannot express.
usage: tools/mut_c20.py [name ...]      (no name: all)
Each mutant is applied to a scratch copy of /repo under /tmp, `./check C20 --root <copy> --no-evidence`
is run on it, and the FINDING / ANALYSIS / summary lines are printed.  F = must be reported, S = must stay silent.
"""
import os
import re
import shutil
import subprocess
import sys
import tempfile


def sub1(s, old, new, flags=0):
    n = len(re.findall(old, s, flags))
    if n != 1:
        raise SystemExit(f"MUT: pattern {old[:50]!r} matches {n} times")
    return re.sub(old, new, s, count=1, flags=flags)


COL_GUARD = ('        if m < n:\n'
             '            raise ValueError("Column variant requires m >= n (full column rank)")\n')


def guard_after_X0(s):
    """S: orientation guard of compute_column_variant moved after `X = alpha * A_H` (only fresh locals before it)."""
    assert s.count(COL_GUARD) == 1
    s = s.replace(COL_GUARD, "")
    return sub1(s, r"(    def compute_column_variant(?:.*\n)*?        X = alpha \* A_H\n)", lambda m: m.group(1) + COL_GUARD)


def guard_after_sketch(s):
    """S: same guard moved after the statement that draws the test sketch (RNG draw, no store to A or self)."""
    assert s.count(COL_GUARD) == 1
    s = s.replace(COL_GUARD, "")
    return sub1(s, r"(    def compute_column_variant(?:.*\n)*?        Pi = self\._generate_random_sketch\(n, self\.test_sketch_size\)\n)",
                lambda m: m.group(1) + COL_GUARD)


def guard_after_self_store(s):
    """F: the clamp is stored on self (the pre-fix pattern) BEFORE the orientation guard."""
    assert s.count(COL_GUARD) == 1
    return s.replace(COL_GUARD, "        self.block_size = max(1, min(self.block_size, m, n))\n" + COL_GUARD)


def guard_after_arg_store(s):
    """F: hessenbergize normalises its argument in place before the square guard."""
    return sub1(s, r'(    if A\.ndim != 2 or A\.shape\[0\] != A\.shape\[1\]:\n        raise ValueError\("Hessenberg reduction requires a square matrix"\)\n)',
                lambda m: "    A[0, 0] = A[0, 0] * 1.0\n" + m.group(1))


def guard_after_return(s):
    """F: ishermitian answers a 1 x n argument before the guard is reached (early return placed in front)."""
    return sub1(s, r"(    r, c = A\.shape\n\n)(    if r != c:\n        raise ValueError\(\"Cannot test whether a non-square matrix is Hermitian\.\"\)\n)",
                lambda m: m.group(1) + "    if r == 1:\n        return True\n" + m.group(2))


def shared_helper(s):
    """S: the square guards of ishermitian and det moved into a shared helper `_require_square(A)` called first."""
    s = sub1(s, r'    r, c = A\.shape\n\n    if r != c:\n        raise ValueError\("Cannot test whether a non-square matrix is Hermitian\."\)\n',
             "    _require_square(A)\n")
    s = sub1(s, r'    r, c = X\.shape\n\n    if r != c:\n        raise ValueError\("Matrix must be square\."\)\n',
             "    _require_square(X)\n")
    s = sub1(s, r"\ndef ishermitian\(", "\ndef _require_square(M):\n    rows, cols = M.shape\n    if cols != rows:\n"
             "        raise ValueError(\"square matrix required\")\n    return rows\n\n\ndef ishermitian(")
    return s


def public_helper(s):
    """S: same with a public helper name (the thorough sweep must account for its raise through the cells that fire it)."""
    return shared_helper(s).replace("_require_square", "require_square")


def schur_guard_dropped_ndim(s):
    """F: quaternion_schur only checks shape[0] != shape[1] -> 3-D input passes (ND cell)."""
    return sub1(s, r'    if A\.ndim != 2 or A\.shape\[0\] != A\.shape\[1\]:\n        raise ValueError\("quaternion_schur requires a square matrix"\)',
                '    if A.shape[0] != A.shape[1]:\n        raise ValueError("quaternion_schur requires a square matrix")')


def eig_warn_only(s):
    """F: the non-Hermitian branch of quaternion_eigendecomposition only prints the warning."""
    return sub1(s, r'        raise ValueError\("Matrix must be Hermitian for this eigendecomposition method"\)\n', "        pass\n")


def new_guard(s):
    """exit 2 expected (table out of date): rank grows a new guard that no cell exercises."""
    return sub1(s, r"(    m, n = X\.shape\n\n    # Compute SVD\n)", lambda m: "    m, n = X.shape\n    if tol is not None and tol < 0:\n"
                "        raise ValueError('negative tolerance')\n\n    # Compute SVD\n")


def wrong_family(s):
    """F: ishermitian raises TypeError instead of the tabulated ValueError."""
    return sub1(s, r'raise ValueError\("Cannot test whether a non-square matrix is Hermitian\."\)',
                'raise TypeError("Cannot test whether a non-square matrix is Hermitian.")')


def data_dep_before_guard(s):
    """S: a data-dependent notice (unknown condition) is inserted in front of tridiagonalize's guards."""
    return sub1(s, r'(    r, c = A\.shape\n\n)(    if r != c:\n        raise ValueError\("Cannot tridiagonalize a non-square matrix"\))',
                lambda m: m.group(1) + '    if np.max(np.abs(A)) > 1e300:\n        print("very large entries")\n\n' + m.group(2))


def exotic_guard(s):
    """S: the square guard of ishermitian spelled `not np.isclose(r, c)` on the two integer dimensions (equivalent)."""
    return sub1(s, r'    if r != c:\n        raise ValueError\("Cannot test whether', lambda m: '    if not np.isclose(r, c):\n        raise ValueError("Cannot test whether')


def guard_after_try_return(s):
    """F (CFG only): hessenbergize answers (None, None) on the exception path of a try placed in front of the guard."""
    return sub1(s, r'(    if A\.ndim != 2 or A\.shape\[0\] != A\.shape\[1\]:\n        raise ValueError\("Hessenberg reduction requires a square matrix"\)\n)',
                lambda m: "    try:\n        A = np.asarray(A)\n    except Exception:\n        return None, None\n" + m.group(1))


def new_public_function(s):
    """exit 2 expected in the thorough tier: a new public function with a guard appears in an anchored module."""
    return s + '\n\ndef tensor_mode_size(T, mode):\n    if mode not in (0, 1, 2):\n        raise ValueError("mode must be 0, 1, or 2")\n    return T.shape[mode]\n'


def herm_guard_upper_only(s):
    """F: tridiagonalize's Hermitian guard compares the strict upper triangle only (np.triu_indices): a matrix that is
    Hermitian off the diagonal with a non-real diagonal passes."""
    return sub1(s, r"    if not np\.allclose\(A, A_H, atol=1e-10\):\n",
                lambda m: "    iu = np.triu_indices(r, 1)\n    if not np.allclose(A[iu], A_H[iu], atol=1e-10):\n")


def herm_guard_triu_mask(s):
    """F: same weakening spelled with np.triu(., 1) masks."""
    return sub1(s, r"    if not np\.allclose\(A, A_H, atol=1e-10\):\n",
                lambda m: "    if not np.allclose(np.triu(A, 1), np.triu(A_H, 1), atol=1e-10):\n")


def herm_guard_upper_with_diag(s):
    """S: upper triangle INCLUDING the diagonal is a full Hermitian test (equivalent predicate)."""
    return sub1(s, r"    if not np\.allclose\(A, A_H, atol=1e-10\):\n",
                lambda m: "    iu = np.triu_indices(r)\n    if not np.allclose(A[iu], A_H[iu], atol=1e-10):\n")


def herm_guard_row_subset(s):
    """exit 2 expected: Hermitian test on an index subset the evaluator does not model (first row only)."""
    return sub1(s, r"    if not np\.allclose\(A, A_H, atol=1e-10\):\n",
                lambda m: "    if not np.allclose(A[0, :], A_H[0, :], atol=1e-10):\n")


def zero_shortcut_hoisted(s):
    """F: ishermitian's zero-matrix shortcut hoisted above the square guard (a non-square zero matrix is answered True)."""
    s = sub1(s, r"    # Normalize by maximum absolute value\n    max_abs = np\.max\(np\.abs\(A\)\)\n    if max_abs == 0:\n        return True  # Zero matrix is Hermitian\n", "")
    return sub1(s, r"(    r, c = A\.shape\n\n)(    if r != c:\n        raise ValueError\(\"Cannot test whether)",
                lambda m: "    max_abs = np.max(np.abs(A))\n    if max_abs == 0:\n        return True\n\n" + m.group(1) + m.group(2))


def qgmres_early_ns_removed(s):
    """F: the square test in front of the preconditioning block is removed (with left_lu a wide system reaches the LU)."""
    return sub1(s, r"        if shape_A is not None and \(len\(shape_A\) != 2 or shape_A\[0\] != shape_A\[1\]\):", "        if False:")


def qgmres_prec_guard_removed(s):
    """F: unknown preconditioner names are silently treated as 'none' again."""
    return sub1(s, r'        if prec not in \("none", "left_lu"\):', "        if False:")


def qgmres_late_ns_removed(s):
    """F: the second square test (component-plane input) is removed."""
    return sub1(s, r"        if A0\.shape\[0\] != A0\.shape\[1\]:", "        if False:")


def schur_variant_guard_weakened(s):
    """F: quaternion_schur_unified accepts the unknown name 'foo'."""
    return sub1(s, r'    if variant not in \("none", "rayleigh", "implicit", "aed", "ds"\):',
                '    if variant not in ("none", "rayleigh", "implicit", "aed", "ds", "foo"):')


def schur_shift_guard_after_work(s):
    """exit 2 expected: quaternion_schur checks `shift` only after the Hessenberg reduction (pure work on copies, so D1 still
    holds for 2x2), but the in-domain 3x3 run cannot be interpreted through the reduction up to the moved guard."""
    g = ('    if shift not in ("rayleigh", "wilkinson", "double"):\n        raise ValueError(\n'
         '            f"Unknown shift \'{shift}\' (expected \'rayleigh\', \'wilkinson\' or \'double\')"\n        )\n')
    assert s.count(g) == 1
    s = s.replace(g, "")
    key = "    P0, H = hessenbergize(A)\n    H = check_hessenberg(H)\n"
    i = s.index(key)                      # first occurrence: quaternion_schur
    return s[:i] + key + g + s[i + len(key):]


def pinh_guards_after_fastpath(s):
    """F: power_iteration_nonhermitian validates only after the Hermitian fast path (the pre-fix behaviour)."""
    return sub1(s, r"    if \(\n        not isinstance\(A, np\.ndarray\)\n        or A\.ndim != 2\n        or A\.shape\[0\] != A\.shape\[1\]\n        or A\.dtype != np\.quaternion\n    \):",
                lambda m: "    if not _is_hermitian_quat(A) and (\n        not isinstance(A, np.ndarray)\n        or A.ndim != 2\n        or A.shape[0] != A.shape[1]\n        or A.dtype != np.quaternion\n    ):")


def pinh_format_guard_removed(s):
    """F: eigenvalue_format is no longer validated."""
    return sub1(s, r'    if eigenvalue_format not in \("complex", "quaternion"\):', "    if False:")


def ctor_guard_removed(s):
    """F: RandomizedSketchProjectPseudoinverse.__init__ no longer rejects unknown column_solver names."""
    return sub1(s, r'(class RandomizedSketchProjectPseudoinverse(?:.*\n)*?        self\.column_solver = .*\n)        if self\.column_solver not in \("qr", "spd"\):',
                lambda m: m.group(1) + "        if False:")


def ctor_guard_on_raw_value(s):
    """S: the constructor guard tests the lower-cased local before the assignment (equivalent)."""
    return sub1(s, r'(class HybridRSPNewtonSchulz(?:.*\n)*?)        self\.column_solver = column_solver\.lower\(\) if isinstance\(column_solver, str\) else "qr"\n        if self\.column_solver not in \("qr", "spd"\):\n',
                lambda m: m.group(1) + '        cs = column_solver.lower() if isinstance(column_solver, str) else "qr"\n        if not (cs == "qr" or cs == "spd"):\n')


EIG_HERM = ("    A_hermitian = quat_hermitian(A_quat)\n"
            "    is_hermitian = np.allclose(A_quat, A_hermitian, atol=1e-10)\n")


def eig_herm_upper_only(s):
    """F (blind mutant mw3/C20/A): quaternion_eigendecomposition compares the strict upper triangle with the conjugated lower
    one (np.triu_indices(m, k=1)); the diagonal is unchecked, so a 1x1 matrix with a non-zero imaginary part takes the 1x1
    shortcut and is answered (m >= 2 is still rejected by tridiagonalize's own guard)."""
    assert s.count(EIG_HERM) == 1
    return s.replace(EIG_HERM, "    upper = np.triu_indices(m, k=1)\n    is_hermitian = np.allclose(\n"
                               "        A_quat[upper], np.conjugate(A_quat.T[upper]), atol=1e-10\n    )\n")


def eig_herm_upper_with_diag(s):
    """S: same spelling with np.triu_indices(m, k=0): upper triangle including the diagonal is the full Hermitian test."""
    assert s.count(EIG_HERM) == 1
    return s.replace(EIG_HERM, "    upper = np.triu_indices(m, k=0)\n    is_hermitian = np.allclose(\n"
                               "        A_quat[upper], np.conjugate(A_quat.T[upper]), atol=1e-10\n    )\n")


def eig_herm_triu_mask_only(s):
    """F: same weakening spelled with masks np.triu(A, 1) against np.triu(A^H, 1)."""
    assert s.count(EIG_HERM) == 1
    return s.replace(EIG_HERM, "    A_hermitian = quat_hermitian(A_quat)\n    is_hermitian = np.allclose(np.triu(A_quat, 1), "
                               "np.triu(A_hermitian, 1), atol=1e-10)\n")


def eig_1x1_before_guard(s):
    """F (blind mutant mw3/C08/B): the 1x1 early return is moved above the Hermitian guard."""
    blk = ("    if m == 1:\n"
           "        # 1x1 Hermitian matrix: eigenvalue is the real part of the single element\n"
           "        element = A_quat[0, 0]\n"
           "        eigenvalue = complex(element.w, 0.0)  # Hermitian matrix has real eigenvalues\n"
           "        eigenvector = np.array([[1.0]], dtype=np.quaternion)\n"
           "        return np.array([eigenvalue]), eigenvector\n\n")
    assert s.count(blk) == 1
    s = s.replace(blk, "")
    return s.replace("    # Check if matrix is Hermitian\n", blk + "    # Check if matrix is Hermitian\n", 1)


MUTANTS = {
    "guard_after_X0": ("quatica/solver.py", guard_after_X0, "S"),
    "guard_after_sketch": ("quatica/solver.py", guard_after_sketch, "S"),
    "guard_after_self_store": ("quatica/solver.py", guard_after_self_store, "F"),
    "guard_after_arg_store": ("quatica/decomp/hessenberg.py", guard_after_arg_store, "F"),
    "guard_after_return": ("quatica/utils.py", guard_after_return, "F"),
    "shared_helper": ("quatica/utils.py", shared_helper, "S"),
    "public_helper": ("quatica/utils.py", public_helper, "S"),
    "schur_guard_dropped_ndim": ("quatica/decomp/schur.py", schur_guard_dropped_ndim, "F"),
    "eig_warn_only": ("quatica/decomp/eigen.py", eig_warn_only, "F"),
    "wrong_family": ("quatica/utils.py", wrong_family, "F"),
    "new_guard": ("quatica/utils.py", new_guard, "E2"),
    "data_dep_before_guard": ("quatica/decomp/tridiagonalize.py", data_dep_before_guard, "S"),
    "exotic_guard": ("quatica/utils.py", exotic_guard, "S"),
    "guard_after_try_return": ("quatica/decomp/hessenberg.py", guard_after_try_return, "F"),
    "new_public_function": ("quatica/tensor.py", new_public_function, "E2 (thorough)"),
    "herm_guard_upper_only": ("quatica/decomp/tridiagonalize.py", herm_guard_upper_only, "F"),
    "herm_guard_triu_mask": ("quatica/decomp/tridiagonalize.py", herm_guard_triu_mask, "F"),
    "herm_guard_upper_with_diag": ("quatica/decomp/tridiagonalize.py", herm_guard_upper_with_diag, "S"),
    "herm_guard_row_subset": ("quatica/decomp/tridiagonalize.py", herm_guard_row_subset, "E2"),
    "zero_shortcut_hoisted": ("quatica/utils.py", zero_shortcut_hoisted, "F"),
    "qgmres_early_ns_removed": ("quatica/solver.py", qgmres_early_ns_removed, "F"),
    "qgmres_prec_guard_removed": ("quatica/solver.py", qgmres_prec_guard_removed, "F"),
    "qgmres_late_ns_removed": ("quatica/solver.py", qgmres_late_ns_removed, "F"),
    "schur_variant_guard_weakened": ("quatica/decomp/schur.py", schur_variant_guard_weakened, "F"),
    "schur_shift_guard_after_work": ("quatica/decomp/schur.py", schur_shift_guard_after_work, "E2"),
    "pinh_guards_after_fastpath": ("quatica/utils.py", pinh_guards_after_fastpath, "F"),
    "pinh_format_guard_removed": ("quatica/utils.py", pinh_format_guard_removed, "F"),
    "ctor_guard_removed": ("quatica/solver.py", ctor_guard_removed, "F"),
    "ctor_guard_on_raw_value": ("quatica/solver.py", ctor_guard_on_raw_value, "S"),
    "eig_herm_upper_only": ("quatica/decomp/eigen.py", eig_herm_upper_only, "F"),
    "eig_herm_upper_with_diag": ("quatica/decomp/eigen.py", eig_herm_upper_with_diag, "S"),
    "eig_herm_triu_mask_only": ("quatica/decomp/eigen.py", eig_herm_triu_mask_only, "F"),
    "eig_1x1_before_guard": ("quatica/decomp/eigen.py", eig_1x1_before_guard, "F"),
}


def main():
    names = [a for a in sys.argv[1:] if not a.startswith("--")] or list(MUTANTS)
    tier = ["--tier", "thorough"] if "--thorough" in sys.argv else []
    for name in names:
        rel, fn, expect = MUTANTS[name]
        T = tempfile.mkdtemp(prefix="qmutc20.")
        try:
            os.makedirs(os.path.join(T, "applications"))
            shutil.copytree("/repo/quatica", os.path.join(T, "quatica"))
            shutil.copytree("/repo/applications/image_deblurring", os.path.join(T, "applications/image_deblurring"))
            p = os.path.join(T, rel)
            src = open(p).read()
            new = fn(src)
            assert new != src
            open(p, "w").write(new)
            r = subprocess.run(["/verif/check", "C20", "--root", T, "--no-evidence"] + tier, capture_output=True, text=True)
            print(f"### {name} [{expect}] rc={r.returncode}: {fn.__doc__.strip()}")
            for line in r.stdout.splitlines():
                if re.match(r"FINDING|ANALYSIS|\[|NOTE", line):
                    print("   ", line[:300])
        finally:
            shutil.rmtree(T, ignore_errors=True)


if __name__ == "__main__":
    main()
