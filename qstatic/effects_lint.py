"""Small AST lints shared by every rule (run by the CLI on the functions a rule touched)."""
from __future__ import annotations

import ast

MUTATORS = {"append", "extend", "insert", "pop", "remove", "clear", "update", "sort", "reverse", "fill", "resize", "setdefault", "add",
            "discard", "popitem", "put", "itemset"}


def _mentions_verbose(test):
    for n in ast.walk(test):
        if isinstance(n, ast.Name) and n.id in ("verbose", "debug"):
            return True
        if isinstance(n, ast.Attribute) and n.attr in ("verbose", "debug"):
            return True
    return False


def _base_name(n):
    while isinstance(n, (ast.Subscript, ast.Attribute)):
        n = n.value
    return n.id if isinstance(n, ast.Name) else None


def verbose_impurities(func_node):
    """[(lineno, name, what)]: state written inside an `if verbose:` branch that is read outside that branch (or a return /
    break / continue / raise inside it): diagnostics must not change what the function computes."""
    out = []
    ifs = [n for n in ast.walk(func_node) if isinstance(n, ast.If) and _mentions_verbose(n.test)]
    for node in ifs:
        # the verbose branch: body when the test is `verbose` / `self.verbose and ...`; for `not verbose` the else branch
        neg = isinstance(node.test, ast.UnaryOp) and isinstance(node.test.op, ast.Not)
        branch = node.orelse if neg else node.body
        inside = set()
        for st in branch:
            for n in ast.walk(st):
                inside.add(id(n))
        stored = {}
        for st in branch:
            for n in ast.walk(st):
                if isinstance(n, ast.Name) and isinstance(n.ctx, (ast.Store, ast.Del)):
                    stored.setdefault(n.id, (n.lineno, "rebinds"))
                elif isinstance(n, (ast.Subscript, ast.Attribute)) and isinstance(n.ctx, ast.Store):
                    b = _base_name(n)
                    if b:
                        stored.setdefault(b, (n.lineno, "writes into"))
                elif isinstance(n, ast.Call) and isinstance(n.func, ast.Attribute) and n.func.attr in MUTATORS:
                    b = _base_name(n.func.value)
                    if b:
                        stored.setdefault(b, (n.lineno, f"calls .{n.func.attr}() on"))
                elif isinstance(n, (ast.Return, ast.Break, ast.Continue, ast.Raise)):
                    out.append((n.lineno, type(n).__name__.lower(), "control flow leaves the diagnostics branch with a"))
        if not stored:
            continue
        # is a stored name LIVE after the branch?  forward search over the statement CFG from the branch's exits; a path ends at a
        # statement that rebinds the name before reading it
        from .cfg import CFG, defined_names
        g = CFG(func_node)
        inside_nids = {nd.id for nd in g.stmt_nodes() if id(nd.stmt) in inside or any(id(x) in inside for x in [nd.stmt])}
        frontier = []
        for nid in inside_nids:
            for (t, _lab) in g.successors(nid):
                if t not in inside_nids:
                    frontier.append(t)
        for name in list(stored):
            seen, work, live = set(), list(frontier), False
            while work and not live:
                nid = work.pop()
                if nid in seen:
                    continue
                seen.add(nid)
                nd = g.nodes.get(nid)
                st = getattr(nd, "stmt", None)
                if st is not None:
                    if name in _header_loads(st):
                        live = True
                        break
                    if name in defined_names(st) and not isinstance(st, ast.AugAssign):
                        continue            # rebound before any read on this path
                for (t, _lab) in g.successors(nid):
                    if t not in inside_nids:
                        work.append(t)
            if live:
                ln, what = stored[name]
                out.append((ln, name, what))
    return out


def _header_loads(st):
    """names read by the header of a statement (the part the CFG node stands for)"""
    if isinstance(st, (ast.If, ast.While)):
        exprs = [st.test]
    elif isinstance(st, (ast.For, ast.AsyncFor)):
        exprs = [st.iter]
    elif isinstance(st, (ast.With, ast.AsyncWith)):
        exprs = [it.context_expr for it in st.items]
    elif isinstance(st, (ast.Try, ast.FunctionDef, ast.AsyncFunctionDef, ast.ClassDef)):
        exprs = []
    else:
        exprs = [st]
    out = set()
    for e in exprs:
        for n in ast.walk(e):
            if isinstance(n, ast.Name) and isinstance(n.ctx, ast.Load):
                out.add(n.id)
            elif isinstance(n, ast.AugAssign) and isinstance(n.target, ast.Name):
                out.add(n.target.id)
    if isinstance(st, ast.AugAssign) and isinstance(st.target, ast.Name):
        out.add(st.target.id)
    return out
