"""C14 - no hidden state or mutation (DESIGN section 4, C14; engine E5 = qstatic/effects.py).

Decided clauses
  D1 frame condition.  No method other than __init__ of a solver class (quatica/solver.py) or of
     SparseQuaternionMatrix stores to `self.<attr>` (assignment, augmented assignment, subscript store or in-place
     method through an attribute, setattr, del), directly or through a callee that receives `self`
     (self.m(), Class.m(self, ...), helper(self)); no function stores to module globals (`global` re-binding,
     in-place write to a module-level object - including drawing from a random generator that lives at module level
     or on self, whose stream then carries over between calls -, escape of an argument into a module global),
     class attributes or attributes of modules.  Module-level values that are only read are constants, not state.  Then call k of a reused
     object is a function of (configuration, arguments, RNG stream) exactly like a fresh object - for every history.
  D2 argument immutability of every function and method of the anchored modules.  Flow-sensitive may-alias from the
     parameters through view-returning operations, killed by fresh ones; a write through an alias of a parameter
     (subscript / slice store, augmented assignment, np.fill_diagonal, out=, in-place methods), directly or through
     a callee whose summary says it writes its k-th parameter, is reported.  Nested helpers and private
     (underscore-prefixed, not exported) module-level helpers that write their own argument by design are summarised
     and judged at their call sites: a finding arises where an alias of a public function's / method's parameter is
     passed (through any chain of helpers), or when such a helper has no call site to be charged to.  Callables
     (function aliases, bound methods, lambdas, accessors passed as arguments) are resolved to may-point-to sets;
     a public function that hands its own parameter to a caller-supplied callable, and any callable of unknown
     provenance applied to a tracked value, stop the analysis (exit 2).
  D3 RNG discipline.  Draws come from the global legacy generator or from a Generator built by
     np.random.default_rng(<argument | integer constant>); np.random.seed only in a constructor under
     `<seed> is not None`; any other source (unseeded default_rng, RandomState, stdlib random, ...) is reported.
  D4 time taint.  Clock readings reach only timing fields (timing-named dict keys, containers of clock readings,
     prints); never a condition, an index, an operand mixed with data, an argument of a computation, a non-timing
     result field.
  D5 dual import paths.  try/except import pairs bind the same names from the same analysed module under both
     spellings; every flat import resolves to a file of the analysed tree and every imported name exists there;
     in sub-packages the module-level sys.path extension that makes the flat import resolvable precedes it.
Not decided: reproducibility of routines drawing from the global generator is conditional on reseeding; advancing a
caller-supplied Generator is not counted as argument mutation; `.copy()` is modelled with ndarray semantics.
"""
from __future__ import annotations

import ast
import os
import posixpath
import re
import shutil
import sys
import tempfile

from qstatic.effects import (EffectsEngine, rng_sites, module_rng_sites, resolve_seed_helper, time_taint, is_static, is_classmethod, Resolver,
                             LIB_VIEW, LIB_INPLACE, METHOD_MUTATES, METHOD_VIEW)
from qstatic.src import AnalysisError, Program

LEVEL = "other"
EXPLANATION = ("Static effect analysis (pure ast data-flow, no execution): flow-sensitive may-alias sets from every "
               "parameter, interprocedural mutation / returned-alias summaries to a global fixpoint over the resolved "
               "call graph, stores to self / class / module state, classification of every RNG call and its seed "
               "provenance, clock-reading taint, and resolution of both spellings of every dual import.")

R1, R2, R3, R4, R5 = "C14.D1.self-store", "C14.D2.arg-mutation", "C14.D3.rng", "C14.D4.time", "C14.D5.imports"

# anchored modules (Program module names); a vanished anchor is an AnalysisError (exit 2)
QUICK_MODULES = ["solver", "utils", "decomp.qsvd", "decomp.LU", "decomp.eigen", "decomp.tridiagonalize",
                 "decomp.hessenberg", "decomp.schur", "tensor", "qslst", "data_gen"]
CLASS_MODULES = ["solver", "utils"]          # D1: classes whose objects are reused across calls
# minimum instance counts, confirmed by reading the current tree (Appendix F)
MIN_FUNCS = 100          # functions and methods analysed for D2 (134 on the tree)
MIN_CLASSES = 8          # 7 solver classes + SparseQuaternionMatrix
MIN_METHODS = 25         # non-constructor methods under the frame condition (28 on the tree)
MIN_HELPER_CALLS = 6     # call sites of helpers that write their argument (apply_left_rows / apply_right_cols)
MIN_STORE_SITES = 180    # store sites classified local / through-a-parameter (260 on the tree)
MIN_RNG_SITES = 30       # 26 randn, 4 sparse.random, 3 seed, 3 default_rng, 7 Generator draws on the tree
MIN_RNG_SEED, MIN_RNG_CTOR = 3, 3
MIN_TIME_FUNCS = 5       # HON compute, RSP column / row variant, hybrid compute, CGNE compute
MIN_PAIRS = 4            # 6 on the tree (solver x4, data_gen x2)
MIN_FLAT = 7             # 20 on the tree: 7 module-level in decomp/, 6 function-level in utils, 7 fallback / solver
MIN_SYSPATH = 7
MIN_IMPORT_SITES = 25    # 6 try/except groups + 26 single import statements of repository modules under quatica/ (32 on the tree)

THIRD_PARTY = {"numpy", "scipy", "quaternion", "matplotlib", "PIL", "skimage", "seaborn", "pandas", "tqdm", "numba",
               "cv2", "imageio", "pytest", "sklearn", "h5py", "joblib", "psutil", "sympy", "torch", "mpl_toolkits",
               "setuptools", "pkg_resources", "yaml", "requests", "IPython"}


# ================================================================================================
def run(ctx):
    prog = ctx.program
    for m in QUICK_MODULES:
        prog.module(m)                      # anchors
    scope = list(QUICK_MODULES)
    if ctx.thorough:
        for name, mod in sorted(prog.modules.items()):
            if mod.relpath.startswith("quatica" + os.sep) and name not in scope and mod.all_funcs:
                scope.append(name)
    ctx.assume("python ast reflects the code that runs; no monkey-patching, no dynamic code (exec/eval are rejected)",
               "library model of qstatic/effects.py: view-returning vs fresh vs in-place numpy / scipy / quaternion "
               "callables and methods (unknown callables applied to tracked values stop the analysis)",
               "`.copy()` has ndarray semantics (deep data copy); operators on repository classes are pure because "
               "their dunder methods are themselves analysed",
               "flat imports of modules directly under quatica/ rely on quatica/ being on sys.path (script / test "
               "convention); sub-package modules must extend sys.path themselves",
               "the `quatica.`-qualified spelling is importable in both styles (the distribution root is on sys.path: "
               "installed / .pth / working directory); in package mode flat spellings inside functions rely on the "
               "sys.path extensions executed by the modules that `import quatica` loads",
               "D4 is a flow-insensitive intra-procedural taint; D3 judges the seed expression syntactically "
               "(argument or integer constant, never None by default)")
    eng = EffectsEngine(prog, scope).solve()
    counts = check_d1_d2(ctx, prog, eng, scope)
    counts.update(check_d3(ctx, prog, eng, scope))
    counts.update(check_d4(ctx, prog, eng, scope))
    counts.update(check_d5(ctx, prog, thorough=ctx.thorough))
    counts["modules_in_scope"] = scope
    counts["interprocedural_rounds"] = eng.rounds
    ctx.notes["c14_counts"] = counts
    ctx.notes["library_model_entries_used"] = sorted(set().union(*[eng.result(f).lib_used for f in eng.universe]))
    ctx.require_instances(R1, MIN_METHODS + MIN_FUNCS)
    ctx.require_instances(R2, MIN_FUNCS)
    ctx.require_instances(R3, MIN_RNG_SITES)
    ctx.require_instances(R4, MIN_TIME_FUNCS)
    ctx.require_instances(R5, MIN_PAIRS + MIN_FLAT)
    if ctx.thorough:
        print(f"[C14] thorough sweep: modules={len(scope)} functions={counts['functions']} "
              f"store_sites={counts['store_sites']} calls={counts['calls']} repo_calls={counts['repo_calls']} "
              f"rng_sites={counts['rng_sites']} time_functions={counts['time_functions']} "
              f"import_pairs={counts['import_pairs']} flat_imports={counts['flat_imports']}")
        if (ctx.root == "/repo" and not os.environ.get("VERIF_NO_SELFTEST")) or os.environ.get("C14_SELFTEST") == "1":
            ctx.notes["selftest"] = selftest(ctx)


# ================================================================================================
# D1 / D2
# ================================================================================================
def _self_param(fi):
    """Name of the instance parameter of a plain method (None for functions, static methods)."""
    if fi.cls is None or fi.parent is not None or is_static(fi):
        return None
    a = fi.node.args.posonlyargs + fi.node.args.args
    return a[0].arg if a else None


def _is_private_helper(fi):
    """Module-level function with a leading underscore (not a dunder) that the module does not export."""
    if fi.cls is not None or fi.parent is not None:
        return False
    if not fi.name.startswith("_") or (fi.name.startswith("__") and fi.name.endswith("__")):
        return False
    for st in fi.module.tree.body:
        if isinstance(st, ast.Assign) and any(isinstance(t, ast.Name) and t.id == "__all__" for t in st.targets):
            if isinstance(st.value, (ast.List, ast.Tuple)):
                if any(isinstance(x, ast.Constant) and x.value == fi.name for x in st.value.elts):
                    return False
    return True


def _kind_text(kind, via):
    if kind == "call":
        return f"passed to {via}, which writes it"
    if via:
        return f"{kind} in {via}"
    return kind


def check_d1_d2(ctx, prog, eng, scope):
    n_funcs = n_store = n_calls = n_repo = n_methods = 0
    classes = []
    for mn in scope:
        mod = prog.module(mn)
        for ci in mod.classes.values():
            if mn in CLASS_MODULES or ctx.thorough:
                classes.append(ci)
    if len([c for c in classes if c.module.name in CLASS_MODULES]) < MIN_CLASSES:
        raise AnalysisError(f"C14.D1: {len(classes)} classes found in solver.py/utils.py, fewer than the "
                            f"{MIN_CLASSES} confirmed by reading")
    prog.cls("utils", "SparseQuaternionMatrix")
    class_ids = {id(c) for c in classes}
    helper_sites = []
    private_writers = []
    call_site_count = {}       # callee where -> number of call sites (in the universe) of a callee that writes a parameter
    for fi in eng.universe:
        for site in eng.result(fi).mut_call_sites:
            call_site_count[site[4]] = call_site_count.get(site[4], 0) + 1
    n_transitive_state = 0
    for _once in (0,):
        for fi in eng.universe:          # functions of the scope modules + repository callees analysed on demand
            ctx.touch(fi)
            res = eng.result(fi)
            n_funcs += 1
            n_store += int(res.n_store_sites)
            n_calls += int(res.n_calls)
            n_repo += int(res.n_repo_calls)
            helper_sites += [(fi, s) for s in res.mut_call_sites]
            selfp = _self_param(fi)
            cmeth = fi.cls is not None and is_classmethod(fi)
            # ---------------- D1: hidden state of every function
            # writes performed by this function itself are findings here; writes inherited from callees are
            # reported at the callee (every callee is in the universe), only counted for the caller
            st = [x for x in res.state_effects if not x[2]]
            glob_effs = [e for e in res.effects if e.origin[0] == "global"]
            n_transitive_state += len(res.state_effects) - len(st)
            if not st and not glob_effs:
                ctx.ob(R1, f"{fi.where}: no store to module / class state", True, where=fi.where, loc=fi.loc())
            for (kind, name, via, loc) in st:
                if kind == "global-retains-param":
                    g, _, ps = name.partition("<-")
                    what = (f"module global {g.split(':')[-1]!r} retains a reference to parameter(s) {ps}: the argument "
                            f"escapes into state that outlives the call")
                    ctx.ob(R1, f"{fi.where}: {what}", False,
                           "a later call can observe (and is affected by in-place edits of) an earlier call's argument",
                           where=fi.where, construct=what, loc=loc)
                    continue
                what = {"global-rebind": f"store to module global {name.split(':')[-1]!r} (declared global): hidden "
                                         f"cross-call state",
                        "module-global": f"module-level object {name.split(':')[-1]!r} written in place",
                        "module-attribute": f"attribute of module written: {name}",
                        "class-attribute": f"class attribute written: {name}"}.get(kind, f"{kind} {name}")
                if via:
                    what += f" (through {via})"
                ctx.ob(R1, f"{fi.where}: {what}", False,
                       "state that outlives the call is written: a later call can observe this one",
                       where=fi.where, construct=what, loc=loc)
            # module-level objects written in place arrive as effects on ("global", ...) origins
            for e in glob_effs:
                if True:
                    gname = e.origin[1].split(':')[-1]
                    if e.kind.startswith("generator draw"):
                        what = (f"module-level random generator {gname!r} is drawn from inside the function "
                                f"({e.kind}): the stream is shared across calls")
                    else:
                        what = f"module-level object {gname!r} written in place ({_kind_text(e.kind, e.via)})"
                    ctx.ob(R1, f"{fi.where}: {what}", False,
                           "module-level state is written: results depend on the call history",
                           where=fi.where, construct=what, loc=e.loc)
            # ---------------- D1: frame condition of methods
            if fi.cls is not None and id(fi.cls) in class_ids and fi.parent is None and fi.name != "__init__":
                n_methods += 1
                effs = [e for e in res.effects if e.origin[0] == "param" and e.origin[1] == (selfp or "\0")]
                if cmeth:
                    effs = [e for e in res.effects if e.origin[0] == "param" and e.origin[1] == fi.params()[0]]
                if not effs:
                    ctx.ob(R1, f"{fi.where}: frame condition (no store to self outside __init__)", True, where=fi.where,
                           loc=fi.loc(), sample=fi.name in ("solve", "compute"))
                for e in effs:
                    attr = e.origin[2] or "<object>"
                    what = f"store to self.{attr}" + (f" through {e.via}" if e.via else "")
                    if e.kind.startswith("generator draw"):
                        what = f"generator self.{attr} is drawn from ({e.kind}): its stream carries over between calls"
                    ctx.ob(R1, f"{fi.where}: {what}", False,
                           f"method writes solver state ({e.kind}); a reused object then differs from a fresh one",
                           where=fi.where, construct=what, loc=e.loc)
            # ---------------- D2: own parameters of every non-nested function
            if fi.parent is not None:
                continue
            skip = {selfp} if selfp else set()
            if cmeth and fi.params():
                skip = {fi.params()[0]}
            effs = [e for e in res.effects if e.origin[0] == "param" and e.origin[1] not in skip]
            if not effs:
                ctx.ob(R2, f"{fi.where}: no write through an alias of a parameter "
                           f"({int(res.n_store_sites)} store sites, {int(res.n_repo_calls)} resolved calls)", True, where=fi.where,
                       loc=fi.loc(), sample=fi.name in ("quaternion_lu", "Hess_QR_ggivens", "UtriangleQsparse", "hessenbergize"))
            elif _is_private_helper(fi) and call_site_count.get(fi.where, 0) > 0:
                # a private module-level helper that writes its argument by design is treated like a nested helper:
                # the write is charged to its call sites (through its summary) and becomes a finding only where an
                # alias of a public function's parameter is passed
                private_writers.append(fi.where)
                written = sorted({e.origin[1] for e in effs})
                ctx.ob(R2, f"{fi.where}: private helper writes its parameter(s) {', '.join(written)} by design; charged "
                           f"to its {call_site_count[fi.where]} call sites", True, where=fi.where, loc=fi.loc(), sample=True)
            else:
                for e in effs:
                    pname, attr = e.origin[1], e.origin[2]
                    tgt = f"parameter {pname!r}" + (f" (attribute .{attr})" if attr and e.kind in ("attribute store", "attribute delete") else "")
                    what = f"{tgt} written: {_kind_text(e.kind, e.via)}"
                    ctx.ob(R2, f"{fi.where}: {what}", False,
                           "the caller's object is modified by the call",
                           where=fi.where, construct=what, loc=e.loc)
    # A public function that hands an alias of its own parameter to a caller-supplied callable: external callers
    # choose the callable, so nothing can be said at call sites alone -> outside the analysable subset (exit 2).
    # Private / nested helpers are resolved at their call sites (summaries), where the actual callables are known.
    for fi in eng.universe:
        if fi.parent is not None or _is_private_helper(fi):
            continue
        for (key, pargs, pkws) in eng.result(fi).pcalls:
            if key[0] != "param":
                continue
            passed = set()
            for _s, v in list(pargs) + list(pkws):
                passed |= {o[1] for o in v.all() if o[0] == "param" and o[1] != key[1]}
            if passed:
                raise AnalysisError(f"{fi.where}: public function passes its parameter(s) {', '.join(sorted(passed))} to "
                                    f"the caller-supplied callable {key[1]!r}; the callable's effect cannot be resolved")
    # call sites of helpers that write their argument: the argument must be an object local to the caller
    n_helper = 0
    for fi, (callee, pname, tracked, loc, _cwhere) in helper_sites:
        n_helper += 1
        if not tracked:     # a tracked argument is already reported above as a write through the caller's parameter
            ctx.ob(R2, f"{fi.where}: object passed as {pname!r} to {callee} (which writes it) is local to the caller",
                   True, where=fi.where, loc=loc, sample=n_helper <= 2)
    if n_helper < MIN_HELPER_CALLS:
        raise AnalysisError(f"C14.D2: {n_helper} call sites of argument-writing helpers found, fewer than the "
                            f"{MIN_HELPER_CALLS} confirmed by reading (interprocedural summaries lost?)")
    if n_store < MIN_STORE_SITES:
        raise AnalysisError(f"C14.D2: only {n_store} store sites classified (< {MIN_STORE_SITES})")
    if n_methods < MIN_METHODS:
        raise AnalysisError(f"C14.D1: only {n_methods} methods under the frame condition (< {MIN_METHODS})")
    return {"functions": n_funcs, "store_sites": n_store, "calls": n_calls, "repo_calls": n_repo,
            "classes": sorted(f"{c.module.name}.{c.name}" for c in classes), "methods_frame_condition": n_methods,
            "helper_call_sites": n_helper, "hidden_state_writes_inherited_from_callees": n_transitive_state,
            "private_helpers_writing_their_argument": sorted(private_writers),
            "calls_of_caller_supplied_callables": sum(len(eng.result(f).pcalls) for f in eng.universe),
            "calls_of_unresolved_callables_without_tracked_arguments":
                sorted({f"{f.where}: {d}" for f in eng.universe for d, _l in eng.result(f).unresolved_calls})}


# ================================================================================================
# D3
# ================================================================================================
def check_d3(ctx, prog, eng, scope):
    n = n_seed = n_ctor = 0
    for _once in (0,):
        for fi in eng.universe:
            for s in rng_sites(prog, fi):
                if s.ok is None:         # np.random.seed in a helper: judged through its call sites
                    s.ok, s.why = resolve_seed_helper(eng, eng.universe, fi, s)
                n += 1
                n_seed += s.kind == "seed"
                n_ctor += s.kind == "ctor"
                ctx.ob(R3, f"{fi.where}: {s.form} - {s.why}", s.ok,
                       f"random numbers outside the RNG discipline: {s.why}", where=fi.where, construct=s.form,
                       loc=fi.loc(s.node))
    seen_mods = []
    for fi in eng.universe:
        if fi.module not in seen_mods:
            seen_mods.append(fi.module)
    for mod in seen_mods:
        for s, bound in module_rng_sites(prog, mod):
            n += 1
            n_seed += s.kind == "seed"
            n_ctor += s.kind == "ctor"
            where = f"{mod.relpath}::<module>"
            ctx.ob(R3, f"{where}: {s.form}" + (f" bound to {bound!r}" if bound else "") + f" - {s.why}", s.ok,
                   f"random numbers outside the RNG discipline: {s.why}", where=where, construct=s.form,
                   loc=f"{mod.relpath}:{s.node.lineno}")
    if n_seed < MIN_RNG_SEED or n_ctor < MIN_RNG_CTOR:
        raise AnalysisError(f"C14.D3: {n_seed} seed sites / {n_ctor} generator constructors found, fewer than "
                            f"{MIN_RNG_SEED} / {MIN_RNG_CTOR} confirmed by reading")
    return {"rng_sites": n, "rng_seed_sites": n_seed, "rng_generator_constructors": n_ctor}


# ================================================================================================
# D4
# ================================================================================================
def check_d4(ctx, prog, eng, scope):
    nf = nuses = nsrc = 0
    for _once in (0,):
        for fi in eng.universe:
            rep = time_taint(prog, fi)
            if not rep.sources:
                continue
            nf += 1
            nuses += rep.uses
            nsrc += len(rep.sources)
            if not rep.findings:
                ctx.ob(R4, f"{fi.where}: {len(rep.sources)} clock readings, {rep.uses} uses reach only timing fields",
                       True, where=fi.where, loc=fi.loc(rep.sources[-1]))
            seen = set()
            for f in rep.findings:
                if f.construct in seen:
                    continue
                seen.add(f.construct)
                ctx.ob(R4, f"{fi.where}: {f.construct}", False, f.message, where=fi.where, construct=f.construct,
                       loc=fi.loc(f.node))
    return {"time_functions": nf, "time_sources": nsrc, "time_uses": nuses}


# ================================================================================================
# D5
# ================================================================================================
def _scope_name(mod, node, parents):
    cur = node
    names = []
    while cur in parents:
        cur = parents[cur]
        if isinstance(cur, (ast.FunctionDef, ast.AsyncFunctionDef, ast.ClassDef)):
            names.append(cur.name)
    return ".".join(reversed(names)) or "<module>"


def _in_function(node, parents):
    cur = node
    while cur in parents:
        cur = parents[cur]
        if isinstance(cur, (ast.FunctionDef, ast.AsyncFunctionDef)):
            return True
    return False


def _bindings(prog, mod, stmts):
    """local name -> (target module name | None, attribute | None, spelled module) for a list of import statements;
    None when the list contains anything but imports / pass."""
    out = {}
    for s in stmts:
        if isinstance(s, ast.ImportFrom):
            t = prog.resolve_module(mod, s.module, s.level)
            for al in s.names:
                out[al.asname or al.name] = (t.name if t is not None else None, al.name,
                                             "." * s.level + (s.module or ""))
        elif isinstance(s, ast.Import):
            for al in s.names:
                t = prog.resolve_module(mod, al.name, 0)
                out[al.asname or al.name.split(".")[0]] = (t.name if t is not None else None, None, al.name)
        elif isinstance(s, ast.Pass):
            continue
        else:
            return None
    return out


def _name_exists(prog, target, attr):
    from qstatic.effects import module_data_globals
    if attr is None or attr == "*":
        return True
    if prog.lookup_export(target.name, attr) is not None:
        return True
    return attr in module_data_globals(target)


def _eval_path(e, mod, consts):
    """Evaluate a path expression built from __file__, os.path.dirname/join/abspath/realpath/normpath, pathlib
    .parent / '/', string constants and module-level names bound to such expressions.  Result: posix path relative
    to the analysed root, or None."""
    file_rel = mod.relpath.replace(os.sep, "/")
    if isinstance(e, ast.Constant) and isinstance(e.value, str):
        return e.value
    if isinstance(e, ast.Name):
        if e.id == "__file__":
            return file_rel
        return consts.get(e.id)
    if isinstance(e, ast.Call):
        fn = ast.unparse(e.func)
        args = [_eval_path(a, mod, consts) for a in e.args]
        if fn in ("os.path.dirname", "dirname") and len(args) == 1 and args[0] is not None:
            return posixpath.dirname(args[0]) or "."
        if fn in ("os.path.join", "join") and args and all(a is not None for a in args):
            return posixpath.normpath(posixpath.join(*args))
        if fn in ("os.path.abspath", "os.path.realpath", "os.path.normpath", "abspath", "realpath", "str", "Path",
                  "pathlib.Path", "os.fspath") and len(args) == 1 and args[0] is not None:
            return posixpath.normpath(args[0])
        if isinstance(e.func, ast.Attribute) and e.func.attr in ("resolve", "absolute", "as_posix", "__str__") and not e.args:
            return _eval_path(e.func.value, mod, consts)
        return None
    if isinstance(e, ast.Attribute) and ast.unparse(e) in ("os.pardir", "os.path.pardir"):
        return ".."
    if isinstance(e, ast.Attribute) and ast.unparse(e) in ("os.curdir", "os.path.curdir"):
        return "."
    if isinstance(e, ast.Attribute) and e.attr == "parent":
        v = _eval_path(e.value, mod, consts)
        return None if v is None else (posixpath.dirname(v) or ".")
    if isinstance(e, ast.BinOp) and isinstance(e.op, ast.Div):
        l, r = _eval_path(e.left, mod, consts), _eval_path(e.right, mod, consts)
        return None if l is None or r is None else posixpath.normpath(posixpath.join(l, r))
    return None


def _module_level_nodes(tree):
    """Statements executed at import time (not inside def / class bodies), in source order."""
    out = []

    def visit(stmts):
        for s in stmts:
            if isinstance(s, (ast.FunctionDef, ast.AsyncFunctionDef, ast.ClassDef)):
                continue
            out.append(s)
            for fld in ("body", "orelse", "finalbody"):
                sub = getattr(s, fld, None)
                if isinstance(sub, list) and sub and isinstance(sub[0], ast.stmt):
                    visit(sub)
            for h in getattr(s, "handlers", []) or []:
                visit(h.body)

    visit(tree.body)
    return out


def _syspath_dirs(mod):
    """[(order key, evaluated dir | None, node)] of module-level sys.path extensions."""
    consts, out = {}, []
    for s in _module_level_nodes(mod.tree):
        if isinstance(s, ast.Assign) and len(s.targets) == 1 and isinstance(s.targets[0], ast.Name):
            v = _eval_path(s.value, mod, consts)
            if v is not None:
                consts[s.targets[0].id] = v
        exprs = []
        if isinstance(s, ast.Expr) and isinstance(s.value, ast.Call):
            c = s.value
            fn = ast.unparse(c.func)
            if fn == "sys.path.append" and c.args:
                exprs = [c.args[0]]
            elif fn == "sys.path.insert" and len(c.args) >= 2:
                exprs = [c.args[1]]
            elif fn == "sys.path.extend" and c.args and isinstance(c.args[0], (ast.List, ast.Tuple)):
                exprs = list(c.args[0].elts)
        elif isinstance(s, ast.AugAssign) and ast.unparse(s.target) == "sys.path" and isinstance(s.value, (ast.List, ast.Tuple)):
            exprs = list(s.value.elts)
        for x in exprs:
            v = _eval_path(x, mod, consts)
            out.append(((s.lineno, s.col_offset), None if v is None else posixpath.normpath(v), s))
    return out


def _needed_dir(target, spelled):
    """Directory that must be on sys.path for `import <spelled>` to find module `target`."""
    p = target.relpath.replace(os.sep, "/")
    p = p[:-len("/__init__.py")] if p.endswith("/__init__.py") else p[:-3]
    comps = p.split("/")
    k = len(spelled.split("."))
    return "/".join(comps[:-k]) or "."


def _alternatives(t):
    """Import alternatives of a try/except group, in the order they are tried: [(handler | None, statements)].
    A handler whose body is itself a try/except of imports contributes its alternatives in turn."""
    out = [(None, list(t.body))]
    for h in t.handlers:
        body = [x for x in h.body if not isinstance(x, ast.Pass)] or list(h.body)
        if len(body) == 1 and isinstance(body[0], ast.Try) and body[0].handlers and all(
                isinstance(x, (ast.Import, ast.ImportFrom, ast.Pass)) for x in body[0].body):
            sub = _alternatives(body[0])
            out.append((h, sub[0][1]))
            out.extend(sub[1:])
        else:
            out.append((h, list(h.body)))
    return out


def _catches_import_error(h, failing_style):
    """Does this handler catch the ImportError raised when an import of the given style fails?  A failing relative
    import raises plain ImportError (no parent package), a failing flat / package-absolute one ModuleNotFoundError."""
    if h.type is None:
        return True
    names = [x.id for x in ast.walk(h.type) if isinstance(x, ast.Name)]
    if any(n in ("Exception", "BaseException", "ImportError") for n in names):
        return True
    return "ModuleNotFoundError" in names and failing_style != "relative"


def _package_mode_dirs(prog):
    """Directories that module-level code has put on sys.path once `import quatica` has run: the sys.path extensions
    of every module the package __init__ loads (transitively, through module-level imports, sub-package __init__
    files included).  This is the reason flat spellings inside function bodies work in package mode."""
    root = prog.modules.get("__pkg__")
    if root is None:
        return set()
    seen, work, dirs = set(), [root], set()
    while work:
        m = work.pop()
        if m.name in seen:
            continue
        seen.add(m.name)
        dirs |= {d for (_pos, d, _n) in _syspath_dirs(m) if d is not None}
        for st in _module_level_nodes(m.tree):
            specs = []
            if isinstance(st, ast.ImportFrom):
                specs = [(st.module or "", st.level)]
                if st.level and not st.module:
                    specs = [(al.name, st.level) for al in st.names]
            elif isinstance(st, ast.Import):
                specs = [(al.name, 0) for al in st.names]
            for spelled, level in specs:
                t = prog.resolve_module(m, spelled, level)
                if t is None:
                    continue
                work.append(t)
                # importing a.b.c runs the __init__ of a and a.b first
                parts = t.name.split(".")
                for i in range(1, len(parts)):
                    pk = prog.modules.get(".".join(parts[:i]))
                    if pk is not None and pk.is_package:
                        work.append(pk)
    return dirs


def _import_style(spelled, level):
    if level:
        return "relative"
    return "package-absolute" if spelled.split(".")[0] == "quatica" else "flat"


def _works(prog, mod, stmt, spelled, level, style_mode, own_dirs, pkg_dirs, in_function):
    """Does this import spelling succeed when the library is used in `style_mode` ("package": imported as
    quatica.<module>; "flat": quatica/ on sys.path, imported as <module>)?  Reasons, not names:
      relative          package: always.  flat: only while it stays inside a sub-package that is itself importable flat
                        (quatica/decomp/x.py -> `.y` is decomp.y); a top-level module has no parent package.
      package-absolute  both: the distribution root is importable (installed / .pth / working directory) - assumption.
      flat              flat: the needed directory is quatica/ (convention) or one the module itself put on sys.path before.
                        package: the needed directory was put on sys.path by the module itself (before, at module level)
                        or, for imports executed inside functions, by any module that `import quatica` loads."""
    target = prog.resolve_module(mod, spelled, level)
    if target is None:
        return False
    st = _import_style(spelled, level)
    rel = mod.relpath.replace(os.sep, "/")
    if st == "package-absolute":
        return True
    if st == "relative":
        if style_mode == "package":
            return True
        comps = rel.split("/")[1:-1]            # packages below quatica/ that contain the module
        return len(comps) >= level
    need = _needed_dir(target, spelled)
    pos = (stmt.lineno, stmt.col_offset)
    own = {d for (p_, d, _n) in own_dirs if d is not None and (in_function or p_ < pos)}
    if need in own:
        return True
    if style_mode == "flat":
        return need == "quatica"
    return in_function and need in pkg_dirs


def check_d5(ctx, prog, thorough=False):
    n_pairs = n_flat = n_syspath = n_other = 0
    n_groups = 0
    pkg_dirs = _package_mode_dirs(prog)
    mods = [m for m in prog.modules.values() if m.relpath.startswith("quatica" + os.sep)]
    if thorough:
        mods += [m for m in prog.modules.values() if not m.relpath.startswith("quatica" + os.sep)]
    for mod in sorted(mods, key=lambda m: m.relpath):
        parents = {}
        for n in ast.walk(mod.tree):
            for ch in ast.iter_child_nodes(n):
                parents[ch] = n
        moddir = posixpath.dirname(mod.relpath.replace(os.sep, "/"))
        in_subpackage = moddir not in ("quatica",)
        sysdirs = _syspath_dirs(mod)
        in_pair_handler = set()
        # ---------------- try/except import pairs
        for t in ast.walk(mod.tree):
            if not isinstance(t, ast.Try) or not t.handlers:
                continue
            body = _bindings(prog, mod, t.body)
            if not body:
                continue
            flat_alts = _alternatives(t)[1:]
            hbs = [_bindings(prog, mod, stmts) for _h, stmts in flat_alts]
            touches_repo = any(v[0] is not None for v in body.values()) or \
                any(hb and any(v[0] is not None for v in hb.values()) for hb in hbs)
            if not touches_repo:
                continue            # optional third-party dependency, not a dual spelling of a repository module
            where = f"{mod.relpath}::{_scope_name(mod, t, parents)}"
            n_pairs += 1
            problems = []
            for (h, _stmts), hb in zip(flat_alts, hbs):
                for s in h.body:
                    in_pair_handler.add(s)
                if hb is None:
                    problems.append("fallback branch is not a plain import of the same names")
                    continue
                missing = sorted(set(body) - set(hb))
                extra = sorted(set(hb) - set(body))
                if missing:
                    problems.append(f"fallback import does not bind {', '.join(missing)}")
                if extra:
                    problems.append(f"fallback import binds extra names {', '.join(extra)}")
                for nm in sorted(set(body) & set(hb)):
                    (m1, a1, sp1), (m2, a2, sp2) = body[nm], hb[nm]
                    if m1 is None:
                        problems.append(f"import of {nm} from {sp1!r} does not resolve to an analysed module")
                    elif m2 is None:
                        problems.append(f"fallback import of {nm} from {sp2!r} does not resolve to an analysed module")
                    elif (m1, a1) != (m2, a2):
                        problems.append(f"{nm} is {m1}.{a1} in the package spelling but {m2}.{a2} in the fallback")
                    elif not _name_exists(prog, prog.modules[m1], a1):
                        problems.append(f"name {a1} does not exist in module {m1}")
            # order: the package (relative / `quatica.`-qualified) spelling must be tried first.  In package mode the flat
            # spelling is importable too (the sub-package modules extend sys.path) and would load a SECOND copy of the module,
            # so classes bound flat-first fail isinstance checks against objects built through the package.
            def _is_pkg_spelling(stmts):
                for st_ in stmts:
                    if isinstance(st_, ast.ImportFrom):
                        return st_.level > 0 or (st_.module or "").split(".")[0] == "quatica"
                    if isinstance(st_, ast.Import):
                        return any(al.name.split(".")[0] == "quatica" for al in st_.names)
                return None
            first = _is_pkg_spelling(t.body)
            others = [_is_pkg_spelling(stmts) for _h, stmts in flat_alts]
            if first is False and any(o is True for o in others):
                problems.append("flat spelling is tried before the package spelling (a second copy of the module is loaded in package mode)")
            inst = f"{where}: try/except import pair binds {{{', '.join(sorted(body))}}} identically"
            if not problems:
                ctx.ob(R5, inst, True, where=where)
            for pr in problems:
                ctx.ob(R5, f"{where}: {pr}", False, "the two import spellings do not provide the same objects",
                       where=where, construct=pr, loc=f"{mod.relpath}:{t.lineno}")
        # ---------------- both import styles: every import site of a repository module must succeed whether the library
        # is used as a package or as flat modules.  A site is one import statement or a try/except group of alternatives
        # (tried in order; a handler is an alternative only if it catches the ImportError of the alternative before it).
        if mod.relpath.startswith("quatica" + os.sep) and mod.name != "__pkg__":
            grouped = set()
            nested_try = set()
            sites = []
            for t in ast.walk(mod.tree):
                if isinstance(t, ast.Try) and t.handlers and _bindings(prog, mod, t.body) and id(t) not in nested_try:
                    fa = _alternatives(t)
                    for x in ast.walk(t):
                        if isinstance(x, ast.Try) and x is not t:
                            nested_try.add(id(x))
                    alts = [[st for st in t.body if isinstance(st, (ast.Import, ast.ImportFrom))]]
                    for h, stmts in fa[1:]:
                        hb = [st for st in stmts if isinstance(st, (ast.Import, ast.ImportFrom))]
                        alts.append((h, hb))
                    for a in [alts[0]] + [hb for _h, hb in alts[1:]]:
                        grouped.update(id(x) for x in a)
                    sites.append((t, alts))
            for st in ast.walk(mod.tree):
                if isinstance(st, (ast.Import, ast.ImportFrom)) and id(st) not in grouped:
                    sites.append((st, [[st]]))
            for anchor, alts in sites:
                def specs_of(st):
                    if isinstance(st, ast.ImportFrom):
                        return [(st.module or "", st.level)]
                    return [(al.name, 0) for al in st.names]
                first_specs = [sp for st in alts[0] for sp in specs_of(st)]
                if not any(prog.resolve_module(mod, sp, lv) is not None for sp, lv in first_specs) and not any(
                        prog.resolve_module(mod, sp, lv) is not None for a in alts[1:] for st in a[1] for sp, lv in specs_of(st)):
                    continue                     # not a repository module
                where = f"{mod.relpath}::{_scope_name(mod, anchor, parents)}"
                in_fn = _in_function(anchor, parents)
                n_groups += 1
                shown_first = ", ".join("." * lv + sp for sp, lv in first_specs)
                verdict = {}
                for mode in ("package", "flat"):
                    ok = False
                    prev_style = None
                    for i, a in enumerate(alts):
                        stmts = a if i == 0 else a[1]
                        if i > 0 and not _catches_import_error(a[0], prev_style):
                            continue             # this handler does not catch the failure of the previous alternative
                        if not stmts:
                            continue
                        w = all(_works(prog, mod, st, sp, lv, mode, sysdirs, pkg_dirs, in_fn)
                                for st in stmts for sp, lv in specs_of(st))
                        if w:
                            ok = True
                            break
                        prev_style = _import_style(*specs_of(stmts[0])[0])
                    verdict[mode] = ok
                if all(verdict.values()):
                    ctx.ob(R5, f"{where}: import of {shown_first!r} succeeds in the package style and in the flat style "
                               f"({len(alts)} alternative(s))", True, where=where, loc=f"{mod.relpath}:{anchor.lineno}")
                    continue
                for mode, ok in verdict.items():
                    if ok:
                        continue
                    styles = sorted({_import_style(sp, lv) for i, a in enumerate(alts) for st in (a if i == 0 else a[1])
                                     for sp, lv in specs_of(st)})
                    what = (f"import of {shown_first!r} has only the {' / '.join(styles)} spelling: it fails when the library "
                            f"is used in the {mode} style (no {'flat' if mode == 'flat' else 'package'}-style alternative)")
                    # is the ImportError swallowed by an enclosing handler that neither re-imports nor re-raises?
                    cur, swallowed = anchor, False
                    while cur in parents:
                        pn = parents[cur]
                        if isinstance(pn, ast.Try) and cur in pn.body and pn is not anchor:
                            for h in pn.handlers:
                                if _catches_import_error(h, styles[0]) and not any(
                                        isinstance(x, (ast.Raise, ast.Import, ast.ImportFrom)) for x in ast.walk(h)):
                                    swallowed = True
                        if isinstance(pn, (ast.FunctionDef, ast.AsyncFunctionDef)):
                            break
                        cur = pn
                    msg = "ImportError under one of the two import styles"
                    if swallowed:
                        what += "; the ImportError is swallowed by an enclosing except handler"
                        msg = ("the ImportError is caught by a blanket handler that neither re-imports nor re-raises: the code "
                               "silently takes a different path under this import style")
                    ctx.ob(R5, f"{where}: {what}", False, msg, where=where, construct=what,
                           loc=f"{mod.relpath}:{anchor.lineno}")
        # ---------------- every import statement
        for s in ast.walk(mod.tree):
            if isinstance(s, ast.ImportFrom):
                specs = [(s.module or "", s.level, [al.name for al in s.names])]
            elif isinstance(s, ast.Import):
                specs = [(al.name, 0, [None]) for al in s.names]
            else:
                continue
            where = f"{mod.relpath}::{_scope_name(mod, s, parents)}"
            for spelled, level, names in specs:
                top = spelled.split(".")[0]
                if level == 0 and (top in sys.stdlib_module_names or top in THIRD_PARTY or top == "__future__"):
                    continue
                target = prog.resolve_module(mod, spelled, level)
                shown = "." * level + spelled
                is_flat = level == 0 and top != "quatica"
                if target is None:
                    what = f"import of {shown!r} does not resolve to a file of the analysed tree"
                    ctx.ob(R5, f"{where}: {what}", False, "module not found in the repository and not a known external "
                           "dependency", where=where, construct=what, loc=f"{mod.relpath}:{s.lineno}")
                    n_flat += is_flat
                    continue
                missing = [a for a in names if a is not None and not _name_exists(prog, target, a)]
                if is_flat:
                    n_flat += 1
                    kind = "flat import"
                else:
                    n_other += 1
                    kind = "package import"
                if not missing:
                    ctx.ob(R5, f"{where}: {kind} {shown!r} resolves to {target.relpath} with "
                               f"{len([a for a in names if a])} names", True, where=where)
                for a in missing:
                    what = f"{kind} of {a} from {shown!r}: no such name in {target.relpath}"
                    ctx.ob(R5, f"{where}: {what}", False, "ImportError at run time under this spelling",
                           where=where, construct=what, loc=f"{mod.relpath}:{s.lineno}")
                if not is_flat:
                    continue
                # which sys.path entry makes the flat spelling resolvable?
                need = _needed_dir(target, spelled)
                at_module_level = not _in_function(s, parents)
                if not in_subpackage and need == moddir:
                    continue        # convention: the directory of top-level quatica modules is on sys.path
                n_syspath += 1
                cands = [d for (pos, d, node) in sysdirs if d == need and
                         (not at_module_level or pos < (s.lineno, s.col_offset))]
                what = (f"flat import {shown!r} needs {need!r} on sys.path but no module-level sys.path extension "
                        f"{'precedes it' if at_module_level else 'provides it'}")
                ctx.ob(R5, f"{where}: sys.path extension to {need!r} precedes flat import {shown!r}", bool(cands),
                       "the flat import cannot be resolved when this module is imported first",
                       where=where, construct=what, loc=f"{mod.relpath}:{s.lineno}")
    if n_pairs < MIN_PAIRS or n_flat < MIN_FLAT or n_syspath < MIN_SYSPATH:
        raise AnalysisError(f"C14.D5: {n_pairs} import pairs / {n_flat} flat imports / {n_syspath} sys.path-dependent "
                            f"imports found, fewer than {MIN_PAIRS} / {MIN_FLAT} / {MIN_SYSPATH} confirmed by reading")
    if n_groups < MIN_IMPORT_SITES:
        raise AnalysisError(f"C14.D5: {n_groups} repository import sites found, fewer than {MIN_IMPORT_SITES} confirmed by reading")
    return {"import_pairs": n_pairs, "flat_imports": n_flat, "syspath_dependent_imports": n_syspath,
            "package_imports": n_other, "import_sites_checked_in_both_styles": n_groups,
            "sys_path_dirs_in_package_mode": sorted(pkg_dirs)}


# ================================================================================================
# checker self-test (thorough tier): seeded variants on scratch copies, both ways
# ================================================================================================
# (relative file, regex matching exactly once, replacement, expectation)
#   expectation ("F", rule, where-substring, construct-substring)  must be reported naming that instance
#               ("S",)                                             verdict must equal the unedited tree's
VARIANTS = [
    ("LU: A_work = A", "quatica/decomp/LU.py", r"A_work = A\.copy\(\)", "A_work = A",
     ("F", R2, "quaternion_lu", "parameter 'A' written: subscript store")),
    ("QGMRES.solve caches N on self", "quatica/solver.py", r"(        N = A0\.shape\[1\]  # Number of columns in A\n)", "\\1        self._n = N\n",
     ("F", R1, "QGMRESSolver.solve", "store to self._n")),
    ("Hess_QR_ggivens: defensive copy removed", "quatica/utils.py", r"    Hess = np\.array\(Hess, dtype=float, copy=True\)\n", "",
     ("F", R2, "Hess_QR_ggivens", "parameter 'Hess' written: subscript store")),
    ("UtriangleQsparse: defensive copies removed", "quatica/utils.py",
     r"    b0, b1, b2, b3 = b0\.copy\(\), b1\.copy\(\), b2\.copy\(\), b3\.copy\(\)\n", "",
     ("F", R2, "UtriangleQsparse", "parameter 'b0' written: subscript store")),
    ("RSP compute: clamp stored on self", "quatica/solver.py",
     r"(\n        m, n = A\.shape\n\n        if m >= n:\n            # Use column variant)",
     "\n        m, n = A.shape\n        self.block_size = max(1, min(self.block_size, m, n))\n\n        if m >= n:\n            # Use column variant",
     ("F", R1, "RandomizedSketchProjectPseudoinverse.compute", "store to self.block_size")),
    ("QGMRES.solve: max_iter stored on self", "quatica/solver.py",
     r"        max_iter = N if self\.max_iter is None else self\.max_iter\n",
     "        if self.max_iter is None:\n            self.max_iter = N\n        max_iter = self.max_iter\n",
     ("F", R1, "QGMRESSolver.solve", "store to self.max_iter")),
    ("module-level cache", "quatica/utils.py", r"def quat_eye\(n: int\) -> np\.ndarray:\n",
     "_CACHE = {}\n\n\ndef quat_eye(n: int) -> np.ndarray:\n    _CACHE[n] = n\n",
     ("F", R1, "quat_eye", "module-level object '_CACHE' written in place")),
    ("unseeded default_rng in a sketch", "quatica/solver.py", r"        real_part = np\.random\.randn\(rows, cols\)\n",
     "        real_part = np.random.default_rng().standard_normal((rows, cols))\n",
     ("F", R3, "_generate_random_sketch", "np.random.default_rng() called without a seed")),
    ("wall-clock stopping rule", "quatica/solver.py", r"(            t0 = time\.time\(\)\n            W = quat_matmat\(D, A\)[^\n]*\n)",
     "\\1            if time.time() - t0 > 5:\n                break\n",
     ("F", R4, "CGNEQSolver.compute", "time value in the condition of If")),
    ("fallback import misses a name", "quatica/solver.py", r"(    from utils import \(\n        A2A0123,\n)        Hess_QR_ggivens,\n", "\\1",
     ("F", R5, "solver.py::<module>", "fallback import does not bind Hess_QR_ggivens")),
    ("in-place kernel on an argument (public function)", "quatica/decomp/hessenberg.py", r"    H_clean = H\.copy\(\)\n",
     "    H_clean = H\n",
     ("F", R2, "check_hessenberg", "parameter 'H' written: subscript store")),
    ("in-place private kernel: charged to its call sites, all of which pass fresh arrays", "quatica/solver.py",
     r"    X = np\.zeros_like\(B\)\n    for i in range\(n\):\n", "    X = B\n    for i in range(n):\n", ("S",)),
    ("private module-level helper applied to a public parameter", "quatica/tensor.py",
     r"def tensor_frobenius_norm\(T: np\.ndarray\) -> float:\n",
     "def _zero_first(M):\n    M[0] = 0\n\n\ndef tensor_frobenius_norm(T: np.ndarray) -> float:\n    _zero_first(T)\n",
     ("F", R2, "tensor_frobenius_norm", "parameter 'T' written: passed to _zero_first(M)")),
    ("private module-level writer without any call site", "quatica/tensor.py",
     r"def tensor_frobenius_norm\(T: np\.ndarray\) -> float:\n",
     "def _zero_first(M):\n    M[0] = 0\n\n\ndef tensor_frobenius_norm(T: np.ndarray) -> float:\n",
     ("F", R2, "_zero_first", "parameter 'M' written: subscript store")),
    ("bound-method alias + state stored by one of the targets", "quatica/solver.py",
     [r"        if m >= n:\n            # Use column variant for tall/square matrices\n            return self\.compute_column_variant\(A\)\n        else:\n            # Use row variant for wide matrices\n            return self\.compute_row_variant\(A\)\n",
      r"(        # Clamp block size to safe range \(local: the solver object is not modified\)\n)"],
     ["        variant = self.compute_row_variant if m < n else self.compute_column_variant\n        return variant(A)\n",
      "\\1        self.block_size = max(1, min(self.block_size, m, n))\n"],
     ("F", R1, "RandomizedSketchProjectPseudoinverse.compute", "store to self.block_size through RandomizedSketchProjectPseudoinverse.compute_column_variant")),
    ("callable parameter: helper writes through the result of a caller-supplied accessor", "quatica/tensor.py",
     [r"def tensor_entrywise_abs\(T: np\.ndarray\) -> np\.ndarray:\n",
      r"    return np\.sqrt\(np\.sum\(Tf\*\*2, axis=-1\)\)\n"],
     ["def _poke(get):\n    get(0)[0] = 0.0\n\n\ndef tensor_entrywise_abs(T: np.ndarray) -> np.ndarray:\n",
      "    _poke(lambda c: Tf[..., c])\n    return np.sqrt(np.sum(Tf**2, axis=-1))\n"],
     ("F", R2, "tensor_entrywise_abs", "parameter 'T' written: passed to _poke(result of get)")),
    ("nested helper writes a captured parameter", "quatica/decomp/LU.py",
     r"    m, n = A\.shape\n    result = np\.zeros_like\(A\)\n\n    for i in range\(m\):\n        for j in range\(n\):\n            if j >= i \+ k:",
     "    m, n = A.shape\n    result = np.zeros_like(A)\n\n    def wipe(i):\n        A[i, :] = 0\n\n    wipe(0)\n"
     "    for i in range(m):\n        for j in range(n):\n            if j >= i + k:",
     ("F", R2, "quaternion_triu", "parameter 'A' written: subscript store in nested function wipe")),
    ("helper applied to a parameter", "quatica/decomp/schur.py",
     r"(    lo, hi = 0, n - 1\n)", "\\1    apply_left_rows(A, 0, np.eye(2))\n",
     ("F", R2, "quaternion_schur_experimental", "parameter 'A' written: passed to")),
    ("np.random.seed in a method", "quatica/solver.py", r"(        m, n = A\.shape\n        if m > n:\n)",
     "        np.random.seed(0)\n\\1",
     ("F", R3, "compute_row_variant", "np.random.seed")),
    ("flat import before the sys.path extension", "quatica/decomp/LU.py",
     r'sys\.path\.append\(os\.path\.join\(os\.path\.dirname\(__file__\), "\.\."\)\)\nfrom utils import quat_frobenius_norm, quat_matmat\n',
     'from utils import quat_frobenius_norm, quat_matmat\nsys.path.append(os.path.join(os.path.dirname(__file__), ".."))\n',
     ("F", R5, "LU.py::<module>", "flat import 'utils' needs 'quatica' on sys.path")),
    ("view instead of defensive copy", "quatica/utils.py",
     r"    b0, b1, b2, b3 = b0\.copy\(\), b1\.copy\(\), b2\.copy\(\), b3\.copy\(\)\n",
     "    b0, b1, b2, b3 = [np.asarray(x, dtype=float) for x in (b0, b1, b2, b3)]\n",
     ("F", R2, "UtriangleQsparse", "parameter 'b3' written: subscript store")),
    ("fallback binds the name from another module", "quatica/data_gen.py", r"    from decomp\.qsvd import qr_qua\n",
     "    from decomp.LU import quaternion_lu as qr_qua\n",
     ("F", R5, "data_gen.py::<module>", "qr_qua is decomp.qsvd.qr_qua in the package spelling but decomp.LU.quaternion_lu")),
    ("module-level generator drawn inside a function (stream shared across calls)", "quatica/decomp/schur.py",
     [r"def _estimate_shifts_power_deflate\(", r"    rng = np\.random\.default_rng\(0\)\n"],
     ["_SHIFT_RNG = np.random.default_rng(0)\n\n\ndef _estimate_shifts_power_deflate(", "    rng = _SHIFT_RNG\n"],
     ("F", R1, "_estimate_shifts_power_deflate", "module-level random generator '_SHIFT_RNG' is drawn from inside the function")),
    ("module-level generator drawn directly (D3 names it too)", "quatica/decomp/schur.py",
     [r"def _estimate_shifts_power_deflate\(", r"    rng = np\.random\.default_rng\(0\)\n", r"xr = rng\.standard_normal"],
     ["_SHIFT_RNG = np.random.default_rng(0)\n\n\ndef _estimate_shifts_power_deflate(", "    rng = np.random.default_rng(0)\n",
      "xr = _SHIFT_RNG.standard_normal"],
     ("F", R3, "_estimate_shifts_power_deflate", "on the module-level generator '_SHIFT_RNG'")),
    ("single-slot memo in a module global", "quatica/decomp/qsvd.py",
     r"    return Uq, s_quat, Vq\n\n\ndef rand_qsvd\(",
     "    global _last\n    if _last is not None and _last[0] is X_quat:\n        return _last[1]\n"
     "    _last = (X_quat, (Uq, s_quat, Vq))\n    return Uq, s_quat, Vq\n\n\n_last = None\n\n\ndef rand_qsvd(",
     ("F", R1, "classical_qsvd_full", "store to module global '_last' (declared global)")),
    ("memo retains the argument", "quatica/decomp/qsvd.py",
     r"    return Uq, s_quat, Vq\n\n\ndef rand_qsvd\(",
     "    global _last\n    if _last is not None and _last[0] is X_quat:\n        return _last[1]\n"
     "    _last = (X_quat, (Uq, s_quat, Vq))\n    return Uq, s_quat, Vq\n\n\n_last = None\n\n\ndef rand_qsvd(",
     ("F", R1, "classical_qsvd_full", "module global '_last' retains a reference to parameter(s) X_quat")),
    ("argument appended to a module-level list", "quatica/tensor.py",
     r"def tensor_frobenius_norm\(T: np\.ndarray\) -> float:\n",
     "_SEEN = []\n\n\ndef tensor_frobenius_norm(T: np.ndarray) -> float:\n    _SEEN.append(T)\n",
     ("F", R1, "tensor_frobenius_norm", "module global '_SEEN' retains a reference to parameter(s) T")),
    ("generator kept on self and drawn in a method", "quatica/solver.py",
     [r"        self\.block_size = block_size\n", r"        real_part = np\.random\.randn\(rows, cols\)\n"],
     ["        self.block_size = block_size\n        self._rng = np.random.default_rng(0)\n",
      "        real_part = self._rng.standard_normal((rows, cols))\n"],
     ("F", R1, "_generate_random_sketch", "generator self._rng is drawn from")),
    ("in-place sparse clean-up of the constructor's arguments (tocsr() returns the same object for CSR input)",
     "quatica/utils.py", r"(        self\.k = k\.tocsr\(\)\n)",
     "\\1        for comp in (self.real, self.i, self.j, self.k):\n            comp.eliminate_zeros()\n",
     ("F", R2, "SparseQuaternionMatrix.__init__", "parameter 'real' written: in-place method .eliminate_zeros()")),
    ("public function building the sparse matrix from its parameters inherits the constructor's write", "quatica/utils.py",
     [r"(        self\.k = k\.tocsr\(\)\n)", r"# Q-GMRES FUNCTIONS\n"],
     ["\\1        self.k.sort_indices()\n",
      "# Q-GMRES FUNCTIONS\ndef sparse_from_planes(real, i, j, k, shape):\n    return SparseQuaternionMatrix(real, i, j, k.asformat('csr'), shape)\n"],
     ("F", R2, "sparse_from_planes", "parameter 'k' written: passed to SparseQuaternionMatrix.__init__(k)")),
    ("ndarray in-place method on a view of the argument", "quatica/tensor.py",
     r"(def tensor_frobenius_norm\(T: np\.ndarray\) -> float:\n)", "\\1    np.ascontiguousarray(T).ravel().sort()\n",
     ("F", R2, "tensor_frobenius_norm", "parameter 'T' written: in-place method .sort()")),
    ("seed guard broken: seed call moved out of the guard", "quatica/solver.py", r"(        self\.preconditioner_rank = max\(0, preconditioner_rank\)\n        self\.seed = seed\n)        if seed is not None:\n            np\.random\.seed\(seed\)\n",
     "\\1        if seed is not None:\n            pass\n        np.random.seed(seed)\n",
     ("F", R3, "CGNEQSolver.__init__", "np.random.seed")),
    ("seed guard broken: inverted test", "quatica/solver.py", r"(        self\.preconditioner_rank = max\(0, preconditioner_rank\)\n        self\.seed = seed\n)        if seed is not None:\n            np\.random\.seed\(seed\)\n",
     "\\1        if seed is None:\n            np.random.seed(seed)\n",
     ("F", R3, "CGNEQSolver.__init__", "np.random.seed")),
    ("seed guard broken: seed re-bound between the test and the call", "quatica/solver.py", r"(        self\.preconditioner_rank = max\(0, preconditioner_rank\)\n        self\.seed = seed\n)        if seed is not None:\n            np\.random\.seed\(seed\)\n",
     "\\1        if seed is not None:\n            seed = self.preconditioner_rank or None\n            np.random.seed(seed)\n",
     ("F", R3, "CGNEQSolver.__init__", "np.random.seed")),
    ("seed guard broken: or instead of and", "quatica/solver.py", r"(        self\.preconditioner_rank = max\(0, preconditioner_rank\)\n        self\.seed = seed\n)        if seed is not None:\n            np\.random\.seed\(seed\)\n",
     "\\1        seed is not None or np.random.seed(seed)\n",
     ("F", R3, "CGNEQSolver.__init__", "np.random.seed")),
    ("seed guard broken: unguarded helper called without a guard", "quatica/solver.py",
     [r"class CGNEQSolver:\n", r"(        self\.preconditioner_rank = max\(0, preconditioner_rank\)\n        self\.seed = seed\n)        if seed is not None:\n            np\.random\.seed\(seed\)\n"],
     ["def _seed_global(value):\n    np.random.seed(value)\n\n\nclass CGNEQSolver:\n",
      "\\1        _seed_global(seed)\n"],
     ("F", R3, "_seed_global", "np.random.seed")),
    ("seed guard broken: guarded helper also called from compute", "quatica/solver.py",
     [r"class CGNEQSolver:\n", r"(        self\.preconditioner_rank = max\(0, preconditioner_rank\)\n        self\.seed = seed\n)        if seed is not None:\n            np\.random\.seed\(seed\)\n", r"(        I_n = quat_eye\(n\)\n        Inorm = )"],
     ["def _seed_global(seed):\n    if seed is None:\n        return\n    np.random.seed(seed)\n\n\nclass CGNEQSolver:\n",
      "\\1        _seed_global(seed)\n", "        _seed_global(self.seed)\n\\1"],
     ("F", R3, "_seed_global", "np.random.seed")),
    ("dual import reduced to the bare relative spelling (ImportError swallowed by the blanket handler)", "quatica/solver.py", r"                try:\n                    from \.decomp\.qsvd import qr_qua\n                except Exception:\n                    from quatica\.decomp\.qsvd import qr_qua\n",
     "                from .decomp.qsvd import qr_qua\n", ("F", R5, "_rsp_step_column", "has only the relative spelling: it fails when the library is used in the flat style")),
    ("fallback handler catches only ModuleNotFoundError (a failing relative import raises ImportError)", "quatica/solver.py", r"                try:\n                    from \.decomp\.qsvd import qr_qua\n                except Exception:\n                    from quatica\.decomp\.qsvd import qr_qua\n",
     "                try:\n                    from .decomp.qsvd import qr_qua\n                except ModuleNotFoundError:\n                    from decomp.qsvd import qr_qua\n", ("F", R5, "_rsp_step_column", "it fails when the library is used in the flat style")),
    ("fallback replaced by pass", "quatica/solver.py", r"                try:\n                    from \.decomp\.qsvd import qr_qua\n                except Exception:\n                    from quatica\.decomp\.qsvd import qr_qua\n",
     "                try:\n                    from .decomp.qsvd import qr_qua\n                except Exception:\n                    pass\n", ("F", R5, "_rsp_step_column", "has only the relative spelling")),
    ("flat spelling tried before the package spelling", "quatica/solver.py", r"                try:\n                    from \.decomp\.qsvd import qr_qua\n                except Exception:\n                    from quatica\.decomp\.qsvd import qr_qua\n",
     "                try:\n                    from decomp.qsvd import qr_qua\n                except Exception:\n                    from .decomp.qsvd import qr_qua\n", ("F", R5, "_rsp_step_column", "flat spelling is tried before the package spelling")),
    ("module-level dual import reduced to the relative spelling", "quatica/data_gen.py",
     r"try:\n    from \.decomp\.qsvd import qr_qua\nexcept Exception:\n    from decomp\.qsvd import qr_qua\n",
     "from .decomp.qsvd import qr_qua\n",
     ("F", R5, "data_gen.py::<module>", "has only the relative spelling: it fails when the library is used in the flat style")),
    # ---- behaviour-preserving: must stay silent
    ("package-absolute spelling first, flat fallback", "quatica/solver.py", r"                try:\n                    from \.decomp\.qsvd import qr_qua\n                except Exception:\n                    from quatica\.decomp\.qsvd import qr_qua\n",
     "                try:\n                    from quatica.decomp.qsvd import qr_qua\n                except Exception:\n                    from decomp.qsvd import qr_qua\n", ("S",)),
    ("relative spelling first, flat fallback, except ImportError", "quatica/solver.py", r"                try:\n                    from \.decomp\.qsvd import qr_qua\n                except Exception:\n                    from quatica\.decomp\.qsvd import qr_qua\n",
     "                try:\n                    from .decomp.qsvd import qr_qua\n                except ImportError:\n                    from decomp.qsvd import qr_qua\n", ("S",)),
    ("three alternatives: relative, package-absolute, flat", "quatica/solver.py", r"                try:\n                    from \.decomp\.qsvd import qr_qua\n                except Exception:\n                    from quatica\.decomp\.qsvd import qr_qua\n",
     "                try:\n                    from .decomp.qsvd import qr_qua\n                except ImportError:\n                    try:\n                        from quatica.decomp.qsvd import qr_qua\n                    except ImportError:\n                        from decomp.qsvd import qr_qua\n", ("S",)),
    ("seed guard spelled as: if not (seed is None)", "quatica/solver.py", r"(        self\.preconditioner_rank = max\(0, preconditioner_rank\)\n        self\.seed = seed\n)        if seed is not None:\n            np\.random\.seed\(seed\)\n",
     "\\1        if not (seed is None):\n            np.random.seed(seed)\n", ("S",)),
    ("seed guard spelled as: if seed is None: pass / else", "quatica/solver.py", r"(        self\.preconditioner_rank = max\(0, preconditioner_rank\)\n        self\.seed = seed\n)        if seed is not None:\n            np\.random\.seed\(seed\)\n",
     "\\1        if seed is None:\n            pass\n        else:\n            np.random.seed(seed)\n", ("S",)),
    ("seed guard spelled as: early return when None", "quatica/solver.py", r"(        self\.preconditioner_rank = max\(0, preconditioner_rank\)\n        self\.seed = seed\n)        if seed is not None:\n            np\.random\.seed\(seed\)\n",
     "\\1        if seed is None:\n            return\n        np.random.seed(seed)\n", ("S",)),
    ("seed guard spelled as: conditional expression", "quatica/solver.py", r"(        self\.preconditioner_rank = max\(0, preconditioner_rank\)\n        self\.seed = seed\n)        if seed is not None:\n            np\.random\.seed\(seed\)\n",
     "\\1        np.random.seed(seed) if seed is not None else None\n", ("S",)),
    ("seed guard spelled as: short-circuit and", "quatica/solver.py", r"(        self\.preconditioner_rank = max\(0, preconditioner_rank\)\n        self\.seed = seed\n)        if seed is not None:\n            np\.random\.seed\(seed\)\n",
     "\\1        seed is not None and np.random.seed(seed)\n", ("S",)),
    ("seed guard spelled as: test and call through the stored attribute", "quatica/solver.py", r"(        self\.preconditioner_rank = max\(0, preconditioner_rank\)\n        self\.seed = seed\n)        if seed is not None:\n            np\.random\.seed\(seed\)\n",
     "\\1        if self.seed is not None:\n            np.random.seed(self.seed)\n", ("S",)),
    ("seed guard spelled as: test on the argument, call with the attribute just assigned from it", "quatica/solver.py", r"(        self\.preconditioner_rank = max\(0, preconditioner_rank\)\n        self\.seed = seed\n)        if seed is not None:\n            np\.random\.seed\(seed\)\n",
     "\\1        if seed is not None:\n            np.random.seed(self.seed)\n", ("S",)),
    ("seed guard spelled as: isinstance test", "quatica/solver.py", r"(        self\.preconditioner_rank = max\(0, preconditioner_rank\)\n        self\.seed = seed\n)        if seed is not None:\n            np\.random\.seed\(seed\)\n",
     "\\1        if isinstance(seed, int):\n            np.random.seed(seed)\n", ("S",)),
    ("seed guard inside a private helper called from the constructor", "quatica/solver.py",
     [r"class CGNEQSolver:\n", r"(        self\.preconditioner_rank = max\(0, preconditioner_rank\)\n        self\.seed = seed\n)        if seed is not None:\n            np\.random\.seed\(seed\)\n"],
     ["def _seed_global(seed):\n    if seed is None:\n        return\n    np.random.seed(seed)\n\n\nclass CGNEQSolver:\n",
      "\\1        _seed_global(seed)\n"], ("S",)),
    ("unguarded private helper, every call guarded in the constructor", "quatica/solver.py",
     [r"class CGNEQSolver:\n", r"(        self\.preconditioner_rank = max\(0, preconditioner_rank\)\n        self\.seed = seed\n)        if seed is not None:\n            np\.random\.seed\(seed\)\n"],
     ["def _seed_global(value):\n    np.random.seed(value)\n\n\nclass CGNEQSolver:\n",
      "\\1        if seed is not None:\n            _seed_global(seed)\n"], ("S",)),
    ("sparse clean-up on copies of the planes", "quatica/utils.py",
     [r"        self\.real = real\.tocsr\(\)\n", r"        self\.i = i\.tocsr\(\)\n", r"        self\.j = j\.tocsr\(\)\n",
      r"        self\.k = k\.tocsr\(\)\n"],
     ["        self.real = real.tocsr().copy()\n", "        self.i = i.tocsr().copy()\n", "        self.j = j.tocsr().copy()\n",
      "        self.k = k.tocsr().copy()\n        for comp in (self.real, self.i, self.j, self.k):\n            comp.eliminate_zeros()\n"],
     ("S",)),
    ("sparse clean-up on a freshly built csr_matrix / sorted_indices() copy", "quatica/utils.py",
     r"(        self\.k = k\.tocsr\(\)\n)",
     "\\1        probe = sparse.csr_matrix(real.toarray())\n        probe.eliminate_zeros()\n"
     "        probe2 = self.i.sorted_indices()\n        probe2.sum_duplicates()\n", ("S",)),
    ("sparse matrix built from a dense view, then pruned in place", "quatica/utils.py",
     r"(        A_k = sparse\.csr_matrix\(A_comp\[\.\.\., 3\]\)\n)", "\\1        A_k.eliminate_zeros()\n", ("S",)),
    ("module-level constants that are only read", "quatica/utils.py",
     r"def quat_eye\(n: int\) -> np\.ndarray:\n",
     "_UNITS = (\"real\", \"i\", \"j\", \"k\")\n_ORDER = {\"fro\": 0}\n_ONE = np.ones(1)\n\n\n"
     "def quat_eye(n: int) -> np.ndarray:\n    n = n + 0 * len(_UNITS) + _ORDER.get(\"fro\", 0) + 0 * int(_ONE[0])\n", ("S",)),
    ("per-call generator seeded from a module-level integer constant", "quatica/decomp/schur.py",
     [r"def _estimate_shifts_power_deflate\(", r"    rng = np\.random\.default_rng\(0\)\n"],
     ["_SHIFT_SEED = 0\n\n\ndef _estimate_shifts_power_deflate(", "    rng = np.random.default_rng(_SHIFT_SEED)\n"], ("S",)),
    ("bound-method alias (conditional expression of two methods)", "quatica/solver.py",
     r"        if m >= n:\n            # Use column variant for tall/square matrices\n            return self\.compute_column_variant\(A\)\n        else:\n            # Use row variant for wide matrices\n            return self\.compute_row_variant\(A\)\n",
     "        variant = self.compute_row_variant if m < n else self.compute_column_variant\n        return variant(A)\n", ("S",)),
    ("local alias of a helper + accessor lambdas handed to a private helper", "quatica/tensor.py",
     [r"def tensor_entrywise_abs\(T: np\.ndarray\) -> np\.ndarray:\n",
      r"    return np\.sqrt\(np\.sum\(Tf\*\*2, axis=-1\)\)\n"],
     ["def _sumsq(get, count):\n    total = get(0) ** 2\n    for c in range(1, count):\n        total = total + get(c) ** 2\n    return total\n\n\n"
      "def tensor_entrywise_abs(T: np.ndarray) -> np.ndarray:\n",
      "    acc = _sumsq\n    return np.sqrt(acc(lambda c: Tf[..., c], 4))\n"], ("S",)),
    ("nested helper writes a captured copy (defined and called after the copy)", "quatica/utils.py",
     r"(    b0, b1, b2, b3 = b0\.copy\(\), b1\.copy\(\), b2\.copy\(\), b3\.copy\(\)\n)",
     "\\1\n    def clear_row(i):\n        b0[i, :] = 0 * b0[i, :]\n\n    if rb < 0:\n        clear_row(0)\n", ("S",)),
    ("private module-level helper applied to a copy", "quatica/tensor.py",
     r"def tensor_frobenius_norm\(T: np\.ndarray\) -> float:\n",
     "def _zero_first(M):\n    M[0] = 0\n\n\ndef tensor_frobenius_norm(T: np.ndarray) -> float:\n    _zero_first(np.array(T))\n", ("S",)),
    ("copies through map(np.copy, ...)", "quatica/utils.py",
     r"    b0, b1, b2, b3 = b0\.copy\(\), b1\.copy\(\), b2\.copy\(\), b3\.copy\(\)\n",
     "    b0, b1, b2, b3 = map(np.copy, (b0, b1, b2, b3))\n", ("S",)),
    ("copy through empty_like + full-slice store", "quatica/decomp/LU.py", r"    A_work = A\.copy\(\)\n",
     "    A_work = np.empty_like(A)\n    A_work[...] = A\n", ("S",)),
    ("sys.path extension spelled with pathlib", "quatica/decomp/schur.py",
     r'sys\.path\.append\(os\.path\.join\(os\.path\.dirname\(__file__\), "\.\."\)\)\n',
     "from pathlib import Path\nHERE = Path(__file__).resolve().parent\nsys.path.append(str(HERE.parent))\n", ("S",)),
    ("hessenbergize: H = A (only re-bound afterwards)", "quatica/decomp/hessenberg.py", r"    H = A\.copy\(\)\n", "    H = A\n", ("S",)),
    ("CGNE: X += on the fresh iterate", "quatica/solver.py", r"            X = X \+ alpha_k \* D\n", "            X += alpha_k * D\n", ("S",)),
    ("new local variable", "quatica/decomp/LU.py", r"    A_work = A\.copy\(\)\n", "    A_work = A.copy()\n    scratch = A_work[:1, :1]\n    scratch = scratch + 0\n", ("S",)),
    ("extra .copy()", "quatica/utils.py", r"    A_H = quat_hermitian\(A\)\n    diff = A - A_H\n", "    A_H = quat_hermitian(A).copy()\n    diff = A.copy() - A_H\n", ("S",)),
    ("renamed local", "quatica/decomp/LU.py", r"A_work", "Awrk", ("S", "all")),
    ("defensive copy spelled differently", "quatica/utils.py", r"    Hess = np\.array\(Hess, dtype=float, copy=True\)\n",
     "    Hess = np.asarray(Hess, dtype=float).copy()\n", ("S",)),
]


def _apply_variant(root, rel, pattern, repl, replace_all=False):
    p = os.path.join(root, rel)
    s = open(p, encoding="utf-8").read()
    n = len(re.findall(pattern, s))
    if n == 0 or (n != 1 and not replace_all):
        return False
    s2 = re.sub(pattern, repl, s, count=0 if replace_all else 1)
    ast.parse(s2)
    with open(p, "w", encoding="utf-8") as fh:
        fh.write(s2)
    return True


def _run_variant(args):
    src_root, idx = args
    from qstatic.report import Ctx
    name, rel, pattern, repl, expect = VARIANTS[idx]
    tmp = tempfile.mkdtemp(prefix="c14self.")
    try:
        shutil.copytree(os.path.join(src_root, "quatica"), os.path.join(tmp, "quatica"),
                        ignore=shutil.ignore_patterns("__pycache__"))
        ap = os.path.join(src_root, "applications", "image_deblurring")
        if os.path.isdir(ap):
            shutil.copytree(ap, os.path.join(tmp, "applications", "image_deblurring"),
                            ignore=shutil.ignore_patterns("__pycache__"))
        pats = pattern if isinstance(pattern, list) else [pattern]
        reps = repl if isinstance(repl, list) else [repl]
        for pt, rp in zip(pats, reps):
            if not _apply_variant(tmp, rel, pt, rp, replace_all=len(expect) > 1 and expect[1] == "all"):
                return (idx, "skip", "pattern does not match exactly once")
        c = Ctx("C14", "quick", tmp)
        try:
            run(c)
        except AnalysisError as e:
            return (idx, "error", str(e))
        keys = sorted({(f.rule, f.where, f.construct) for f in c.findings})
        return (idx, "ok", keys)
    finally:
        shutil.rmtree(tmp, ignore_errors=True)


def selftest(ctx):
    import multiprocessing as mp
    base = sorted({(f.rule, f.where, f.construct) for f in ctx.findings})
    jobs = [(ctx.root, i) for i in range(len(VARIANTS))]
    try:
        with mp.get_context("fork").Pool(min(max(1, ctx.jobs), len(jobs))) as pool:
            results = pool.map(_run_variant, jobs)
    except Exception:
        results = [_run_variant(j) for j in jobs]
    n_f = n_s = n_skip = 0
    failures = []
    for idx, status, payload in results:
        name, rel, pattern, repl, expect = VARIANTS[idx]
        if status == "skip":
            n_skip += 1
            print(f"SELFTEST C14 SKIP  {name}: {payload}")
            continue
        if status == "error":
            failures.append(f"{name}: analysis error on the variant: {payload}")
            continue
        new = [k for k in payload if k not in base]
        if expect[0] == "F":
            hit = [k for k in new if k[0] == expect[1] and expect[2] in k[1] and expect[3] in k[2]]
            if hit:
                n_f += 1
                print(f"SELFTEST C14 reported  {name}: {hit[0][1]} [{hit[0][0]}] {hit[0][2]}")
            else:
                failures.append(f"{name}: seeded defect not reported (new findings: {new[:3]})")
        else:
            if not new and len(payload) == len(base):
                n_s += 1
                print(f"SELFTEST C14 silent    {name}")
            else:
                failures.append(f"{name}: behaviour-preserving variant changed the verdict: {new[:3]}")
    print(f"SELFTEST C14 summary: reported={n_f} silent={n_s} skipped={n_skip} failed={len(failures)}")
    if failures:
        raise AnalysisError("checker self-test failed: " + " | ".join(failures))
    return {"variants": len(VARIANTS), "reported": n_f, "silent": n_s, "skipped": n_skip}
