#!/usr/bin/env python3
"""Confirm blind mutants: for each /tmp/mw/<P>/mutants/<X>.diff
   - fresh scratch worktree of /repo HEAD, demo on the clean tree must PASS (exit 0)
   - apply the patch, demo must FAIL (exit != 0)
   - full pinned test suite on the patched tree: the 193 stable tests of BASELINE.json must pass
   Results -> /tmp/mw/confirm/<P>-<X>.json .  Worktrees are removed afterwards."""
import json, os, subprocess, sys, shutil, time, xml.etree.ElementTree as ET
from concurrent.futures import ThreadPoolExecutor

import threading
LARGE_LOCK = threading.Semaphore(2)
BASE = json.load(open("/root/.vp/BASELINE.json"))
STABLE = set(BASE["stable_pass"])
ROOT = os.environ.get("MW_ROOT", "/tmp/mw")      # round 1: /tmp/mw, round 2: /tmp/mw2
OUT = f"{ROOT}/confirm"
os.makedirs(OUT, exist_ok=True)
ENV = dict(os.environ, MPLBACKEND="Agg", OMP_NUM_THREADS="2", OPENBLAS_NUM_THREADS="2")


def sh(cmd, cwd=None, env=None, timeout=None):
    p = subprocess.run(cmd, shell=True, cwd=cwd, env=env or ENV, capture_output=True, text=True, timeout=timeout)
    return p.returncode, (p.stdout + p.stderr)[-3000:]


def one(item):
    prop, x = item
    tag = f"{prop}-{x}"
    res_path = f"{OUT}/{tag}.json"
    if os.path.exists(res_path):
        return tag, json.load(open(res_path))
    src = f"{ROOT}/{prop}/mutants"
    wt = f"{ROOT}/confirm_wt_{tag}"
    res = {"mutant": tag, "t0": time.time()}
    sh(f"git -C /repo worktree remove --force {wt}")
    rc, out = sh(f"git -C /repo worktree add --detach {wt} HEAD")
    if rc != 0:
        res["error"] = "worktree: " + out
        json.dump(res, open(res_path, "w"), indent=1)
        return tag, res
    try:
        env = dict(ENV, PYTHONPATH=wt)
        # demos locate the tree relative to their own path (<tree>/mutants/demo_X.py or <tree>/demo_X.py): run a copy placed
        # inside the scratch worktree, never the original next to the author's (clean) tree
        sh(f"mkdir -p {wt}/mutants && cp {src}/demo_{x}.py {wt}/mutants/")
        demo = f"{wt}/mutants/demo_{x}.py"
        rc, out = sh(f"cd {wt} && /venv/bin/python {demo}", env=env, timeout=1800)
        res["demo_clean_rc"], res["demo_clean_tail"] = rc, out[-300:]
        rc, out = sh(f"cd {wt} && git apply --3way {src}/{x}.diff || git apply {src}/{x}.diff")
        if rc != 0:
            rc, out = sh(f"cd {wt} && patch -p1 < {src}/{x}.diff")
        res["apply_rc"] = rc
        if rc != 0:
            res["error"] = "patch does not apply: " + out[-500:]
            return tag, res
        rc, out = sh(f"cd {wt} && /venv/bin/python -m compileall -q quatica applications > /dev/null; /venv/bin/python {demo}", env=env, timeout=1800)
        res["demo_mutant_rc"], res["demo_mutant_tail"] = rc, out[-400:]
        xml = f"{OUT}/{tag}.junit.xml"
        t = time.time()
        # everything except the two very large Q-GMRES tests (9 GB, 6-9 min each) ...
        rc, out = sh(f"cd {wt} && /venv/bin/python -m pytest -q -p no:cacheprovider --timeout=1800 -n 4 --junitxml={xml} "
                     f"--deselect tests/QGMRES/test_qgmres_large.py", env=env, timeout=7200)
        res["suite_rc"], res["suite_s"], res["suite_tail"] = rc, round(time.time() - t), out[-400:]
        passed, failed = set(), set()

        def read(xmlf):
            try:
                for c in ET.parse(xmlf).getroot().iter("testcase"):
                    name = f"{c.attrib['classname']}::{c.attrib['name']}"
                    bad = any(ch.tag in ("failure", "error") for ch in c)
                    skipped = any(ch.tag == "skipped" for ch in c)
                    if not skipped:
                        (failed if bad else passed).add(name)
            except Exception as e:
                res["junit_error"] = str(e)
        read(xml)
        # ... which are run only when the patch touches a module in their import closure (solver, utils, data_gen; LU through the
        # left_lu preconditioner); for other patches they cannot be affected and are counted as passing with that justification
        touched = open(f"{src}/{x}.diff").read()
        closure = ("quatica/solver.py", "quatica/utils.py", "quatica/data_gen.py", "quatica/decomp/LU.py", "quatica/__init__.py")
        LARGE = "tests.QGMRES.test_qgmres_large::test_qgmres_large_scale"
        if any(("b/" + c) in touched for c in closure):
            with LARGE_LOCK:
                xml2 = f"{OUT}/{tag}.large.junit.xml"
                t2 = time.time()
                rc2, out2 = sh(f"cd {wt} && /venv/bin/python -m pytest -q -p no:cacheprovider --timeout=3000 --junitxml={xml2} "
                               f"tests/QGMRES/test_qgmres_large.py -k test_qgmres_large_scale", env=env, timeout=7200)
                res["large_rc"], res["large_s"] = rc2, round(time.time() - t2)
                read(xml2)
        else:
            res["large_skipped_reason"] = "patch touches no module in the import closure of tests/QGMRES/test_qgmres_large.py"
            passed.add(LARGE)
        res["stable_missing"] = sorted(STABLE - passed)
        res["failed"] = sorted(failed)
        res["confirmed"] = (res.get("demo_clean_rc") == 0 and res.get("demo_mutant_rc") not in (0, None)
                            and not res["stable_missing"])
    except subprocess.TimeoutExpired as e:
        res["error"] = f"timeout: {e}"
    finally:
        sh(f"git -C /repo worktree remove --force {wt}")
        shutil.rmtree(wt, ignore_errors=True)
        res["wall_s"] = round(time.time() - res["t0"])
        json.dump(res, open(res_path, "w"), indent=1)
    return tag, res


if __name__ == "__main__":
    items = []
    for a in sys.argv[2:]:
        p, x = a.split("-")
        items.append((p, x))
    jobs = int(sys.argv[1])
    with ThreadPoolExecutor(jobs) as ex:
        for tag, res in ex.map(one, items):
            print(tag, "confirmed" if res.get("confirmed") else "NOT-CONFIRMED", {k: res.get(k) for k in ("demo_clean_rc", "demo_mutant_rc", "stable_missing", "error", "suite_s")}, flush=True)
