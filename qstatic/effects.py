"""E5 - effects: may-alias from parameters, mutation, hidden state, RNG sources, time taint.

Pure `ast` data-flow.  Nothing of the repository is imported or executed and no numeric code is
interpreted: the only facts derived are "which objects may a name refer to" and "which objects does a
statement write".

Abstract value of an expression: Val(direct, inner)
    direct  origins the value itself may be (the same object, or a numpy view of it)
    inner   origins that elements / attributes of a *fresh* container may be (list of views, info dict,
            tuple of planes, freshly constructed object holding references)
Origin = (kind, name, attr):   ("param", "A", None)  ("param", "self", "max_iter")
                               ("free", "H", None)    variable captured from the enclosing function
                               ("global", "solver:_CACHE", None)  module-level data object

The analysis is flow-sensitive (strong update when a name is re-bound, so `Hess = np.array(Hess, copy=True)`
ends the aliasing), path-insensitive (both branches of every test are taken, loops to a fixpoint, handlers
entered from every point of the try body) and interprocedural through summaries computed to a global
fixpoint (mutated parameters, returned aliases, hidden-state stores).

Callables are values too (Val.fns): a name bound to a repository function, a nested helper, a class, a bound
method (`self.m`, `obj.m`), `Class.m`, a lambda, or a conditional expression / container of such is a may-point-to
set of closures; calling it applies the union of the callees' summaries (lambdas are evaluated in place with the
actual arguments).  A call through a callable *parameter* (or captured variable) is recorded in the summary
(pcalls, with the "result of that call" as an origin of its own) and replayed at every call site with the actual
callables, so helpers that receive accessors / bound methods / lambdas are resolved interprocedurally; returned
closures are translated into the caller's origin space.  Writes of a nested helper to variables it captures are
judged at its call sites with the bindings current there (a helper that escapes - passed on, returned, stored -
falls back to every origin the variable ever held).  A callable of unknown provenance (result of a call, dynamic
getattr on self, attribute holding a function) called with a tracked argument raises AnalysisError.

Library model (trusted base, Appendix E of DESIGN.md): the tables LIB_VIEW / LIB_FRESH / LIB_INPLACE /
METHOD_* below.  An external callable or method that receives or is applied to a parameter-aliased value and
is missing from the tables raises AnalysisError (exit 2) - the model cannot silently rot.
"""
from __future__ import annotations

import ast
import sys

from .src import AnalysisError, FuncInfo, ClassInfo, ModuleInfo

# ------------------------------------------------------------------------------------------------
# Library model
# ------------------------------------------------------------------------------------------------
# one line of reason each where the classification is not obvious

#: result may share memory with (or be) an argument
LIB_VIEW = {
    "numpy.asarray", "numpy.asanyarray", "numpy.asarray_chkfinite",   # no copy when already an ndarray of the dtype
    "numpy.ascontiguousarray", "numpy.asfortranarray",  # no copy when already laid out that way
    "numpy.real", "numpy.imag",                   # views for real / complex input
    "numpy.transpose", "numpy.reshape", "numpy.ravel", "numpy.squeeze", "numpy.moveaxis", "numpy.swapaxes",
    "numpy.rollaxis", "numpy.expand_dims", "numpy.broadcast_to", "numpy.atleast_1d", "numpy.atleast_2d",
    "numpy.atleast_3d", "numpy.diag", "numpy.diagonal",   # diag of a 2-D input is a view
    "numpy.flip", "numpy.fliplr", "numpy.flipud", "numpy.rot90", "numpy.split", "numpy.array_split",
    "numpy.hsplit", "numpy.vsplit", "numpy.nditer", "numpy.ndenumerate", "numpy.lib.stride_tricks.as_strided",
    "numpy.lib.stride_tricks.sliding_window_view", "numpy.triu_indices_from", "numpy.matrix",
    "quaternion.as_float_array", "quaternion.as_quat_array",  # reinterpretations of the same buffer
    "quaternion.as_quat_vector", "quaternion.as_vector_part",
    "scipy.sparse.csr_matrix", "scipy.sparse.csc_matrix", "scipy.sparse.coo_matrix",  # may share data of a sparse input
    "scipy.sparse.csr_array", "scipy.sparse.csc_array", "scipy.sparse.coo_array",
    "scipy.sparse.linalg.aslinearoperator", "scipy.sparse.linalg.LinearOperator",
}

#: fresh result, arguments untouched (pure)
LIB_FRESH = {
    "numpy." + n for n in """
    array zeros ones empty full eye identity zeros_like ones_like empty_like full_like arange linspace logspace
    meshgrid stack hstack vstack dstack column_stack row_stack concatenate block tile repeat roll clip abs absolute
    sqrt exp log log2 log10 sin cos tan arctan2 arcsin arccos arctan sinh cosh tanh deg2rad rad2deg power square
    sign floor ceil round around rint trunc sum prod max min amax amin mean median std var argmax argmin argsort
    sort unique where nonzero count_nonzero any all allclose isclose array_equal isfinite isnan isinf isscalar
    isreal iscomplex conjugate conj matmul dot vdot inner outer kron einsum tensordot trace cumsum cumprod diff
    maximum minimum add subtract multiply divide true_divide negative hypot mod remainder
    triu tril pad copy finfo iinfo float64 float32 complex128 int64 int32 bool_ ndim shape size
    nan_to_num real_if_close angle percentile quantile histogram searchsorted take delete insert append
    diagflat fromiter frombuffer indices ix_ mgrid ogrid result_type can_cast promote_types dtype
    errstate seterr printoptions set_printoptions array2string array_str array_repr
    nanmax nanmin nanmean nansum nanstd isin in1d setdiff1d union1d intersect1d lexsort argwhere flatnonzero
    average ptp cross convolve correlate interp trapz polyfit polyval roots
    isrealobj iscomplexobj floor_divide logical_and logical_or logical_not logical_xor greater greater_equal less
    less_equal equal not_equal expm1 log1p cbrt reciprocal float_power exp2 fabs fmax fmin positive ldexp heaviside
    nanargmax nanargmin nanprod nanmedian nanvar ndindex issubdtype shares_memory may_share_memory triu_indices
    tril_indices diag_indices unravel_index ravel_multi_index bincount digitize sinc hanning hamming bartlett
    blackman kaiser select choose compress extract cov corrcoef gradient geomspace tri vander float16 complex64
    int8 int16 uint8 uint16 uint32 uint64 intp longdouble clongdouble 
    """.split()
} | {
    "quaternion.quaternion", "quaternion.from_float_array", "quaternion.one", "quaternion.zero",
    "quaternion.from_rotation_matrix", "quaternion.as_rotation_matrix",
    "scipy.sparse.random", "scipy.sparse.eye", "scipy.sparse.identity", "scipy.sparse.diags", "scipy.sparse.kron",
    "scipy.sparse.hstack", "scipy.sparse.vstack", "scipy.sparse.bmat", "scipy.sparse.block_diag",
    "scipy.sparse.issparse", "scipy.sparse.isspmatrix", "scipy.sparse.lil_matrix", "scipy.sparse.dok_matrix",
    "scipy.ndimage.gaussian_filter", "scipy.ndimage.convolve", "scipy.signal.convolve2d", "scipy.signal.fftconvolve",
}
#: whole namespaces of pure functions (result fresh); keyword `overwrite_*=True` turns the call into a mutation
LIB_FRESH_PREFIX = ("numpy.linalg.", "numpy.fft.", "scipy.linalg.", "scipy.fft.", "scipy.sparse.linalg.",
                    "math.", "cmath.", "os.", "itertools.", "functools.", "typing.", "warnings.", "time.",
                    "datetime.", "pathlib.", "json.", "re.", "collections.", "copy.", "numbers.", "fractions.",
                    "scipy.special.", "numpy.ma.", "numpy.char.", "numpy.testing.", "textwrap.", "string.",
                    "logging.", "argparse.", "timeit.", "PIL.", "skimage.", "imageio.")
#: plotting / UI namespaces: draw from their arguments, never write to them
LIB_PURE_PREFIX = ("matplotlib.", "seaborn.", "tqdm.")
#: in-place on the argument at the given position (result None / the same object)
LIB_INPLACE = {
    "numpy.fill_diagonal": 0, "numpy.put": 0, "numpy.place": 0, "numpy.putmask": 0, "numpy.copyto": 0,
    "numpy.put_along_axis": 0, "numpy.random.shuffle": 0, "random.shuffle": 0, "numpy.ndarray.sort": 0,
    "numpy.ndarray.fill": 0, "numpy.ndarray.resize": 0, "numpy.ndarray.itemset": 0,
}
#: global legacy generator: draws (reproducible functions of np.random.seed)
RNG_GLOBAL_DRAWS = {"randn", "rand", "normal", "standard_normal", "random", "random_sample", "ranf", "sample",
                    "uniform", "randint", "random_integers", "choice", "permutation", "exponential", "poisson",
                    "binomial", "beta", "gamma", "laplace", "lognormal", "multivariate_normal", "bytes",
                    "standard_cauchy", "standard_exponential", "standard_gamma", "standard_t", "chisquare",
                    "rayleigh", "weibull", "triangular", "vonmises", "geometric", "logistic", "shuffle"}
#: methods of numpy.random.Generator that draw
RNG_GENERATOR_DRAWS = RNG_GLOBAL_DRAWS | {"integers"}
TIME_SOURCES = {"time.time", "time.perf_counter", "time.monotonic", "time.process_time", "time.time_ns",
                "time.perf_counter_ns", "time.monotonic_ns", "time.process_time_ns", "time.clock",
                "timeit.default_timer", "datetime.datetime.now", "datetime.datetime.utcnow", "datetime.now",
                "datetime.datetime.today", "datetime.date.today"}

#: attributes whose value is a scalar / tuple of scalars / descriptor: no aliasing
SCALAR_ATTRS = {"shape", "ndim", "dtype", "size", "nnz", "itemsize", "nbytes", "strides", "flags", "format",
                "__name__", "__class__", "__doc__"}

#: methods that write to their receiver
METHOD_MUTATES = {
    # ndarray
    "sort", "fill", "resize", "itemset", "partition", "put", "setfield", "setflags", "byteswap",
    # list / dict / set / deque
    "append", "extend", "insert", "pop", "remove", "clear", "update", "setdefault", "add", "discard", "popitem",
    "reverse", "appendleft", "popleft", "extendleft", "difference_update", "intersection_update",
    "symmetric_difference_update", "move_to_end",
    # scipy.sparse in-place
    "setdiag", "eliminate_zeros", "sort_indices", "sum_duplicates", "prune", "__setitem__", "__delitem__",
    "__iadd__", "__isub__", "__imul__", "__itruediv__", "__imatmul__",
    # Generator / RandomState state (only relevant for hidden state on self)
    "seed", "shuffle",
}
#: of these, the ones that store their argument in the receiver (container then holds the argument)
METHOD_STORES_ARG = {"append", "extend", "insert", "update", "setdefault", "add", "appendleft", "extendleft"}
#: methods whose result is (a view of / an element of) the receiver
METHOD_VIEW = {
    "reshape", "ravel", "transpose", "view", "squeeze", "swapaxes", "diagonal", "get", "items", "values", "keys",
    "tocsr", "tocsc", "tocoo", "tolil", "todok", "asformat", "asfptype", "getH", "getrow", "getcol", "pop",
    "setdefault", "popitem", "popleft", "__getitem__", "__iter__", "flat", "newbyteorder", "nonzero_view",
}
#: methods with a fresh result that leave receiver and arguments untouched
METHOD_FRESH = {
    "copy", "astype", "flatten", "toarray", "todense", "tolist", "tobytes", "item", "sum", "max", "min", "mean",
    "std", "var", "prod", "dot", "conj", "conjugate", "power", "multiply", "maximum", "minimum", "any", "all",
    "argmax", "argmin", "argsort", "nonzero", "cumsum", "cumprod", "trace", "round", "clip", "repeat", "take",
    "norm", "lower", "upper", "format", "join", "split", "strip", "lstrip", "rstrip", "startswith", "endswith",
    "replace", "count", "index", "find", "encode", "decode", "title", "capitalize", "zfill", "ljust", "rjust",
    "is_integer", "conjugate_transpose", "inverse", "normalized", "abs", "angle", "sqrt", "exp", "log",
    "getnnz", "count_nonzero", "diagonal_copy", "sorted_indices", "maximum_copy", "issubset", "issuperset", "union", "intersection", "difference",
    "bit_length", "total_seconds", "isoformat", "strftime", "most_common", "elements",
} | RNG_GENERATOR_DRAWS - {"shuffle"}

#: builtins: result holds (shallow) references to the elements of its arguments
BUILTIN_CONTAINER = {"list", "tuple", "set", "frozenset", "dict", "sorted", "reversed", "enumerate", "zip", "iter",
                     "next", "filter", "map", "getattr", "vars", "min", "max"}
#: builtins with a fresh scalar / unrelated result
BUILTIN_FRESH = {"len", "sum", "abs", "float", "int", "bool", "str", "repr", "complex", "round", "isinstance",
                 "issubclass", "hasattr", "print", "range", "all", "any", "type", "id", "hash", "callable", "divmod",
                 "pow", "ord", "chr", "format", "input", "open", "slice", "super", "object", "bytes", "bytearray",
                 "ValueError", "TypeError", "RuntimeError", "NotImplementedError", "AssertionError", "KeyError",
                 "IndexError", "Exception", "ZeroDivisionError", "ArithmeticError", "FloatingPointError",
                 "StopIteration", "ImportError", "AttributeError", "OverflowError", "UserWarning", "Warning",
                 "DeprecationWarning", "RuntimeWarning", "locals", "globals", "dir", "memoryview", "bin", "hex", "oct"}


class Closure:
    """A callable value: a repository function / method (optionally bound: captured "__self__"), a repository
    class, or a lambda.  `captured` maps captured variable names to their abstract values, expressed in the origin
    space of the function that currently holds the closure (translated when it crosses a call boundary)."""
    __slots__ = ("kind", "code", "captured", "_key")

    def __init__(self, kind, code, captured=()):
        self.kind, self.code = kind, code           # "func": FuncInfo | "class": ClassInfo | "lambda": (node, FuncInfo)
        self.captured = tuple(sorted(dict(captured).items(), key=lambda kv: kv[0]))
        ident = (id(code[0]), id(code[1])) if kind == "lambda" else id(code)
        self._key = (kind, ident, self.captured)

    def __eq__(self, o):
        return isinstance(o, Closure) and self._key == o._key

    def __hash__(self):
        return hash(self._key)

    def cap(self):
        return dict(self.captured)

    def __repr__(self):
        nm = "lambda" if self.kind == "lambda" else getattr(self.code, "qualname", getattr(self.code, "name", "?"))
        return f"<{self.kind} {nm}>"


class Val:
    """direct / inner origin sets; arr = the value is certainly a fresh numpy array (or scalar): a store into it
    copies data, so it never comes to *hold* a reference to the stored value; nd = the value is certainly a dense
    numpy ndarray (never a scipy.sparse matrix), fresh or a view; fns = callables the value may be."""
    __slots__ = ("direct", "inner", "arr", "fns", "nd")

    def __init__(self, direct=frozenset(), inner=frozenset(), arr=False, fns=frozenset(), nd=False):
        self.direct, self.inner, self.arr = frozenset(direct), frozenset(inner), bool(arr)
        self.fns = frozenset(fns)
        self.nd = bool(nd)

    def all(self):
        return self.direct | self.inner

    def join(self, other):
        if other is None:
            return self
        return Val(self.direct | other.direct, self.inner | other.inner, self.arr and other.arr, self.fns | other.fns,
                   self.nd and other.nd)

    def __eq__(self, o):
        return (isinstance(o, Val) and self.direct == o.direct and self.inner == o.inner and self.arr == o.arr
                and self.fns == o.fns and self.nd == o.nd)

    def __hash__(self):
        return hash((self.direct, self.inner, self.arr, self.fns, self.nd))

    def __bool__(self):
        """tracked: the value may be (or hold) an object reachable from a parameter / captured variable / global"""
        return bool(self.direct or self.inner)

    def __repr__(self):
        return (f"Val({set(self.direct) or ''}|{set(self.inner) or ''}{'|arr' if self.arr else ''}{'|nd' if self.nd else ''}"
                f"{'|' + repr(set(self.fns)) if self.fns else ''})")


EMPTY = Val()
FRESH_ARRAY = Val(arr=True)             # freshly allocated array-like (dense or sparse) or scalar
FRESH_ND = Val(arr=True, nd=True)       # freshly allocated dense ndarray / numpy scalar


def element_of(v: Val) -> Val:
    """Value obtained by indexing / iterating / attribute access: a view of an array stays the array's
    origin, an element of a fresh container is whatever the container holds."""
    return Val(v.direct | v.inner, v.inner, v.arr and not v, v.fns, nd=v.nd)   # a slice / element of an ndarray is dense


def container_of(*vals) -> Val:
    s, f = frozenset(), frozenset()
    for v in vals:
        s |= v.direct | v.inner
        f |= v.fns
    return Val(frozenset(), s, fns=f)


def strip_fns(v: Val) -> Val:
    return Val(v.direct, v.inner, v.arr) if v.fns else v


def with_attr(origins, attr):
    return frozenset((k, n, a if a is not None else attr) for (k, n, a) in origins)


class Effect:
    """One write to a tracked object."""
    __slots__ = ("origin", "kind", "via", "loc", "node")

    def __init__(self, origin, kind, via, loc):
        self.origin, self.kind, self.via, self.loc = origin, kind, via, loc

    def key(self):
        return (self.origin, self.kind, self.via)


class Summary:
    """Interprocedural facts of one function."""

    def __init__(self):
        self.mut = {}          # param index -> set of (attr, kind, via)
        self.ret = set()       # ("p", index) | ("global", name) | ("free", name) origins the result may alias
        self.ret_val = EMPTY   # the returned value in the callee's origin space (carries returned callables)
        self.mut_free = {}     # captured variable name -> set of (attr, kind, via)
        self.state = set()     # (kind, name, via): global statement / module attr / class attr / module-global object
        self.pcalls = set()    # (("param"|"free", name), args, kwargs): calls of a callable parameter / captured variable
        self.mut_callres = {}  # ("param"|"free", name) -> set of (attr, kind, via): writes through such a call's result

    def snapshot(self):
        return (frozenset((k, frozenset(v)) for k, v in self.mut.items()), frozenset(self.ret), self.ret_val,
                frozenset((k, frozenset(v)) for k, v in self.mut_free.items()), frozenset(self.state),
                frozenset(self.pcalls), frozenset((k, frozenset(v)) for k, v in self.mut_callres.items()))


class _Counter:
    """Counts distinct syntactic sites (a loop body is re-analysed until its fixpoint)."""

    def __init__(self):
        self.seen = set()

    def hit(self, node):
        self.seen.add(id(node))

    def __int__(self):
        return len(self.seen)

    def __index__(self):
        return len(self.seen)


class FuncResult:
    def __init__(self, fi):
        self.fi = fi
        self.effects = []         # Effect on param / free / global origins
        self.state_effects = []   # (kind, name, via, loc)
        self.ret = set()          # origins
        self.ret_val = None
        self.pcalls = set()
        self.unresolved_calls = []    # (description, loc): callables of unknown provenance called with untracked arguments
        self.ever = {}            # name -> union of origins the name ever held
        self.n_store_sites = _Counter()    # counted once per syntactic site, however often a loop body is re-analysed
        self.n_calls = _Counter()
        self.n_repo_calls = _Counter()
        self.lib_used = set()
        self.mut_call_sites = []  # (callee qualname, callee parameter, argument tracked?, loc, callee where): calls of mutating callees
        self.summary = Summary()


# ------------------------------------------------------------------------------------------------
# name resolution
# ------------------------------------------------------------------------------------------------
def _assigned_names(fnode):
    """Names bound in the function's own scope (not nested defs / comprehensions)."""
    out = set()

    def targets(t):
        if isinstance(t, ast.Name):
            out.add(t.id)
        elif isinstance(t, (ast.Tuple, ast.List)):
            for e in t.elts:
                targets(e)
        elif isinstance(t, ast.Starred):
            targets(t.value)

    def visit(n):
        for ch in ast.iter_child_nodes(n):
            if isinstance(ch, (ast.FunctionDef, ast.AsyncFunctionDef)):
                out.add(ch.name)
                continue
            if isinstance(ch, (ast.ClassDef,)):
                out.add(ch.name)
                continue
            if isinstance(ch, ast.Lambda):
                a = ch.args
                for x in a.posonlyargs + a.args + a.kwonlyargs + ([a.vararg] if a.vararg else []) + ([a.kwarg] if a.kwarg else []):
                    out.add(x.arg)       # own scope in Python; treated as local values here (never an import / def)
                visit(ch)
                continue
            if isinstance(ch, (ast.ListComp, ast.SetComp, ast.DictComp, ast.GeneratorExp)):
                for g in ch.generators:
                    targets(g.target)    # own scope in Python; treated as local values here
                visit(ch)
                continue
            if isinstance(ch, ast.Assign):
                for t in ch.targets:
                    targets(t)
            elif isinstance(ch, (ast.AugAssign, ast.AnnAssign)):
                targets(ch.target)
            elif isinstance(ch, (ast.For, ast.AsyncFor)):
                targets(ch.target)
            elif isinstance(ch, (ast.With, ast.AsyncWith)):
                for it in ch.items:
                    if it.optional_vars is not None:
                        targets(it.optional_vars)
            elif isinstance(ch, ast.ExceptHandler):
                if ch.name:
                    out.add(ch.name)
            elif isinstance(ch, ast.NamedExpr):
                targets(ch.target)
            visit(ch)

    visit(fnode)
    return out


def _import_bound_names(fnode):
    out = {}
    for n in ast.walk(fnode):
        if isinstance(n, ast.ImportFrom):
            for al in n.names:
                out[al.asname or al.name] = n
        elif isinstance(n, ast.Import):
            for al in n.names:
                out[al.asname or al.name.split(".")[0]] = n
    return out


def module_data_globals(mod: ModuleInfo):
    """Module-level names bound to data (assignment targets at module level, outside def/class)."""
    if hasattr(mod, "_data_globals"):
        return mod._data_globals
    out = set()

    def targets(t):
        if isinstance(t, ast.Name):
            out.add(t.id)
        elif isinstance(t, (ast.Tuple, ast.List)):
            for e in t.elts:
                targets(e)

    def visit(stmts):
        for s in stmts:
            if isinstance(s, ast.Assign):
                for t in s.targets:
                    targets(t)
            elif isinstance(s, (ast.AugAssign, ast.AnnAssign)):
                targets(s.target)
            elif isinstance(s, (ast.If, ast.For, ast.While)):
                visit(s.body)
                visit(s.orelse)
            elif isinstance(s, ast.Try):
                visit(s.body)
                visit(s.orelse)
                visit(s.finalbody)
                for h in s.handlers:
                    visit(h.body)
            elif isinstance(s, ast.With):
                visit(s.body)

    visit(mod.tree.body)
    mod._data_globals = out
    return out


def module_bindings(mod: ModuleInfo):
    """Module-level name -> list of value expressions it is bound to at import time."""
    if hasattr(mod, "_bindings"):
        return mod._bindings
    out = {}

    def visit(stmts):
        for s_ in stmts:
            if isinstance(s_, ast.Assign):
                for t in s_.targets:
                    if isinstance(t, ast.Name):
                        out.setdefault(t.id, []).append(s_.value)
            elif isinstance(s_, ast.AnnAssign) and isinstance(s_.target, ast.Name) and s_.value is not None:
                out.setdefault(s_.target.id, []).append(s_.value)
            elif isinstance(s_, (ast.If, ast.For, ast.While, ast.With)):
                visit(s_.body)
                visit(getattr(s_, "orelse", []) or [])
            elif isinstance(s_, ast.Try):
                visit(s_.body)
                visit(s_.orelse)
                visit(s_.finalbody)
                for h in s_.handlers:
                    visit(h.body)

    visit(mod.tree.body)
    mod._bindings = out
    return out


RNG_CONSTRUCTORS = {"numpy.random.default_rng", "numpy.random.RandomState", "numpy.random.Generator",
                    "random.Random", "random.SystemRandom"}


def module_level_qualname(mod: ModuleInfo, func_expr):
    """Qualified external name of a callee expression evaluated at module level (imports only), or None."""
    ch = attr_chain(func_expr)
    if ch is None:
        return None
    imp = mod.imports.get(ch[0])
    if imp is None:
        return None
    if imp[0] == "extmod":
        base = imp[1]
    elif imp[0] == "ext":
        base = (imp[1] + "." + imp[2]).lstrip(".")
    else:
        return None
    return ".".join([base] + ch[1])


def global_is_generator(program, qn):
    """Is the module-level variable "module:name" bound (at import time) to a random generator object?"""
    modname, _, name = qn.partition(":")
    mod = program.modules.get(modname)
    if mod is None:
        return False
    for v in module_bindings(mod).get(name, []):
        if isinstance(v, ast.Call) and module_level_qualname(mod, v.func) in RNG_CONSTRUCTORS:
            return True
    return False


def attr_chain(e):
    """Name.attr.attr -> (root_name, [attrs]) or None."""
    path = []
    while isinstance(e, ast.Attribute):
        path.append(e.attr)
        e = e.value
    if isinstance(e, ast.Name):
        return e.id, list(reversed(path))
    return None


_EXT_ROOT = {"np": "numpy"}  # only used if a module spells the alias without importing it (never on this tree)


class Resolver:
    """Resolves names used in call position inside one function."""

    def __init__(self, program, fi: FuncInfo):
        self.program, self.fi = program, fi
        self.mod = fi.module
        self.locals = _assigned_names(fi.node) | set(fi.params())
        self.import_bound = _import_bound_names(fi.node)
        chain = []
        p = fi.parent
        while p is not None:
            chain.append(p)
            p = p.parent
        self.enclosing = chain
        self.enclosing_locals = set()
        for p in chain:
            self.enclosing_locals |= _assigned_names(p.node) | set(p.params())

    def nested_def(self, name):
        f = self.fi
        while f is not None:
            if name in getattr(f, "nested", {}):
                return f.nested[name]
            f = f.parent
        return None

    def is_local_value(self, name):
        """True when `name` is a variable of this function (or captured from an enclosing one) and not an import."""
        if name in self.import_bound:
            return False
        if name in self.locals:
            return self.nested_def(name) is None or name in self.fi.params()
        if name in self.enclosing_locals:
            return self.nested_def(name) is None
        return False

    def resolve_root(self, name):
        """-> ('func', FuncInfo) | ('class', ClassInfo) | ('module', ModuleInfo) | ('ext', 'numpy') |
              ('local', None) | ('builtin', name) | ('data', name) | None"""
        if self.is_local_value(name):
            return ("local", None)
        nd = self.nested_def(name)
        if nd is not None:
            return ("func", nd)
        mod = self.mod
        if name in mod.functions:
            return ("func", mod.functions[name])
        if name in mod.classes:
            return ("class", mod.classes[name])
        imp = mod.imports.get(name)
        if imp is not None:
            if imp[0] == "name":
                t = self.program.lookup_export(imp[1], imp[2])
                if isinstance(t, FuncInfo):
                    return ("func", t)
                if isinstance(t, ClassInfo):
                    return ("class", t)
                if isinstance(t, ModuleInfo):
                    return ("module", t)
                tm = self.program.modules.get(imp[1])
                if tm is not None and imp[2] in module_data_globals(tm):
                    return ("data", f"{tm.name}:{imp[2]}")
                raise AnalysisError(f"{self.fi.where}: imported name {name} does not resolve in module {imp[1]}")
            if imp[0] == "module":
                return ("module", self.program.modules[imp[1]])
            if imp[0] == "ext":
                return ("ext", (imp[1] + "." + imp[2]).lstrip("."))
            if imp[0] == "extmod":
                return ("ext", imp[1])
        if name in module_data_globals(mod):
            return ("data", f"{mod.name}:{name}")
        if name in BUILTIN_CONTAINER or name in BUILTIN_FRESH or name in ("setattr", "delattr", "exec", "eval"):
            return ("builtin", name)
        if name in ("True", "False", "None", "__file__", "__name__", "NotImplemented", "Ellipsis"):
            return ("builtin", name)
        import builtins
        b = getattr(builtins, name, None)
        if isinstance(b, type) and issubclass(b, BaseException):
            return ("builtin", name)       # exception / warning classes: constructing one has no effect
        return None

    def qualify(self, func_expr):
        """Resolve the callee expression of a Call.
        -> ('func', FuncInfo, bound) | ('class', ClassInfo) | ('ext', 'numpy.random.randn') |
           ('builtin', name) | ('method', recv_expr, name) | ('value', None)"""
        if isinstance(func_expr, ast.Name):
            r = self.resolve_root(func_expr.id)
            if r is None:
                raise AnalysisError(f"{self.fi.where}: unknown callable {func_expr.id}")
            if r[0] == "local":
                return ("value", None)
            if r[0] == "data":
                return ("value", None)
            if r[0] == "module":
                raise AnalysisError(f"{self.fi.where}: module {func_expr.id} called")
            return r
        if isinstance(func_expr, ast.Attribute):
            ch = attr_chain(func_expr)
            if ch is not None:
                root, path = ch
                r = self.resolve_root(root)
                if r is not None and r[0] == "ext":
                    return ("ext", r[1] + "." + ".".join(path))
                if r is not None and r[0] == "module":
                    cur = r[1]
                    for i, a in enumerate(path):
                        if isinstance(cur, ModuleInfo):
                            nxt = self.program.lookup_export(cur.name, a)
                            if nxt is None:
                                if a in module_data_globals(cur):
                                    return ("method", func_expr.value, func_expr.attr)
                                raise AnalysisError(f"{self.fi.where}: {root}.{'.'.join(path)} does not resolve")
                            cur = nxt
                        elif isinstance(cur, ClassInfo):
                            m = cur.methods.get(a)
                            if m is None:
                                raise AnalysisError(f"{self.fi.where}: {cur.name}.{a} does not resolve")
                            cur = m
                        else:
                            return ("method", func_expr.value, func_expr.attr)
                    if isinstance(cur, FuncInfo):
                        return ("func", cur)
                    if isinstance(cur, ClassInfo):
                        return ("class", cur)
                    raise AnalysisError(f"{self.fi.where}: module object {root}.{'.'.join(path)} called")
                if r is not None and r[0] == "class" and len(path) == 1:
                    m = r[1].methods.get(path[0])
                    if m is not None:
                        return ("func", m)      # Class.method(self, ...): plain positional mapping
                    return ("method", func_expr.value, func_expr.attr)
                if r is None and not self.is_local_value(root):
                    raise AnalysisError(f"{self.fi.where}: unknown name {root} in call {ast.unparse(func_expr)}")
            return ("method", func_expr.value, func_expr.attr)
        return ("value", None)

    def own_class(self):
        f = self.fi
        while f is not None:
            if f.cls is not None:
                return f.cls
            f = f.parent
        return None

    def self_name(self):
        """Name of the instance parameter when this function is (nested in) a plain method."""
        f = self.fi
        while f is not None:
            if f.cls is not None:
                if is_static(f) or not f.node.args.args and not f.node.args.posonlyargs:
                    return None
                return (f.node.args.posonlyargs + f.node.args.args)[0].arg
            f = f.parent
        return None


_SCALAR_ANN = {"int", "float", "bool", "str", "complex"}


def scalar_params(fi: FuncInfo):
    """Parameters documented as immutable scalars (annotation int/float/bool/str[/None], or a numeric / string /
    boolean default): such objects cannot be written through, `tol *= 10` merely re-binds the name."""
    a = fi.node.args
    out = set()

    def ann_scalar(ann):
        if ann is None:
            return False
        if isinstance(ann, ast.Name):
            return ann.id in _SCALAR_ANN
        if isinstance(ann, ast.Constant):
            return ann.value is None or (isinstance(ann.value, str) and ann.value.replace(" ", "").replace("|None", "") in _SCALAR_ANN)
        if isinstance(ann, ast.BinOp) and isinstance(ann.op, ast.BitOr):
            return ann_scalar(ann.left) and ann_scalar(ann.right)
        if isinstance(ann, ast.Subscript) and isinstance(ann.value, ast.Name) and ann.value.id == "Optional":
            return ann_scalar(ann.slice)
        return False

    for x in a.posonlyargs + a.args + a.kwonlyargs:
        if ann_scalar(x.annotation):
            out.add(x.arg)
    for nm, d in _param_defaults(fi).items():
        if isinstance(d, ast.Constant) and d.value is not None and isinstance(d.value, (int, float, str, bool, complex)):
            out.add(nm)
    return out


def is_static(fi: FuncInfo):
    for d in fi.node.decorator_list:
        if isinstance(d, ast.Name) and d.id == "staticmethod":
            return True
    return False


def is_classmethod(fi: FuncInfo):
    for d in fi.node.decorator_list:
        if isinstance(d, ast.Name) and d.id == "classmethod":
            return True
    return False


# ------------------------------------------------------------------------------------------------
# the abstract interpreter of one function
# ------------------------------------------------------------------------------------------------
class _Bottom:
    pass


class FuncAnalyzer:
    def __init__(self, engine, fi: FuncInfo):
        self.engine, self.fi = engine, fi
        self.program = engine.program
        self.res = FuncResult(fi)
        self.rs = Resolver(self.program, fi)
        self.params = fi.params()
        self.globals_decl = set()
        self.nonlocal_decl = set()
        for n in ast.walk(fi.node):
            if isinstance(n, ast.Global):
                self.globals_decl |= set(n.names)
            elif isinstance(n, ast.Nonlocal):
                self.nonlocal_decl |= set(n.names)
        self.try_accs = []
        self.loop_stack = []
        self._effect_keys = set()
        self.ctx_fi = fi            # function whose code is being evaluated (differs from fi inside a foreign lambda)
        self._lam_depth = 0
        # nested helpers used other than by a direct call / a plain local alias (passed on, returned, stored)
        self.escaped_nested = set()
        nested = getattr(fi, "nested", {})
        if nested:
            par = _parents(fi.node)
            for n in ast.walk(fi.node):
                if isinstance(n, ast.Name) and isinstance(n.ctx, ast.Load) and n.id in nested:
                    pn = par.get(n)
                    if isinstance(pn, ast.Call) and pn.func is n:
                        continue
                    if isinstance(pn, ast.Assign) and pn.value is n and all(isinstance(t, ast.Name) for t in pn.targets):
                        continue
                    self.escaped_nested.add(n.id)

    # -- environment helpers ----------------------------------------------------------------
    @staticmethod
    def join_env(a, b):
        if a is None:
            return None if b is None else dict(b)
        if b is None:
            return dict(a)
        out = dict(a)
        for k, v in b.items():
            out[k] = v.join(out.get(k))
        return out

    def note_env(self, env):
        if env is None:
            return
        for k, v in env.items():
            if v:
                self.res.ever[k] = self.res.ever.get(k, frozenset()) | v.all()
        for acc in self.try_accs:
            acc[0] = self.join_env(acc[0], env)

    def loc(self, node):
        return self.ctx_fi.loc(node)

    # -- effects --------------------------------------------------------------------------------
    def effect(self, origins, kind, node, attr=None, via=None):
        for o in origins:
            if attr is not None and o[2] is None:
                o = (o[0], o[1], attr)
            e = Effect(o, kind, via, self.loc(node))
            if e.key() not in self._effect_keys:
                self._effect_keys.add(e.key())
                self.res.effects.append(e)

    def state_effect(self, kind, name, node, via=None):
        k = (kind, name, via)
        if k not in self._effect_keys:
            self._effect_keys.add(k)
            self.res.state_effects.append((kind, name, via, self.loc(node)))

    # -- run ----------------------------------------------------------------------------------------
    def run(self):
        env = {}
        scal = scalar_params(self.fi)
        for p in self.params:
            env[p] = EMPTY if p in scal else Val({("param", p, None)})
        a = self.fi.node.args
        for d in list(a.defaults) + [d for d in a.kw_defaults if d is not None]:
            self.ev(d, env)
        self.note_env(env)
        out = self.block(self.fi.node.body, env)
        self.note_env(out)
        self.finish()
        return self.res

    def finish(self):
        res, sm = self.res, self.res.summary
        # Nested helpers that write to captured variables are judged at their call sites with the bindings current
        # there (call_repo).  A helper that escapes (passed on, returned, stored) may run at any time: conservative,
        # any origin the variable ever held.
        for name, nfi in getattr(self.fi, "nested", {}).items():
            nsm = self.engine.summary(nfi)
            for var, effs in nsm.mut_free.items():
                if var in self.rs.locals:
                    if name in self.escaped_nested:
                        for (attr, kind, via) in effs:
                            self.effect(res.ever.get(var, frozenset()), kind, nfi.node, attr=attr,
                                        via=via or f"nested function {nfi.name}")
                else:
                    sm.mut_free.setdefault(var, set()).update(effs)
            for (kind, nm, via) in nsm.state:
                self.state_effect(kind, nm, nfi.node, via=via or f"nested function {nfi.name}")
        idx = {p: i for i, p in enumerate(self.params)}
        for e in res.effects:
            k, n, attr = e.origin
            if k == "param":
                sm.mut.setdefault(idx[n], set()).add((attr, e.kind, e.via))
            elif k == "free":
                sm.mut_free.setdefault(n, set()).add((attr, e.kind, e.via))
            elif k == "global":
                sm.state.add(("module-global", n, e.via))
            elif k == "callres":
                sm.mut_callres.setdefault(n, set()).add((attr, e.kind, e.via))
        sm.ret_val = res.ret_val if res.ret_val is not None else EMPTY
        sm.pcalls = set(res.pcalls)
        for (kind, nm, via, _loc) in res.state_effects:
            sm.state.add((kind, nm, via))
        for (k, n, attr) in res.ret:
            if k == "param":
                sm.ret.add(("p", idx[n]))
            elif k == "global":
                sm.ret.add(("global", n))
            elif k == "free":
                sm.ret.add(("free", n))

    # -- statements -----------------------------------------------------------------------------
    def block(self, stmts, env):
        for s in stmts:
            if env is None:
                break
            env = self.stmt(s, env)
            self.note_env(env)
        return env

    def stmt(self, s, env):
        t = type(s)
        if t is ast.Expr:
            self.ev(s.value, env)
            return env
        if t is ast.Assign:
            self.assign_stmt(s.targets, s.value, env, s)
            return env
        if t is ast.AnnAssign:
            if s.value is not None:
                self.assign_stmt([s.target], s.value, env, s)
            return env
        if t is ast.AugAssign:
            return self.augassign(s, env)
        if t is ast.Return:
            if s.value is not None:
                v = self.ev(s.value, env)
                self.res.ret |= v.all()
                self.res.ret_val = v if self.res.ret_val is None else v.join(self.res.ret_val)
            return None
        if t is ast.If:
            self.ev(s.test, env)
            a = self.block(s.body, dict(env))
            b = self.block(s.orelse, dict(env))
            return self.join_env(a, b)
        if t in (ast.For, ast.AsyncFor):
            it = self.ev(s.iter, env)
            return self.loop(s, env, it)
        if t is ast.While:
            return self.loop(s, env, None)
        if t is ast.Try or t.__name__ == "TryStar":
            return self.try_stmt(s, env)
        if t in (ast.With, ast.AsyncWith):
            for item in s.items:
                v = self.ev(item.context_expr, env)
                if item.optional_vars is not None:
                    self.assign(item.optional_vars, v, env, s)
            return self.block(s.body, env)
        if t is ast.Raise:
            if s.exc is not None:
                self.ev(s.exc, env)
            if s.cause is not None:
                self.ev(s.cause, env)
            return None
        if t is ast.Assert:
            self.ev(s.test, env)
            if s.msg is not None:
                self.ev(s.msg, env)
            return env
        if t is ast.Delete:
            for tg in s.targets:
                if isinstance(tg, ast.Name):
                    env.pop(tg.id, None)
                elif isinstance(tg, ast.Subscript):
                    base = self.ev(tg.value, env)
                    self.ev(tg.slice, env)
                    self.res.n_store_sites.hit(tg)
                    self.effect(base.direct, "subscript delete", s)
                elif isinstance(tg, ast.Attribute):
                    base = self.ev(tg.value, env)
                    self.res.n_store_sites.hit(tg)
                    self.effect(base.direct, "attribute delete", s, attr=tg.attr)
            return env
        if t in (ast.Pass, ast.Global, ast.Nonlocal):
            return env
        if t is ast.Break:
            if self.loop_stack:
                self.loop_stack[-1]["break"] = self.join_env(self.loop_stack[-1]["break"], env)
            return None
        if t is ast.Continue:
            if self.loop_stack:
                self.loop_stack[-1]["cont"] = self.join_env(self.loop_stack[-1]["cont"], env)
            return None
        if t in (ast.Import, ast.ImportFrom):
            return env
        if t in (ast.FunctionDef, ast.AsyncFunctionDef):
            for d in list(s.args.defaults) + [d for d in s.args.kw_defaults if d is not None]:
                self.ev(d, env)
            env.pop(s.name, None)
            return env
        if t is ast.ClassDef:
            raise AnalysisError(f"{self.fi.where}: class definition inside a function is outside the analysable subset")
        raise AnalysisError(f"{self.fi.where}: statement {t.__name__} is outside the analysable subset ({self.loc(s)})")

    def loop(self, s, env, iter_val):
        frame = {"break": None, "cont": None}
        self.loop_stack.append(frame)
        head = dict(env)
        for _round in range(40):
            cur = dict(head)
            if iter_val is not None:
                iter_val = iter_val.join(self.ev(s.iter, cur))
                self.assign(s.target, element_of(iter_val), cur, s)
            else:
                self.ev(s.test, cur)
            self.note_env(cur)
            out = self.block(s.body, cur)
            out = self.join_env(out, frame["cont"])
            new_head = self.join_env(head, out)
            if new_head == head:
                break
            head = new_head
        else:
            raise AnalysisError(f"{self.fi.where}: loop fixpoint not reached ({self.loc(s)})")
        self.loop_stack.pop()
        # normal exit (condition false / iterator exhausted) runs the else clause
        exit_env = dict(head)
        if iter_val is None:
            self.ev(s.test, exit_env)
        exit_env = self.block(s.orelse, exit_env) if s.orelse else exit_env
        return self.join_env(exit_env, frame["break"])

    def try_stmt(self, s, env):
        acc = [dict(env)]
        self.try_accs.append(acc)
        body_out = self.block(s.body, dict(env))
        self.try_accs.pop()
        raised = acc[0]
        outs = []
        else_out = self.block(s.orelse, body_out) if (s.orelse and body_out is not None) else body_out
        outs.append(else_out)
        for h in s.handlers:
            henv = dict(raised)
            if h.type is not None:
                self.ev(h.type, henv)
            if h.name:
                henv[h.name] = EMPTY
            outs.append(self.block(h.body, henv))
        out = None
        for o in outs:
            out = self.join_env(out, o)
        if s.finalbody:
            fin_in = self.join_env(out, raised)
            fin_out = self.block(s.finalbody, fin_in)
            if out is None:
                return None
            return fin_out
        return out

    # -- assignment -----------------------------------------------------------------------------
    def assign_stmt(self, targets, value, env, node):
        # elementwise tuple assignment when both sides are literal sequences of the same length
        if (len(targets) == 1 and isinstance(targets[0], (ast.Tuple, ast.List)) and
                isinstance(value, (ast.Tuple, ast.List)) and len(value.elts) == len(targets[0].elts) and
                not any(isinstance(e, ast.Starred) for e in list(value.elts) + list(targets[0].elts))):
            vals = [self.ev(e, env) for e in value.elts]
            for tg, v in zip(targets[0].elts, vals):
                self.assign(tg, v, env, node)
            return
        v = self.ev(value, env)
        for tg in targets:
            self.assign(tg, v, env, node)

    def root_name(self, e):
        while isinstance(e, (ast.Attribute, ast.Subscript)):
            e = e.value
        return e.id if isinstance(e, ast.Name) else None

    def hold(self, target_value_expr, v, env):
        """A fresh local container (root name) now holds v."""
        r = self.root_name(target_value_expr)
        if r is not None and r in env and v:
            cur = env[r]
            if cur.arr and not cur:
                return            # ndarray store copies the data
            env[r] = Val(cur.direct, cur.inner | v.all())

    def retained(self, gname, v, node):
        """A module-level variable / object now holds a reference to (a view of) a parameter: the argument escapes
        into state that outlives the call."""
        ps = sorted({o[1] for o in v.all() if o[0] == "param"})
        if ps:
            self.state_effect("global-retains-param", f"{gname}<-{','.join(ps)}", node)

    def assign(self, tg, v, env, node):
        if isinstance(tg, ast.Name):
            if tg.id in self.globals_decl:
                self.res.n_store_sites.hit(tg)
                self.state_effect("global-rebind", f"{self.fi.module.name}:{tg.id}", node)
                self.retained(f"{self.fi.module.name}:{tg.id}", v, node)
            if tg.id in self.nonlocal_decl:
                # re-binding a captured variable: the enclosing function's variable changes, no object is written
                pass
            env[tg.id] = v
            return
        if isinstance(tg, (ast.Tuple, ast.List)):
            ev = element_of(v)
            for e in tg.elts:
                self.assign(e, ev, env, node)
            return
        if isinstance(tg, ast.Starred):
            self.assign(tg.value, Val(frozenset(), v.all()), env, node)
            return
        if isinstance(tg, ast.Subscript):
            base = self.ev(tg.value, env)
            self.ev(tg.slice, env)
            self.res.n_store_sites.hit(tg)
            self.effect(base.direct, "subscript store", node)
            self.hold(tg.value, v, env)
            for o in base.direct:
                if o[0] == "global":
                    self.retained(o[1], v, node)
            return
        if isinstance(tg, ast.Attribute):
            self.res.n_store_sites.hit(tg)
            ch = attr_chain(tg)
            if ch is not None:
                r = self.rs.resolve_root(ch[0])
                if r is not None and r[0] in ("ext", "module"):
                    nm = r[1] if r[0] == "ext" else r[1].name
                    self.state_effect("module-attribute", f"{nm}.{'.'.join(ch[1])}", node)
                    return
                if r is not None and r[0] == "class":
                    self.state_effect("class-attribute", f"{r[1].name}.{'.'.join(ch[1])}", node)
                    return
            base = self.ev(tg.value, env)
            self.effect(base.direct, "attribute store", node, attr=tg.attr)
            self.hold(tg.value, v, env)
            for o in base.direct:
                if o[0] == "global":
                    self.retained(o[1], v, node)
            return
        raise AnalysisError(f"{self.fi.where}: assignment target {type(tg).__name__} outside the analysable subset")

    def augassign(self, s, env):
        v = self.ev(s.value, env)
        tg = s.target
        if isinstance(tg, ast.Name):
            cur = env.get(tg.id)
            if cur is None:
                cur = self.ev(tg, env)
            self.res.n_store_sites.hit(s)
            # ndarray / list `x op= y` writes in place: the object bound to the name is modified
            self.effect(cur.direct, "augmented assignment", s)
            if tg.id in self.globals_decl:
                self.state_effect("global-rebind", f"{self.fi.module.name}:{tg.id}", s)
            env[tg.id] = Val(cur.direct, cur.inner | v.all()) if isinstance(s.op, ast.Add) else cur
            return env
        if isinstance(tg, ast.Subscript):
            base = self.ev(tg.value, env)
            self.ev(tg.slice, env)
            self.res.n_store_sites.hit(s)
            self.effect(base.direct, "augmented subscript store", s)
            return env
        if isinstance(tg, ast.Attribute):
            self.res.n_store_sites.hit(s)
            ch = attr_chain(tg)
            if ch is not None:
                r = self.rs.resolve_root(ch[0])
                if r is not None and r[0] in ("ext", "module"):
                    nm = r[1] if r[0] == "ext" else r[1].name
                    self.state_effect("module-attribute", f"{nm}.{'.'.join(ch[1])}", s)
                    return env
                if r is not None and r[0] == "class":
                    self.state_effect("class-attribute", f"{r[1].name}.{'.'.join(ch[1])}", s)
                    return env
            base = self.ev(tg.value, env)
            self.effect(base.direct, "attribute store", s, attr=tg.attr)
            return env
        raise AnalysisError(f"{self.fi.where}: augmented target {type(tg).__name__} outside the analysable subset")

    # -- expressions ----------------------------------------------------------------------------
    def ev(self, e, env):
        t = type(e)
        if t is ast.Name:
            if e.id in env:
                return env[e.id]
            nd = self.rs.nested_def(e.id)
            if nd is not None and not self.rs.is_local_value(e.id):
                return Val(fns={self.func_closure(nd, env)})      # a nested helper used as a value
            if e.id in self.rs.locals:
                return EMPTY          # not yet bound on this path
            if e.id in self.rs.enclosing_locals:
                return Val({("free", e.id, None)})
            r = self.rs.resolve_root(e.id)
            if r is not None and r[0] == "data":
                return Val({("global", r[1], None)})
            if r is not None and r[0] == "func":
                return Val(fns={Closure("func", r[1])})
            if r is not None and r[0] == "class":
                return Val(fns={Closure("class", r[1])})
            return EMPTY
        if t is ast.Constant:
            return EMPTY
        if t is ast.Attribute:
            ch = attr_chain(e)
            if ch is not None:
                r = None if (self.rs.is_local_value(ch[0]) or ch[0] in env) else self.rs.resolve_root(ch[0])
                if r is not None and r[0] == "class" and len(ch[1]) == 1 and ch[1][0] in r[1].methods:
                    return Val(fns={Closure("func", r[1].methods[ch[1][0]])})     # Class.method as a value (unbound)
                if r is not None and r[0] in ("ext", "class", "func"):
                    return EMPTY
                if r is not None and r[0] == "module":
                    tm = r[1]
                    if len(ch[1]) >= 1 and ch[1][0] in module_data_globals(tm):
                        return Val({("global", f"{tm.name}:{ch[1][0]}", None)})
                    if len(ch[1]) == 1:
                        t_ = self.program.lookup_export(tm.name, ch[1][0])
                        if isinstance(t_, FuncInfo):
                            return Val(fns={Closure("func", t_)})
                        if isinstance(t_, ClassInfo):
                            return Val(fns={Closure("class", t_)})
                    return EMPTY
            v = self.ev(e.value, env)
            if e.attr in SCALAR_ATTRS:
                return EMPTY
            fns = set()
            selfname, oc = self.rs.self_name(), self.rs.own_class()
            if (selfname is not None and oc is not None and isinstance(e.value, ast.Name) and e.value.id == selfname
                    and e.attr in oc.methods):
                return Val(fns={Closure("func", oc.methods[e.attr], {"__self__": strip_fns(v)})})   # bound method
            for cl in v.fns:
                if cl.kind == "class" and e.attr in cl.code.methods:
                    fns.add(Closure("func", cl.code.methods[e.attr]))
            if not fns and e.attr not in METHOD_MUTATES | METHOD_VIEW | METHOD_FRESH:
                for m_ in self.engine.methods_named(e.attr):            # obj.method as a value, class of obj unknown
                    fns.add(Closure("func", m_, {"__self__": strip_fns(v)}))
            return Val(with_attr(v.direct, e.attr) | v.inner, v.inner, fns=fns)
        if t is ast.Subscript:
            v = self.ev(e.value, env)
            self.ev(e.slice, env)
            if self.is_fancy(e.slice):
                return EMPTY      # numpy advanced indexing on the right-hand side copies
            return element_of(v)
        if t is ast.Call:
            return self.call(e, env)
        if t in (ast.BinOp,):
            l = self.ev(e.left, env)
            r = self.ev(e.right, env)
            # arithmetic allocates its result; `list + list`, `[x] * n`, `dict | dict` keep holding their elements
            if isinstance(e.op, (ast.Add, ast.Mult, ast.BitOr)) and (l.inner or r.inner) and not (l.arr or r.arr):
                return Val(frozenset(), l.inner | r.inner)
            return FRESH_ARRAY
        if t is ast.UnaryOp:
            self.ev(e.operand, env)
            return EMPTY
        if t is ast.Compare:
            self.ev(e.left, env)
            for c in e.comparators:
                self.ev(c, env)
            return EMPTY
        if t is ast.BoolOp:
            out = EMPTY
            for v in e.values:
                out = out.join(self.ev(v, env))     # `a or b` evaluates to one of its operands
            return out
        if t is ast.IfExp:
            self.ev(e.test, env)
            return self.ev(e.body, env).join(self.ev(e.orelse, env))
        if t in (ast.Tuple, ast.List, ast.Set):
            return container_of(*[self.ev(x, env) for x in e.elts])
        if t is ast.Dict:
            vals = []
            for k, v in zip(e.keys, e.values):
                if k is not None:
                    self.ev(k, env)
                    vals.append(self.ev(v, env))
                else:
                    vals.append(element_of(self.ev(v, env)))
            return container_of(*vals)
        if t in (ast.ListComp, ast.SetComp, ast.GeneratorExp, ast.DictComp):
            cenv = dict(env)
            for g in e.generators:
                it = self.ev(g.iter, cenv)
                self.assign(g.target, element_of(it), cenv, e)
                for c in g.ifs:
                    self.ev(c, cenv)
            if t is ast.DictComp:
                self.ev(e.key, cenv)
                return container_of(self.ev(e.value, cenv))
            return container_of(self.ev(e.elt, cenv))
        if t is ast.JoinedStr:
            for v in e.values:
                self.ev(v, env)
            return EMPTY
        if t is ast.FormattedValue:
            self.ev(e.value, env)
            if e.format_spec is not None:
                self.ev(e.format_spec, env)
            return EMPTY
        if t is ast.Starred:
            return element_of(self.ev(e.value, env))
        if t is ast.Slice:
            for x in (e.lower, e.upper, e.step):
                if x is not None:
                    self.ev(x, env)
            return EMPTY
        if t is ast.Lambda:
            # evaluated once with unknown arguments where it is created (a lambda handed to a library routine is
            # called there) and again, with the actual arguments, wherever the analysis sees it called
            lenv = dict(env)
            a = e.args
            own = [x.arg for x in a.posonlyargs + a.args + a.kwonlyargs + ([a.vararg] if a.vararg else []) + ([a.kwarg] if a.kwarg else [])]
            for x in own:
                lenv[x] = EMPTY
            self.ev(e.body, lenv)
            cap = {}
            for n in ast.walk(e.body):
                if isinstance(n, ast.Name) and n.id in env and n.id not in own:
                    cap[n.id] = env[n.id]
            return Val(fns={Closure("lambda", (e, self.ctx_fi), cap)})
        if t is ast.NamedExpr:
            v = self.ev(e.value, env)
            self.assign(e.target, v, env, e)
            return v
        if t in (ast.Yield, ast.YieldFrom):
            if e.value is not None:
                v = self.ev(e.value, env)
                self.res.ret |= v.all()
            return EMPTY
        if t is ast.Await:
            return self.ev(e.value, env)
        raise AnalysisError(f"{self.fi.where}: expression {t.__name__} is outside the analysable subset")

    @staticmethod
    def is_fancy(sl):
        """Index forms that are numpy advanced indexing whatever the array: a list / list comprehension /
        comparison (boolean mask) as index or as one component of a tuple index."""
        items = sl.elts if isinstance(sl, ast.Tuple) else [sl]
        return any(isinstance(x, (ast.List, ast.ListComp, ast.Compare)) for x in items)

    # -- calls ------------------------------------------------------------------------------------------
    def call(self, e, env):
        self.res.n_calls.hit(e)
        q = self.rs.qualify(e.func)
        kind = q[0]
        # evaluate arguments once
        argvals = []
        for a in e.args:
            if isinstance(a, ast.Starred):
                argvals.append(("*", element_of(self.ev(a.value, env))))
            else:
                argvals.append((None, self.ev(a, env)))
        kwvals = []
        for k in e.keywords:
            kwvals.append((k.arg, self.ev(k.value, env) if k.arg is not None else element_of(self.ev(k.value, env))))
        if kind == "func":
            return self.call_repo([q[1]], None, argvals, kwvals, e, env)
        if kind == "class":
            return self.call_ctor(q[1], argvals, kwvals, e, env)
        if kind == "ext":
            return self.call_ext(q[1], argvals, kwvals, e, env)
        if kind == "builtin":
            return self.call_builtin(q[1], argvals, kwvals, e, env)
        if kind == "method":
            return self.call_method(q[1], q[2], argvals, kwvals, e, env)
        # call of a value: a local name bound to a function / bound method / lambda / conditional expression of
        # such (may-point-to set), a callable parameter (summarised, resolved at the call sites), or unknown
        fv = self.ev(e.func, env)
        return self.call_value(fv, argvals, kwvals, e, env, ast.unparse(e.func))

    def call_value(self, fv, argvals, kwvals, e, env, desc):
        result = EMPTY
        resolved = False
        for cl in sorted(fv.fns, key=lambda c: repr(c)):
            result = result.join(self.call_closure(cl, argvals, kwvals, e, env))
            resolved = True
        unknown = False
        selfname = self.rs.self_name()
        for o in fv.all():
            if o[0] in ("param", "free") and o[2] is None and not (o[0] == "param" and o[1] == selfname):
                # the callable is (an element / attribute of) a parameter or a captured variable: recorded in the
                # summary and invoked, with the actual callable, at every call site of this function
                key = (o[0], o[1])
                self.res.pcalls.add((key, tuple(argvals), tuple(kwvals)))
                result = result.join(Val({("callres", f"{o[0]}:{o[1]}", None)}))
                resolved = True
            else:
                unknown = True
        if unknown or not resolved:
            if any(v for _, v in argvals) or any(v for _, v in kwvals):
                raise AnalysisError(f"{self.fi.where}: call of a callable of unknown provenance ({desc}) with tracked "
                                    f"arguments ({self.loc(e)})")
            self.res.unresolved_calls.append((desc, self.loc(e)))
        return result

    def call_closure(self, cl, argvals, kwvals, e, env):
        if cl.kind == "func":
            cap = cl.cap()
            return self.call_repo([cl.code], cap.get("__self__"), argvals, kwvals, e, env, duck=True, captured=cap)
        if cl.kind == "class":
            return self.call_ctor(cl.code, argvals, kwvals, e, env)
        node, dfi = cl.code
        if self._lam_depth > 6:
            if any(v for _, v in argvals) or any(v for _, v in kwvals):
                raise AnalysisError(f"{self.fi.where}: lambda nesting too deep with tracked arguments ({self.loc(e)})")
            return EMPTY
        lenv = dict(env) if dfi is self.fi else {}
        for name, v in cl.captured:
            lenv[name] = v.join(lenv.get(name))
        a = node.args
        pos = [x.arg for x in a.posonlyargs + a.args]
        allp = pos + [x.arg for x in a.kwonlyargs]
        for x in allp + ([a.vararg.arg] if a.vararg else []) + ([a.kwarg.arg] if a.kwarg else []):
            lenv[x] = EMPTY
        plain = [v for s_, v in argvals if not s_]
        for i, v in enumerate(plain):
            if i < len(pos):
                lenv[pos[i]] = v
            elif a.vararg is not None:
                lenv[a.vararg.arg] = container_of(v).join(lenv[a.vararg.arg])
        for s_, v in argvals:
            if s_:
                for n in pos:
                    lenv[n] = lenv[n].join(v)
                if a.vararg is not None:
                    lenv[a.vararg.arg] = container_of(v).join(lenv[a.vararg.arg])
        for k, v in kwvals:
            if k is None:
                for n in allp:
                    lenv[n] = lenv[n].join(v)
                if a.kwarg is not None:
                    lenv[a.kwarg.arg] = v.join(lenv[a.kwarg.arg])
            elif k in allp:
                lenv[k] = v
            elif a.kwarg is not None:
                lenv[a.kwarg.arg] = container_of(v).join(lenv[a.kwarg.arg])
        saved = (self.rs, self.ctx_fi)
        self.rs, self.ctx_fi = self.engine.resolver(dfi), dfi
        self._lam_depth += 1
        try:
            return self.ev(node.body, lenv)
        finally:
            self._lam_depth -= 1
            self.rs, self.ctx_fi = saved

    # -- closures / captured variables / translation across a call boundary ------------------------------
    def func_closure(self, nfi, env):
        cap = {}
        for n in self.engine.free_names(nfi):
            if n in env:
                cap[n] = env[n]
        return Closure("func", nfi, cap)

    def _nested_in_own(self, fi):
        f = fi.parent
        while f is not None:
            if f is self.fi:
                return True
            f = f.parent
        return False

    def free_val(self, fi, var, env, captured):
        """Value of a variable captured by callee `fi`, as seen at this call site."""
        v, found = EMPTY, False
        if captured and var in captured:
            v, found = v.join(captured[var]), True
        if self._nested_in_own(fi) and self.ctx_fi is self.fi:
            if var in env:
                v, found = v.join(env[var]), True
            elif var in self.rs.locals:
                found = True              # not bound yet on this path
            elif var in self.rs.enclosing_locals:
                v, found = v.join(Val({("free", var, None)})), True
        return v

    def translate(self, v, fi, amap, callres, env, captured, depth=0):
        """A value of callee `fi`'s origin space expressed in this function's origin space."""
        names = fi.params()
        idx = {n: i for i, n in enumerate(names)}
        out, fns = set(), set()
        for o in v.all():
            k, n, _a = o
            if k == "param":
                av = amap.get(idx.get(n))
                if av is not None:
                    out |= av.all()
                    fns |= av.fns
            elif k == "global":
                out.add(o)
            elif k == "free":
                fv = self.free_val(fi, n, env, captured)
                out |= fv.all()
                fns |= fv.fns
            elif k == "callres":
                cv = callres.get(n)
                if cv is not None:
                    out |= cv.all()
                    fns |= cv.fns
        for cl in v.fns:
            if depth < 3:
                cap = {nm: self.translate(cv, fi, amap, callres, env, captured, depth + 1) for nm, cv in cl.captured}
            else:
                cap = {}
            fns.add(Closure(cl.kind, cl.code, cap))
        return Val(out, out, arr=v.arr and not out, fns=fns)

    def map_args(self, fi: FuncInfo, bound, argvals, kwvals):
        """-> dict param index -> Val"""
        a = fi.node.args
        pos = [x.arg for x in a.posonlyargs + a.args]
        names = fi.params()
        idx = {n: i for i, n in enumerate(names)}
        out = {}
        seq = ([bound] if bound is not None else []) + [v for _, v in argvals]
        star_rest = EMPTY
        has_star = any(s for s, _ in argvals)
        for i, v in enumerate(seq):
            if i < len(pos):
                out[idx[pos[i]]] = v.join(out.get(idx[pos[i]]))
            elif a.vararg is not None:
                j = idx[a.vararg.arg]
                out[j] = container_of(v).join(out.get(j))
            else:
                star_rest = star_rest.join(v)
        if has_star:
            # *args at the call site may land on any positional parameter
            sv = EMPTY
            for s, v in argvals:
                if s:
                    sv = sv.join(v)
            for i in range(len(pos)):
                out[idx[pos[i]]] = sv.join(out.get(idx[pos[i]]))
        for k, v in kwvals:
            if k is None:
                for n in names:
                    out[idx[n]] = v.join(out.get(idx[n]))
            elif k in idx:
                out[idx[k]] = v.join(out.get(idx[k]))
            elif a.kwarg is not None:
                j = idx[a.kwarg.arg]
                out[j] = container_of(v).join(out.get(j))
            else:
                raise AnalysisError(f"{self.fi.where}: call passes unknown keyword {k} to {fi.qualname}")
        return out

    def call_repo(self, fis, bound, argvals, kwvals, e, env, duck=False, captured=None):
        self.res.n_repo_calls.hit(e)
        result = EMPTY
        for fi in fis:
            sm = self.engine.summary(fi)
            b = bound
            if b is not None and (is_static(fi)):
                b = None
            try:
                amap = self.map_args(fi, b, argvals, kwvals)
            except AnalysisError:
                if duck:
                    continue          # this class's method does not accept the call: not the receiver's class
                raise
            names = fi.params()
            idx = {n: i for i, n in enumerate(names)}
            for i, effs in sm.mut.items():
                v = amap.get(i)
                if v is not None and not (fi.cls is not None and i == 0 and fi.name == "__init__"):
                    site = (fi.qualname, names[i], bool(v), self.loc(e), fi.where)
                    if site not in self.res.mut_call_sites:
                        self.res.mut_call_sites.append(site)
                if v is None or not v:
                    continue
                for (attr, kind0, via0) in effs:
                    via = f"{fi.qualname}({names[i]})"
                    self.effect(v.all(), "call", e, attr=attr, via=via)
            for (kind0, nm, via0) in sm.state:
                self.state_effect(kind0, nm, e, via=f"{fi.qualname}")
            # writes of a nested callee to variables it captures: judged with the bindings current at this call
            for var, effs in sm.mut_free.items():
                tv = self.free_val(fi, var, env, captured)
                for (attr, kind0, via0) in effs:
                    self.effect(tv.all(), kind0, e, attr=attr, via=via0 or f"nested function {fi.name}")
            # calls the callee makes through its callable parameters / captured callables, with the actual callables
            callres = {}
            if sm.pcalls:
                for _pass in (0, 1):
                    for (key, pargs, pkws) in sorted(sm.pcalls, key=repr):
                        cv = amap.get(idx.get(key[1])) if key[0] == "param" else self.free_val(fi, key[1], env, captured)
                        targs = [(s_, self.translate(v, fi, amap, callres, env, captured)) for s_, v in pargs]
                        tkws = [(k, self.translate(v, fi, amap, callres, env, captured)) for k, v in pkws]
                        r = self.call_value(cv if cv is not None else EMPTY, targs, tkws, e, env,
                                            f"{key[1]}: callable {key[0]} of {fi.qualname}")
                        ck = f"{key[0]}:{key[1]}"
                        callres[ck] = r.join(callres.get(ck))
                for ck, effs in sm.mut_callres.items():
                    cv = callres.get(ck)
                    if cv is not None and cv:
                        for (attr, kind0, via0) in effs:
                            self.effect(cv.all(), "call", e, attr=attr, via=f"{fi.qualname}(result of {ck.split(':')[1]})")
            result = result.join(self.translate(sm.ret_val, fi, amap, callres, env, captured))
        return result

    def call_ctor(self, ci: ClassInfo, argvals, kwvals, e, env):
        init = ci.methods.get("__init__")
        held = container_of(*[v for _, v in argvals], *[v for _, v in kwvals])
        if init is not None:
            self.res.n_repo_calls.hit(e)
            sm = self.engine.summary(init)
            amap = self.map_args(init, EMPTY, argvals, kwvals)
            names = init.params()
            for i, effs in sm.mut.items():
                if i == 0:
                    continue     # the new object itself
                v = amap.get(i)
                if v is None or not v:
                    continue
                for (attr, kind0, via0) in effs:
                    self.effect(v.all(), "call", e, attr=attr, via=f"{init.qualname}({names[i]})")
            for (kind0, nm, via0) in sm.state:
                self.state_effect(kind0, nm, e, via=f"{init.qualname}")
        return held

    def call_builtin(self, name, argvals, kwvals, e, env):
        vals = [v for _, v in argvals] + [v for _, v in kwvals]
        if name in ("setattr", "delattr"):
            if vals:
                self.res.n_store_sites.hit(e)
                attr = None
                if len(e.args) >= 2 and isinstance(e.args[1], ast.Constant) and isinstance(e.args[1].value, str):
                    attr = e.args[1].value
                self.effect(vals[0].direct, "attribute store", e, attr=attr or "<dynamic>")
            return EMPTY
        if name in ("exec", "eval"):
            raise AnalysisError(f"{self.fi.where}: dynamic code ({name}) is outside the analysable subset")
        if name == "map" and e.args:
            # map(f, xs): results of f; fresh when f is a fresh-result library function, a returned-alias summary
            # when f is a repository function, otherwise (unknown f) possibly the elements themselves
            try:
                q = self.rs.qualify(e.args[0])
            except AnalysisError:
                q = ("value", None)
            if q[0] == "ext" and (q[1] in LIB_FRESH or q[1].startswith(LIB_FRESH_PREFIX)) and q[1] != "numpy.array":
                return EMPTY
            if q[0] == "ext" and q[1] == "numpy.array":
                return EMPTY
            if q[0] == "func":
                elems = [(None, element_of(v)) for v in vals[1:]]
                return container_of(self.call_repo([q[1]], None, elems, [], e, env))
        if name in BUILTIN_CONTAINER:
            if name in ("getattr", "next", "min", "max"):
                return element_of(container_of(*vals)) if vals else EMPTY
            return container_of(*[element_of(v) for v in vals])
        return EMPTY

    def call_ext(self, qn, argvals, kwvals, e, env):
        self.res.lib_used.add(qn)
        vals = [v for _, v in argvals]
        tracked = any(v for v in vals) or any(v for _, v in kwvals)
        # out= keyword writes into the given array whatever the function
        for k, v in kwvals:
            if k == "out" and v:
                self.res.n_store_sites.hit(e)
                self.effect(v.all(), f"out= argument of {qn}", e)
            if k is not None and k.startswith("overwrite_") and vals:
                kw = [x for x in e.keywords if x.arg == k][0]
                if not (isinstance(kw.value, ast.Constant) and kw.value.value is False):
                    self.res.n_store_sites.hit(e)
                    self.effect(vals[0].direct, f"{k}= of {qn}", e)
        if qn in ("sys.path.append", "sys.path.insert", "sys.path.extend", "sys.path.remove", "sys.path.pop",
                  "os.environ.update", "os.environ.setdefault", "os.environ.pop", "os.putenv", "os.chdir",
                  "sys.setrecursionlimit", "numpy.seterr", "numpy.set_printoptions", "warnings.filterwarnings",
                  "warnings.simplefilter"):
            self.state_effect("module-attribute", qn, e)
            return EMPTY
        if qn in LIB_INPLACE:
            k = LIB_INPLACE[qn]
            if k < len(vals):
                self.res.n_store_sites.hit(e)
                self.effect(vals[k].direct, qn.replace("numpy.", "np."), e)
            return EMPTY
        if qn.startswith("numpy.") and qn.endswith(".at") and qn.count(".") == 2:
            if vals:
                self.res.n_store_sites.hit(e)
                self.effect(vals[0].direct, qn.replace("numpy.", "np."), e)   # ufunc.at writes in place
            return EMPTY
        if qn == "numpy.array":
            for kw in e.keywords:
                if kw.arg == "copy" and not (isinstance(kw.value, ast.Constant) and kw.value.value is True):
                    return Val(frozenset().union(*[v.all() for v in vals]) if vals else frozenset())
            return FRESH_ND                                # np.array copies by default
        if qn == "copy.copy":
            return container_of(*[element_of(v) for v in vals])   # shallow
        if qn in LIB_VIEW:
            if qn.startswith("scipy.sparse.") and vals and vals[0].nd:
                return EMPTY      # a sparse matrix built from a dense ndarray always allocates its own storage
            u = frozenset()
            for v in vals:
                u |= v.all()
            for _, v in kwvals:
                u |= v.all()
            lists = {"numpy.split", "numpy.array_split", "numpy.hsplit", "numpy.vsplit", "numpy.nditer", "numpy.ndenumerate",
                     "numpy.triu_indices_from", "numpy.matrix", "numpy.atleast_1d", "numpy.atleast_2d", "numpy.atleast_3d"}
            return Val(u, u, nd=qn.startswith(("numpy.", "quaternion.")) and qn not in lists)
        if qn.startswith("numpy.random.") or qn.startswith("random.") or qn.startswith("secrets."):
            return EMPTY                                   # classified by the RNG pass (D3)
        if qn in LIB_FRESH or qn.startswith(LIB_FRESH_PREFIX) or qn.startswith(LIB_PURE_PREFIX):
            return FRESH_ND if qn.startswith(("numpy.", "quaternion.")) else EMPTY
        if tracked:
            raise AnalysisError(f"{self.fi.where}: unknown-external {qn} receives a tracked value ({self.loc(e)}); "
                                f"add it to the library model in qstatic/effects.py")
        return EMPTY

    def call_method(self, recv_expr, m, argvals, kwvals, e, env):
        recv = self.ev(recv_expr, env)
        vals = [v for _, v in argvals] + [v for _, v in kwvals]
        # receiver is a repository class held in a local name: `rsp = SomeClass; rsp.method(obj, ...)`
        hits = [cl.code.methods[m] for cl in recv.fns if cl.kind == "class" and m in cl.code.methods]
        if hits:
            return self.call_repo(hits, None, argvals, kwvals, e, env)
        # self.method(...) / cls.method(...)
        selfname = self.rs.self_name()
        oc = self.rs.own_class()
        if (selfname is not None and oc is not None and isinstance(recv_expr, ast.Name) and recv_expr.id == selfname
                and m in oc.methods):
            return self.call_repo([oc.methods[m]], recv, argvals, kwvals, e, env)
        for k, v in kwvals:
            if k == "out" and v:
                self.res.n_store_sites.hit(e)
                self.effect(v.all(), f"out= argument of .{m}()", e)
        # self.<attr>.method(...) where every assignment `self.<attr> = Class(...)` of the own class names one
        # repository class: the receiver's class is known
        if (selfname is not None and oc is not None and isinstance(recv_expr, ast.Attribute)
                and isinstance(recv_expr.value, ast.Name) and recv_expr.value.id == selfname):
            ac = self.engine.attr_class(oc, recv_expr.attr)
            if ac is not None and m in ac.methods:
                return self.call_repo([ac.methods[m]], recv, argvals, kwvals, e, env)
        known = False
        result = EMPTY
        if m in METHOD_MUTATES:
            known = True
            self.res.n_store_sites.hit(e)
            self.effect(recv.direct, f"in-place method .{m}()", e)
            if m in METHOD_STORES_ARG:
                self.hold(recv_expr, container_of(*vals), env)
                for o in recv.direct:
                    if o[0] == "global":
                        self.retained(o[1], container_of(*vals), e)
        if m in RNG_GENERATOR_DRAWS:
            # drawing advances the generator: a write to the generator object when it lives at module level or on
            # self (a generator passed as an argument is the caller's stream and is not counted)
            for o in recv.direct:
                if o[0] == "global" and global_is_generator(self.program, o[1]):
                    self.res.n_store_sites.hit(e)
                    self.effect({o}, f"generator draw .{m}()", e)
                elif (o[0] == "param" and o[1] == selfname and o[2] is not None and oc is not None
                      and self.engine.attr_is_generator(oc, o[2])):
                    self.res.n_store_sites.hit(e)
                    self.effect({o}, f"generator draw .{m}()", e)
        if m in METHOD_VIEW:
            known = True
            result = result.join(element_of(recv))
        if m in ("astype", "conj", "conjugate", "tocsr", "tocsc", "tocoo", "asformat") and any(
                k.arg == "copy" and not (isinstance(k.value, ast.Constant) and k.value.value is True) for k in e.keywords):
            known = True
            result = result.join(element_of(recv))      # copy=False: may return the receiver itself
        if m in METHOD_FRESH:
            known = True
            if m in ("astype", "toarray", "todense", "flatten"):
                result = result.join(FRESH_ND if m in ("toarray", "flatten") else FRESH_ARRAY) if not result else result
        # duck-typed repository methods of the same name (e.g. B.left_multiply(A), A.conjugate().transpose())
        cands = self.engine.methods_named(m)
        if cands and (recv or any(v for v in vals) or not known):
            known = True
            result = result.join(self.call_repo(cands, recv, argvals, kwvals, e, env, duck=True))
        if not known:
            if recv or any(v for v in vals):
                raise AnalysisError(f"{self.fi.where}: unknown method .{m}() applied to / receiving a tracked value "
                                    f"({self.loc(e)}); add it to the method model in qstatic/effects.py")
            return EMPTY
        return result


# ------------------------------------------------------------------------------------------------
# engine: summaries to a global fixpoint
# ------------------------------------------------------------------------------------------------
class EffectsEngine:
    def __init__(self, program, scope_modules):
        self.program = program
        self.scope = list(scope_modules)
        self.universe = []
        self._seen = set()
        for mn in self.scope:
            for fi in program.module(mn).all_funcs:
                self._add(fi)
        self.summaries = {}
        self.results = {}
        self._methods = None
        self._attr_class = {}
        self._resolvers = {}
        self._free = {}
        self.rounds = 0

    def _add(self, fi):
        if id(fi) not in self._seen:
            self._seen.add(id(fi))
            self.universe.append(fi)
            self._grew = True

    def summary(self, fi) -> Summary:
        if id(fi) not in self._seen:
            self._add(fi)            # callee outside the scope modules: analysed on demand
        return self.summaries.get(id(fi)) or Summary()

    def attr_class(self, ci: ClassInfo, attr):
        """Class of `self.<attr>` when every store to it in the class is a constructor call of one repository class."""
        key = (id(ci), attr)
        if key in self._attr_class:
            return self._attr_class[key]
        found, ok = set(), True
        for fi in ci.methods.values():
            a = fi.node.args.posonlyargs + fi.node.args.args
            if not a:
                continue
            sn = a[0].arg
            rs = Resolver(self.program, fi)
            for n in ast.walk(fi.node):
                tgts = n.targets if isinstance(n, ast.Assign) else ([n.target] if isinstance(n, (ast.AugAssign, ast.AnnAssign)) else [])
                for t in tgts:
                    if (isinstance(t, ast.Attribute) and t.attr == attr and isinstance(t.value, ast.Name) and t.value.id == sn):
                        v = getattr(n, "value", None)
                        q = None
                        if isinstance(n, ast.Assign) and isinstance(v, ast.Call):
                            try:
                                q = rs.qualify(v.func)
                            except AnalysisError:
                                q = None
                        if q is not None and q[0] == "class":
                            found.add(id(q[1]))
                            cls = q[1]
                        else:
                            ok = False
        res = cls if ok and len(found) == 1 else None
        self._attr_class[key] = res
        return res

    def resolver(self, fi):
        r = self._resolvers.get(id(fi))
        if r is None:
            r = self._resolvers[id(fi)] = Resolver(self.program, fi)
        return r

    def free_names(self, fi):
        """Names a nested function reads from enclosing scopes."""
        r = self._free.get(id(fi))
        if r is None:
            own = _assigned_names(fi.node) | set(fi.params())
            r = {n.id for n in ast.walk(fi.node) if isinstance(n, ast.Name) and n.id not in own}
            self._free[id(fi)] = r
        return r

    def attr_is_generator(self, ci: ClassInfo, attr):
        """Does some method of the class bind `self.<attr>` to a random generator constructor?"""
        key = (id(ci), attr, "rng")
        if key in self._attr_class:
            return self._attr_class[key]
        res = False
        for fi in ci.methods.values():
            a = fi.node.args.posonlyargs + fi.node.args.args
            if not a:
                continue
            sn = a[0].arg
            for n in ast.walk(fi.node):
                if isinstance(n, ast.Assign) and isinstance(n.value, ast.Call):
                    for t in n.targets:
                        if (isinstance(t, ast.Attribute) and t.attr == attr and isinstance(t.value, ast.Name)
                                and t.value.id == sn and module_level_qualname(ci.module, n.value.func) in RNG_CONSTRUCTORS):
                            res = True
        self._attr_class[key] = res
        return res

    def methods_named(self, m):
        if self._methods is None:
            self._methods = {}
            for mod in self.program.modules.values():
                for ci in mod.classes.values():
                    for name, fi in ci.methods.items():
                        self._methods.setdefault(name, []).append(fi)
        return self._methods.get(m, [])

    def solve(self):
        for rnd in range(30):
            self.rounds = rnd + 1
            changed = False
            self._grew = False
            for fi in list(self.universe):
                res = FuncAnalyzer(self, fi).run()
                self.results[id(fi)] = res
                old = self.summaries.get(id(fi))
                if old is None or old.snapshot() != res.summary.snapshot():
                    changed = True
                self.summaries[id(fi)] = res.summary
            if not changed and not self._grew:
                return self
        raise AnalysisError("effects: interprocedural fixpoint not reached in 30 rounds")

    def result(self, fi) -> FuncResult:
        return self.results[id(fi)]


# ------------------------------------------------------------------------------------------------
# D3: RNG sites
# ------------------------------------------------------------------------------------------------
class RngSite:
    def __init__(self, kind, form, ok, why, node):
        self.kind, self.form, self.ok, self.why, self.node = kind, form, ok, why, node
        self.arg = None          # seed sites: the seed expression
        self.guarded = None      # seed sites: is the call executed only when the seed expression is not None?


# ---- "expression is not None here": forward must-analysis on the statement CFG (E2) ---------------------------
def _nn_key(e):
    """Key of a name / attribute chain (the only expressions facts are kept about)."""
    if isinstance(e, ast.Name):
        return e.id
    if isinstance(e, ast.Attribute):
        b = _nn_key(e.value)
        return None if b is None else b + "." + e.attr
    return None


def implied_not_none(test, truth):
    """Keys that are certainly not None when `test` evaluates to `truth`."""
    out = set()
    if isinstance(test, ast.UnaryOp) and isinstance(test.op, ast.Not):
        return implied_not_none(test.operand, not truth)
    if isinstance(test, ast.BoolOp):
        if isinstance(test.op, ast.And) and truth:
            for v in test.values:
                out |= implied_not_none(v, True)
        elif isinstance(test.op, ast.Or) and not truth:
            for v in test.values:
                out |= implied_not_none(v, False)
        return out
    if isinstance(test, ast.Compare) and len(test.ops) == 1:
        l, r, op = test.left, test.comparators[0], test.ops[0]
        for a, b in ((l, r), (r, l)):
            if _is_none(b) and _nn_key(a) is not None:
                if isinstance(op, (ast.IsNot, ast.NotEq)) and truth:
                    out.add(_nn_key(a))
                if isinstance(op, (ast.Is, ast.Eq)) and not truth:
                    out.add(_nn_key(a))
        return out
    if isinstance(test, ast.Call) and isinstance(test.func, ast.Name) and test.func.id == "isinstance" and test.args and truth:
        k = _nn_key(test.args[0])
        if k is not None and not any(_is_none(x) for x in ast.walk(test.args[1])) if len(test.args) > 1 else False:
            out.add(k)
        return out
    if truth and _nn_key(test) is not None:
        out.add(_nn_key(test))          # a truthy value is not None
    if isinstance(test, ast.NamedExpr):
        return implied_not_none(test.value, truth)
    return out


def _nn_close(facts):
    """Close a fact set under the recorded equalities ("=", a, b)."""
    facts = set(facts)
    changed = True
    while changed:
        changed = False
        for f in list(facts):
            if isinstance(f, tuple):
                _, a, b = f
                if a in facts and b not in facts:
                    facts.add(b)
                    changed = True
                if b in facts and a not in facts:
                    facts.add(a)
                    changed = True
    return facts


def _nn_kill(facts, key):
    def hit(k):
        return k == key or k.startswith(key + ".")
    return {f for f in facts if not (hit(f) if isinstance(f, str) else (hit(f[1]) or hit(f[2])))}


def _nn_transfer(stmt, facts):
    """Effect of executing a simple statement on the fact set."""
    if isinstance(stmt, (ast.Assign, ast.AnnAssign, ast.AugAssign)):
        tgts = stmt.targets if isinstance(stmt, ast.Assign) else [stmt.target]
        flat = []
        for t in tgts:
            flat += list(t.elts) if isinstance(t, (ast.Tuple, ast.List)) else [t]
        facts = set(facts)
        val = getattr(stmt, "value", None)
        vkey = _nn_key(val) if val is not None else None
        v_nn = val is not None and ((vkey is not None and vkey in _nn_close(facts)) or
                                    (isinstance(val, ast.Constant) and val.value is not None))
        for t in flat:
            k = _nn_key(t.value if isinstance(t, ast.Starred) else t)
            if k is not None:
                facts = _nn_kill(facts, k)
        if isinstance(stmt, ast.Assign) and len(tgts) == 1 and len(flat) == 1:
            k = _nn_key(flat[0])
            if k is not None:
                if v_nn:
                    facts.add(k)
                if vkey is not None and vkey != k:
                    facts.add(("=", k, vkey))
        return facts
    if isinstance(stmt, (ast.For, ast.AsyncFor)):
        facts = set(facts)
        for n in ast.walk(stmt.target):
            if isinstance(n, ast.Name):
                facts = _nn_kill(facts, n.id)
        return facts
    if isinstance(stmt, (ast.With, ast.AsyncWith)):
        facts = set(facts)
        for it in stmt.items:
            if it.optional_vars is not None:
                for n in ast.walk(it.optional_vars):
                    if isinstance(n, ast.Name):
                        facts = _nn_kill(facts, n.id)
        return facts
    if isinstance(stmt, ast.Delete):
        facts = set(facts)
        for t in stmt.targets:
            k = _nn_key(t)
            if k is not None:
                facts = _nn_kill(facts, k)
        return facts
    if isinstance(stmt, ast.Expr) or isinstance(stmt, ast.Return):
        # walrus targets inside the expression
        facts = set(facts)
        for n in ast.walk(stmt):
            if isinstance(n, ast.NamedExpr) and isinstance(n.target, ast.Name):
                facts = _nn_kill(facts, n.target.id)
        return facts
    return facts


class NotNone:
    """Which name / attribute expressions are certainly not None at each statement of a function."""

    def __init__(self, fi):
        from .cfg import cfg_of, ENTRY
        self.fi = fi
        self.g = g = cfg_of(fi)
        IN = {nid: None for nid in g.nodes}        # None = not reached yet (top)
        IN[ENTRY] = frozenset()
        work = [ENTRY]
        rounds = 0
        while work:
            rounds += 1
            if rounds > 20000:
                raise AnalysisError(f"{fi.where}: not-None analysis does not converge")
            nid = work.pop()
            node = g.nodes[nid]
            base = set(IN[nid])
            if node.stmt is not None and node.kind not in ("if", "loop", "assert", "try", "except"):
                base = _nn_transfer(node.stmt, base)
            elif node.kind == "loop":
                base = _nn_transfer(node.stmt, base) if isinstance(node.stmt, (ast.For, ast.AsyncFor)) else base
            elif node.kind == "except" and node.stmt is not None and getattr(node.stmt, "name", None):
                base = _nn_kill(base, node.stmt.name)
            for (t, lab) in g.successors(nid):
                out = set(base)
                test = None
                if node.kind in ("if", "assert") or (node.kind == "loop" and isinstance(node.stmt, ast.While)):
                    test = node.stmt.test
                if test is not None and lab in ("true", "false"):
                    # walrus inside the test re-binds before the branch
                    for n in ast.walk(test):
                        if isinstance(n, ast.NamedExpr) and isinstance(n.target, ast.Name):
                            out = _nn_kill(out, n.target.id)
                    out |= implied_not_none(test, lab == "true")
                out = frozenset(out)
                new = out if IN[t] is None else (IN[t] & out)
                if IN[t] is None or new != IN[t]:
                    IN[t] = new
                    work.append(t)
        self.IN = IN

    def _roots(self, node):
        s = node.stmt
        k = node.kind
        if s is None:
            return []
        if k in ("if", "assert"):
            return [s.test] + ([s.msg] if k == "assert" and s.msg is not None else [])
        if k == "loop":
            return [s.test] if isinstance(s, ast.While) else [s.iter]
        if k == "with":
            return [it.context_expr for it in s.items]
        if k in ("try", "except"):
            return [s.type] if k == "except" and s.type is not None else []
        if isinstance(s, (ast.FunctionDef, ast.AsyncFunctionDef, ast.ClassDef)):
            return list(s.decorator_list)
        return [s]

    def facts_at(self, target):
        """Fact set holding when the expression node `target` (somewhere in this function) is evaluated."""
        for node in self.g.stmt_nodes():
            for root in self._roots(node):
                if any(x is target for x in ast.walk(root)):
                    base = self.IN.get(node.id)
                    if base is None:
                        return None          # unreachable code
                    return _nn_close(self._ctx(root, target, set(base)))
        return set()

    def _ctx(self, e, target, facts):
        if e is target:
            return facts
        if isinstance(e, ast.BoolOp):
            cur = set(facts)
            for v in e.values:
                if any(x is target for x in ast.walk(v)):
                    return self._ctx(v, target, cur)
                cur |= implied_not_none(v, isinstance(e.op, ast.And))   # later operands run only if earlier were true / false
            return facts
        if isinstance(e, ast.IfExp):
            if any(x is target for x in ast.walk(e.test)):
                return self._ctx(e.test, target, facts)
            if any(x is target for x in ast.walk(e.body)):
                return self._ctx(e.body, target, facts | implied_not_none(e.test, True))
            return self._ctx(e.orelse, target, facts | implied_not_none(e.test, False))
        if isinstance(e, (ast.ListComp, ast.SetComp, ast.GeneratorExp, ast.DictComp)):
            cur = set(facts)
            for gnr in e.generators:
                if any(x is target for x in ast.walk(gnr.iter)):
                    return self._ctx(gnr.iter, target, cur)
                for c in gnr.ifs:
                    if any(x is target for x in ast.walk(c)):
                        return self._ctx(c, target, cur)
                    cur |= implied_not_none(c, True)
            for ch in ([e.key, e.value] if isinstance(e, ast.DictComp) else [e.elt]):
                if any(x is target for x in ast.walk(ch)):
                    return self._ctx(ch, target, cur)
            return facts
        for ch in ast.iter_child_nodes(e):
            if any(x is target for x in ast.walk(ch)):
                return self._ctx(ch, target, facts)
        return facts

    def holds(self, call, expr):
        """Is `expr` (a name / attribute chain) certainly not None whenever `call` is evaluated?"""
        k = _nn_key(expr)
        if k is None:
            return False
        f = self.facts_at(call)
        return f is None or k in f


def call_sites_of(engine, universe, target):
    """[(caller FuncInfo, Call node, bound?)] of the calls in `universe` that resolve to repository function `target`."""
    out = []
    for g in universe:
        rs = engine.resolver(g)
        for n in _own_nodes(g.node):
            if not isinstance(n, ast.Call):
                continue
            try:
                q = rs.qualify(n.func)
            except AnalysisError:
                continue
            if q[0] == "func" and q[1] is target:
                out.append((g, n, False))
            elif (q[0] == "method" and isinstance(q[1], ast.Name) and q[1].id == rs.self_name()
                  and rs.own_class() is not None and rs.own_class().methods.get(q[2]) is target):
                out.append((g, n, True))
    return out


def _in_constructor(fi):
    f = fi
    while f is not None:
        if f.cls is not None and f.name == "__init__":
            return True
        f = f.parent
    return False


def resolve_seed_helper(engine, universe, fi, site):
    """np.random.seed(x) in a function that is not a constructor: acceptable only in a helper whose every call site
    lies in a constructor and which runs the call only for a seed that is not None (guard in the helper, or at
    every call site).  -> (ok, why)"""
    arg = site.arg
    sites = call_sites_of(engine, universe, fi)
    if not sites:
        return False, "np.random.seed outside a constructor (function is not called from any constructor)"
    outside = [g for g, _n, _b in sites if not _in_constructor(g)]
    if outside:
        return False, f"np.random.seed outside a constructor (helper is also called from {outside[0].qualname})"
    if site.guarded:
        return True, "helper called only from constructors; seeds only under `<seed> is not None`"
    if not isinstance(arg, ast.Name) or arg.id not in fi.params():
        return False, "np.random.seed in a helper, seed expression is not guarded and is not the helper's parameter"
    a = fi.node.args
    pos = [x.arg for x in a.posonlyargs + a.args]
    for g, n, bound in sites:
        ex = None
        for kw in n.keywords:
            if kw.arg == arg.id:
                ex = kw.value
        if ex is None and arg.id in pos:
            i = pos.index(arg.id) - (1 if bound else 0)
            plain = [x for x in n.args if not isinstance(x, ast.Starred)]
            if 0 <= i < len(plain) and len(plain) == len(n.args):
                ex = plain[i]
        if ex is None or isinstance(ex, ast.Constant) or not NotNone(g).holds(n, ex):
            return False, (f"np.random.seed in a helper without a guard, and the call in {g.qualname} may pass None "
                           f"(not under `<seed> is not None`)")
    return True, "helper called only from constructors, each call under `<seed> is not None`"


def _own_nodes(fnode):
    """Nodes of a function body excluding nested function definitions (they are analysed on their own)."""
    stack = list(ast.iter_child_nodes(fnode))
    while stack:
        n = stack.pop()
        if isinstance(n, (ast.FunctionDef, ast.AsyncFunctionDef, ast.ClassDef)):
            continue
        yield n
        stack.extend(ast.iter_child_nodes(n))


def _parents(fnode):
    par = {}
    for n in ast.walk(fnode):
        for ch in ast.iter_child_nodes(n):
            par[ch] = n
    return par


def _param_defaults(fi):
    a = fi.node.args
    pos = a.posonlyargs + a.args
    d = {}
    for p, dv in zip(pos[len(pos) - len(a.defaults):], a.defaults):
        d[p.arg] = dv
    for p, dv in zip(a.kwonlyargs, a.kw_defaults):
        if dv is not None:
            d[p.arg] = dv
    return d


def _is_none(e):
    return isinstance(e, ast.Constant) and e.value is None


def seed_expr_status(fi, expr):
    """Is `expr`, used as the seed of default_rng / random_state, an argument or a constant that is never None?
    -> (ok, normalised form)"""
    params = set(fi.params())
    defaults = _param_defaults(fi)
    if isinstance(expr, ast.Constant):
        if expr.value is None:
            return False, "None"
        if isinstance(expr.value, (int,)) and not isinstance(expr.value, bool):
            return True, "constant"
        return False, "non-integer constant"
    names = [n for n in ast.walk(expr) if isinstance(n, ast.Name)]
    if not names or any(isinstance(n, (ast.Call, ast.Attribute)) for n in ast.walk(expr)):
        return False, "computed expression"
    assigned = _assigned_names(fi.node)
    for n in names:
        if n.id not in params and n.id not in assigned:
            # a module-level name bound only to integer constants is a constant seed
            vals = module_bindings(fi.module).get(n.id, [])
            if vals and all(isinstance(v, ast.Constant) and isinstance(v.value, int) and not isinstance(v.value, bool)
                            for v in vals) and not any(isinstance(g, ast.Global) and n.id in g.names
                                                       for f in fi.module.all_funcs for g in ast.walk(f.node)):
                continue
        if n.id not in params:
            return False, "local or global variable"
        if n.id in assigned:
            return False, "re-bound parameter"
        if n.id in defaults and _is_none(defaults[n.id]):
            return False, f"parameter defaulting to None"
    return True, "argument"


def rng_sites(program, fi: FuncInfo):
    """Every RNG-related call of a function, classified."""
    rs = Resolver(program, fi)
    par = _parents(fi.node)
    sites = []
    gen_names = {}     # local name -> list of value exprs assigned
    for n in _own_nodes(fi.node):
        if isinstance(n, ast.Assign):
            for t in n.targets:
                if isinstance(t, ast.Name):
                    gen_names.setdefault(t.id, []).append(n.value)
    params = set(fi.params())
    nonlocal_nn = [None]

    def enclosing_tests(node):
        out = []
        cur = node
        while cur in par:
            p = par[cur]
            if isinstance(p, ast.If) and cur in p.body:
                out.append(p.test)
            cur = p
        return out

    def is_default_rng_call(v):
        if isinstance(v, ast.Call):
            try:
                q = rs.qualify(v.func)
            except AnalysisError:
                return False
            return q[0] == "ext" and q[1] == "numpy.random.default_rng"
        return False

    for n in _own_nodes(fi.node):
        if not isinstance(n, ast.Call):
            continue
        try:
            q = rs.qualify(n.func)
        except AnalysisError:
            continue
        if q[0] == "ext":
            qn = q[1]
            if qn.startswith("numpy.random."):
                tail = qn[len("numpy.random."):]
                if tail in RNG_GLOBAL_DRAWS:
                    sites.append(RngSite("draw", f"np.random.{tail}", True, "global legacy generator", n))
                elif tail == "seed":
                    arg = n.args[0] if n.args else (n.keywords[0].value if n.keywords else None)
                    guarded = False
                    if arg is not None and not isinstance(arg, ast.Constant):
                        nonlocal_nn[0] = nonlocal_nn[0] or NotNone(fi)
                        guarded = nonlocal_nn[0].holds(n, arg)
                    if fi.name == "__init__" and fi.cls is not None:
                        ok = guarded
                        why = ("constructor, executed only when the seed is not None" if ok else
                               "np.random.seed in a constructor but not under `<seed> is not None`")
                    else:
                        ok, why = None, "np.random.seed outside a constructor"     # decided through the call sites
                    st_ = RngSite("seed", "np.random.seed", ok, why, n)
                    st_.arg, st_.guarded = arg, guarded
                    sites.append(st_)
                elif tail == "default_rng":
                    if not n.args and not n.keywords:
                        sites.append(RngSite("ctor", "np.random.default_rng() called without a seed", False,
                                             "unseeded Generator: not a function of the global seed", n))
                    else:
                        sx = n.args[0] if n.args else n.keywords[0].value
                        ok, form = seed_expr_status(fi, sx)
                        sites.append(RngSite("ctor", "np.random.default_rng(seed)" if ok else
                                             f"np.random.default_rng seeded by {form}", ok,
                                             "seeded by an argument / constant" if ok else
                                             "seed may be None or is not an argument / integer constant", n))
                else:
                    sites.append(RngSite("other", f"np.random.{tail}", False, "RNG source outside the allowed set", n))
            elif qn == "scipy.sparse.random" or qn == "scipy.sparse.rand" or qn == "scipy.sparse.random_array":
                kw = [k for k in n.keywords if k.arg in ("random_state", "rng")]
                if not kw:
                    sites.append(RngSite("draw", "sparse.random (global stream)", True, "global legacy generator", n))
                else:
                    ok, form = seed_expr_status(fi, kw[0].value)
                    sites.append(RngSite("draw", "sparse.random(random_state=seed)" if ok else
                                         f"sparse.random with random_state {form}", ok, form, n))
            elif qn.split(".")[0] in ("random", "secrets") or qn in ("os.urandom", "uuid.uuid4", "uuid.uuid1"):
                sites.append(RngSite("other", qn, False, "RNG source outside the allowed set", n))
        elif q[0] == "method" and q[2] in RNG_GENERATOR_DRAWS and isinstance(q[1], ast.Name):
            recv = q[1].id
            vals = gen_names.get(recv, [])
            from_ctor = [v for v in vals if is_default_rng_call(v)]
            shared = set()
            for nm in [recv] + [v.id for v in vals if isinstance(v, ast.Name)]:
                if nm == recv and (recv in params or vals):
                    continue
                try:
                    r_ = rs.resolve_root(nm)
                except AnalysisError:
                    r_ = None
                if r_ is not None and r_[0] == "data" and global_is_generator(program, r_[1]):
                    shared.add(r_[1].split(":")[-1])
            if shared:
                nm = sorted(shared)[0]
                sites.append(RngSite("gen-draw", f"Generator.{q[2]} on the module-level generator {nm!r}", False,
                                     f"module-level random generator {nm!r} is drawn from inside the function: the "
                                     f"stream is shared across calls (results depend on the call history)", n))
            elif from_ctor and len(from_ctor) == len(vals) and recv not in params:
                sites.append(RngSite("gen-draw", f"Generator.{q[2]} on a local default_rng", True,
                                     "generator constructed in this function (its seed is checked at the constructor)", n))
            elif recv in params and all(is_default_rng_call(v) for v in vals):
                sites.append(RngSite("gen-draw", f"Generator.{q[2]} on a parameter", True,
                                     "generator supplied by the caller (fallback constructors checked separately)", n))
            elif from_ctor:
                sites.append(RngSite("gen-draw", f"Generator.{q[2]} on a generator of mixed provenance", False,
                                     "receiver is not only a default_rng(...) result", n))
            # else: a method called normal/choice/... on something that is not a generator: not an RNG site
    return sites


def module_rng_sites(program, mod: ModuleInfo):
    """Generator constructors / seeding executed at import time: [(RngSite, bound name | None)]."""
    out = []
    names = {}
    for nm, vals in module_bindings(mod).items():
        for v in vals:
            names[id(v)] = nm
    for st in _module_level_statements(mod.tree):
        for n in ast.walk(st):
            if isinstance(n, (ast.FunctionDef, ast.AsyncFunctionDef, ast.ClassDef, ast.Lambda)):
                continue
            if not isinstance(n, ast.Call):
                continue
            qn = module_level_qualname(mod, n.func)
            if qn is None or not qn.startswith("numpy.random."):
                continue
            tail = qn[len("numpy.random."):]
            if tail == "default_rng":
                sx = n.args[0] if n.args else (n.keywords[0].value if n.keywords else None)
                ok = isinstance(sx, ast.Constant) and isinstance(sx.value, int) and not isinstance(sx.value, bool)
                out.append((RngSite("ctor", "module-level np.random.default_rng(constant)" if ok else
                                    "module-level np.random.default_rng without an integer constant seed", ok,
                                    "seeded by a constant at import time" if ok else
                                    "import-time generator whose stream is not a function of a constant", n), names.get(id(n))))
            elif tail == "seed":
                out.append((RngSite("seed", "module-level np.random.seed", False,
                                    "importing the module re-seeds the global generator", n), None))
            elif tail in RNG_GLOBAL_DRAWS:
                out.append((RngSite("draw", f"module-level np.random.{tail}", False,
                                    "importing the module advances the global generator", n), None))
            else:
                out.append((RngSite("other", f"module-level np.random.{tail}", False,
                                    "RNG source outside the allowed set", n), names.get(id(n))))
    return out


def _module_level_statements(tree):
    out = []

    def visit(stmts):
        for s_ in stmts:
            if isinstance(s_, (ast.FunctionDef, ast.AsyncFunctionDef, ast.ClassDef)):
                continue
            if isinstance(s_, (ast.If, ast.For, ast.While, ast.With, ast.Try)):
                for fld in ("body", "orelse", "finalbody"):
                    visit(getattr(s_, fld, []) or [])
                for h in getattr(s_, "handlers", []) or []:
                    visit(h.body)
                for fld in ("test", "iter"):
                    x = getattr(s_, fld, None)
                    if x is not None:
                        out.append(ast.Expr(value=x))
            else:
                out.append(s_)

    visit(tree.body)
    return out


# ------------------------------------------------------------------------------------------------
# D4: time taint (intra-procedural)
# ------------------------------------------------------------------------------------------------
TIMING_WORDS = ("time", "elapsed", "duration", "seconds", "wall", "cpu")
TAINT_REDUCERS = {"sum", "len", "min", "max", "float", "int", "round", "abs", "str", "sorted", "list", "tuple",
                  "format", "repr"}
TAINT_REDUCERS_EXT = {"numpy.mean", "numpy.sum", "numpy.median", "numpy.std", "numpy.array", "numpy.asarray",
                      "numpy.cumsum", "numpy.max", "numpy.min", "numpy.round", "numpy.diff", "numpy.float64",
                      "math.fsum", "statistics.mean", "statistics.median"}
APPENDERS = {"append", "extend", "insert"}


def is_timing_key(k):
    return isinstance(k, str) and any(w in k.lower() for w in TIMING_WORDS)


class TimeFinding:
    def __init__(self, construct, message, node):
        self.construct, self.message, self.node = construct, message, node


class TimeReport:
    def __init__(self):
        self.sources = []       # Call nodes
        self.tainted = set()
        self.uses = 0           # tainted uses examined
        self.findings = []


def time_taint(program, fi: FuncInfo) -> TimeReport:
    rs = Resolver(program, fi)
    rep = TimeReport()
    nodes = list(_own_nodes(fi.node))
    par = _parents(fi.node)

    def is_source(n):
        if isinstance(n, ast.Call):
            try:
                q = rs.qualify(n.func)
            except AnalysisError:
                return False
            return q[0] == "ext" and q[1] in TIME_SOURCES
        return False

    for n in nodes:
        if is_source(n):
            rep.sources.append(n)
    if not rep.sources:
        return rep
    tainted = set()

    def has_taint(e):
        for x in ast.walk(e):
            if isinstance(x, ast.Name) and x.id in tainted and isinstance(x.ctx, ast.Load):
                return True
            if is_source(x):
                return True
        return False

    def tnames(t):
        if isinstance(t, ast.Name):
            yield t.id
        elif isinstance(t, (ast.Tuple, ast.List)):
            for e in t.elts:
                yield from tnames(e)
        elif isinstance(t, ast.Starred):
            yield from tnames(t.value)

    # propagate to a fixpoint (flow-insensitive: a name that ever holds a time value is a time value)
    changed = True
    while changed:
        changed = False

        def add(nm):
            nonlocal changed
            if nm not in tainted:
                tainted.add(nm)
                changed = True
        for n in nodes:
            if isinstance(n, ast.Assign):
                if (len(n.targets) == 1 and isinstance(n.targets[0], (ast.Tuple, ast.List)) and
                        isinstance(n.value, (ast.Tuple, ast.List)) and len(n.value.elts) == len(n.targets[0].elts)):
                    for tg, v in zip(n.targets[0].elts, n.value.elts):
                        if has_taint(v):
                            for nm in tnames(tg):
                                add(nm)
                elif has_taint(n.value):
                    for tg in n.targets:
                        for nm in tnames(tg):
                            add(nm)
            elif isinstance(n, (ast.AugAssign, ast.AnnAssign)) and n.value is not None and has_taint(n.value):
                for nm in tnames(n.target):
                    add(nm)
            elif isinstance(n, ast.NamedExpr) and has_taint(n.value):
                for nm in tnames(n.target):
                    add(nm)
            elif isinstance(n, (ast.For, ast.comprehension)) and has_taint(n.iter):
                for nm in tnames(n.target):
                    add(nm)
            elif isinstance(n, ast.Call) and isinstance(n.func, ast.Attribute) and n.func.attr in APPENDERS:
                if any(has_taint(a) for a in n.args) and isinstance(n.func.value, ast.Name):
                    add(n.func.value.id)
    rep.tainted = set(tainted)

    def find(construct, message, node):
        rep.findings.append(TimeFinding(construct, message, node))

    def non_timing_operand(e):
        """Does the expression contain data that is not a time value (a non-tainted name, attribute or call)?"""
        if has_taint(e):
            # mixed inside?
            if isinstance(e, (ast.Name,)) or is_source(e):
                return False
            if isinstance(e, ast.BinOp):
                return non_timing_operand(e.left) or non_timing_operand(e.right)
            if isinstance(e, ast.UnaryOp):
                return non_timing_operand(e.operand)
            if isinstance(e, ast.Call):
                return False      # judged at the call itself
            if isinstance(e, ast.Subscript):
                return False
            return False
        for x in ast.walk(e):
            if isinstance(x, (ast.Name, ast.Attribute, ast.Call, ast.Subscript)):
                return True
        return False

    appends = {}    # container name -> [tainted?]
    for n in nodes:
        # a. control
        if isinstance(n, (ast.If, ast.While, ast.IfExp, ast.Assert)) and has_taint(n.test):
            rep.uses += 1
            find(f"time value in the condition of {type(n).__name__}",
                 "a clock reading decides control flow: the result depends on wall-clock time", n)
        if isinstance(n, ast.comprehension):
            for c in n.ifs:
                if has_taint(c):
                    rep.uses += 1
                    find("time value in the condition of a comprehension", "a clock reading decides control flow", n.iter)
        # b. subscript index
        if isinstance(n, ast.Subscript) and has_taint(n.slice):
            rep.uses += 1
            find("time value used as an index", "a clock reading selects data", n)
        # c. arithmetic mixing
        if isinstance(n, ast.BinOp) and has_taint(n):
            rep.uses += 1
            l, r = has_taint(n.left), has_taint(n.right)
            other = n.right if l and not r else (n.left if r and not l else None)
            if other is not None and non_timing_operand(other):
                find("time value combined with non-timing data",
                     "a clock reading enters a numerical expression", n)
        if isinstance(n, ast.Compare) and has_taint(n):
            rep.uses += 1
            parts = [n.left] + list(n.comparators)
            if any(not has_taint(p) and non_timing_operand(p) for p in parts):
                find("time value combined with non-timing data", "a clock reading is compared with computed data", n)
        # d. calls
        if isinstance(n, ast.Call) and not is_source(n):
            targs = [a for a in list(n.args) + [k.value for k in n.keywords] if has_taint(a)]
            if targs:
                rep.uses += 1
                ok = False
                callee = ast.unparse(n.func)
                if isinstance(n.func, ast.Name) and n.func.id in TAINT_REDUCERS | {"print"}:
                    ok = True
                elif isinstance(n.func, ast.Attribute) and n.func.attr in APPENDERS:
                    ok = True
                    root = n.func.value
                    if isinstance(root, ast.Name):
                        appends.setdefault(root.id, []).append(True)
                    elif (isinstance(root, ast.Subscript) and isinstance(root.slice, ast.Constant)
                          and is_timing_key(root.slice.value)):
                        pass
                    else:
                        ok = False
                        callee = f"{n.func.attr} on a non-timing container"
                elif isinstance(n.func, ast.Attribute) and n.func.attr in ("format", "join"):
                    ok = True
                else:
                    try:
                        q = rs.qualify(n.func)
                    except AnalysisError:
                        q = ("value", None)
                    if q[0] == "ext" and (q[1] in TAINT_REDUCERS_EXT or q[1].startswith(("logging.", "warnings."))):
                        ok = True
                    if q[0] == "ext":
                        callee = q[1].replace("numpy.", "np.")
                    elif q[0] == "func":
                        callee = q[1].qualname
                    elif q[0] == "class":
                        callee = q[1].name
                    elif q[0] == "method":
                        callee = f".{q[2]}()"
                if not ok:
                    find(f"time value passed to {callee}", "a clock reading is an operand of a computation", n)
            elif isinstance(n.func, ast.Attribute) and n.func.attr in APPENDERS and isinstance(n.func.value, ast.Name):
                appends.setdefault(n.func.value.id, []).append(False)
        # dict literals and keyed stores
        if isinstance(n, ast.Dict):
            for k, v in zip(n.keys, n.values):
                if v is not None and has_taint(v):
                    rep.uses += 1
                    if not (isinstance(k, ast.Constant) and is_timing_key(k.value)):
                        kk = repr(k.value) if isinstance(k, ast.Constant) else "a computed key"
                        find(f"time value stored under non-timing key {kk}",
                             "a clock reading is reported as a result field", n)
        if isinstance(n, (ast.Assign, ast.AugAssign, ast.AnnAssign)) and getattr(n, "value", None) is not None and has_taint(n.value):
            tgs = n.targets if isinstance(n, ast.Assign) else [n.target]
            for tg in tgs:
                for sub in ([tg] if not isinstance(tg, (ast.Tuple, ast.List)) else tg.elts):
                    if isinstance(sub, ast.Subscript):
                        rep.uses += 1
                        if not (isinstance(sub.slice, ast.Constant) and is_timing_key(sub.slice.value)):
                            kk = repr(sub.slice.value) if isinstance(sub.slice, ast.Constant) else "a computed index"
                            find(f"time value stored under non-timing key {kk}",
                                 "a clock reading is written into a result container", n)
                    elif isinstance(sub, ast.Attribute):
                        rep.uses += 1
                        if not is_timing_key(sub.attr):
                            find(f"time value stored in attribute .{sub.attr}", "a clock reading is stored on an object", n)
        # e. return
        if isinstance(n, ast.Return) and n.value is not None and has_taint(n.value):
            rep.uses += 1
            elts = n.value.elts if isinstance(n.value, ast.Tuple) else [n.value]
            for el in elts:
                if not has_taint(el):
                    continue
                if isinstance(el, ast.Name):
                    continue          # a timing field returned positionally
                if isinstance(el, ast.Dict):
                    continue          # keys judged above
                if all(x.id in tainted or _is_module_ref(x, rs) for x in ast.walk(el) if isinstance(x, ast.Name)):
                    continue          # pure timing expression (every name in it is a time value or a module / function)
                find("time value inside the returned result", "a clock reading flows into the returned value", n)
    for name, flags in appends.items():
        if any(flags) and not all(flags):
            rep.uses += 1
            # locate one tainted append for the report
            node = next(n for n in nodes if isinstance(n, ast.Call) and isinstance(n.func, ast.Attribute)
                        and n.func.attr in APPENDERS and isinstance(n.func.value, ast.Name) and n.func.value.id == name
                        and any(has_taint(a) for a in n.args))
            find("time value appended to a container that also receives non-timing values",
                 "clock readings are mixed into a result history", node)
    return rep


def _is_module_ref(x, rs):
    if isinstance(x, ast.Name):
        r = None
        try:
            r = rs.resolve_root(x.id)
        except AnalysisError:
            return False
        return r is not None and r[0] in ("ext", "module", "builtin", "func", "class")
    return False
