"""E1 - program model: parsed modules, function/class tables, import resolution.

Nothing from the repository is imported or executed: files are read and parsed with ast.
"""
from __future__ import annotations

import ast
import hashlib
import os

ANALYSED_DIRS = ["quatica"]
EXTRA_FILES = ["applications/image_deblurring/script_image_deblurring.py"]


class AnalysisError(Exception):
    """An anchor vanished or a construct is outside the analysable subset (exit 2)."""


class FuncInfo:
    def __init__(self, module, node, cls=None, parent=None):
        self.module = module          # ModuleInfo
        self.node = node              # ast.FunctionDef
        self.cls = cls                # ClassInfo or None
        self.parent = parent          # enclosing FuncInfo for nested defs
        self.name = node.name

    @property
    def qualname(self):
        if self.parent is not None:
            return f"{self.parent.qualname}.<locals>.{self.name}"
        if self.cls is not None:
            return f"{self.cls.name}.{self.name}"
        return self.name

    @property
    def where(self):
        return f"{self.module.relpath}::{self.qualname}"

    def loc(self, node=None):
        node = node or self.node
        return f"{self.module.relpath}:{getattr(node, 'lineno', '?')}"

    def params(self):
        a = self.node.args
        return [x.arg for x in a.posonlyargs + a.args] + ([a.vararg.arg] if a.vararg else []) + \
               [x.arg for x in a.kwonlyargs] + ([a.kwarg.arg] if a.kwarg else [])

    def __repr__(self):
        return f"<Func {self.where}>"


class ClassInfo:
    def __init__(self, module, node):
        self.module, self.node, self.name = module, node, node.name
        self.methods = {}

    def __repr__(self):
        return f"<Class {self.module.name}.{self.name}>"


class ModuleInfo:
    def __init__(self, name, relpath, path, text):
        self.name, self.relpath, self.path, self.text = name, relpath, path, text
        self.tree = ast.parse(text, filename=relpath)
        self.functions = {}   # top-level name -> FuncInfo
        self.classes = {}     # name -> ClassInfo
        self.imports = {}     # local name -> ('module', modname) | ('name', modname, attr)
        self.all_funcs = []   # every FuncInfo incl. methods and nested
        self.is_package = relpath.endswith("__init__.py")

    def __repr__(self):
        return f"<Module {self.name}>"


class Program:
    def __init__(self, root="/repo"):
        self.root = os.path.abspath(root)
        self.modules = {}
        self._load()

    # ------------------------------------------------------------------------------
    def _load(self):
        files = []
        for d in ANALYSED_DIRS:
            base = os.path.join(self.root, d)
            for dp, dn, fn in os.walk(base):
                dn[:] = [x for x in dn if x != "__pycache__"]
                for f in sorted(fn):
                    if f.endswith(".py"):
                        files.append(os.path.join(dp, f))
        for f in EXTRA_FILES:
            p = os.path.join(self.root, f)
            if os.path.exists(p):
                files.append(p)
        for path in sorted(files):
            rel = os.path.relpath(path, self.root)
            name = self._modname(rel)
            try:
                text = open(path, encoding="utf-8").read()
                mod = ModuleInfo(name, rel, path, text)
            except SyntaxError as e:
                raise AnalysisError(f"cannot parse {rel}: {e}")
            self.modules[name] = mod
            self._index(mod)
        for mod in self.modules.values():
            self._index_imports(mod)

    @staticmethod
    def _modname(rel):
        parts = rel[:-3].split(os.sep)
        if parts[0] == "quatica":
            parts = parts[1:]
        elif parts[0] == "applications":
            parts = ["app"] + parts[2:]
        if parts and parts[-1] == "__init__":
            parts = parts[:-1] or ["__pkg__"]
        return ".".join(parts)

    def _index(self, mod):
        def walk_func(node, cls, parent):
            fi = FuncInfo(mod, node, cls, parent)
            mod.all_funcs.append(fi)
            fi.nested = {}
            for sub in ast.walk(node):
                pass
            for sub in _direct_nested_defs(node):
                fi.nested[sub.name] = walk_func(sub, None, fi)
            return fi

        for node in mod.tree.body:
            if isinstance(node, (ast.FunctionDef, ast.AsyncFunctionDef)):
                mod.functions[node.name] = walk_func(node, None, None)
            elif isinstance(node, ast.ClassDef):
                ci = ClassInfo(mod, node)
                mod.classes[node.name] = ci
                for sub in node.body:
                    if isinstance(sub, (ast.FunctionDef, ast.AsyncFunctionDef)):
                        ci.methods[sub.name] = walk_func(sub, ci, None)

    def resolve_module(self, importer: ModuleInfo, modname: str, level: int):
        """Map an import spelling to a ModuleInfo of the analysed tree or None (external)."""
        cands = []
        name = modname or ""
        if name.startswith("quatica."):
            name = name[len("quatica."):]
        elif name == "quatica":
            name = "__pkg__"
        pkg = importer.name if importer.is_package else importer.name.rpartition(".")[0]
        if importer.name == "__pkg__":
            pkg = ""
        if level:
            base = pkg.split(".") if pkg else []
            if level > 1:
                base = base[: len(base) - (level - 1)]
            cands.append(".".join(base + ([name] if name else [])))
        else:
            cands.append(name)
            if pkg:
                cands.append(pkg + "." + name)   # flat import after sys.path.append(dirname)
        for c in cands:
            c = c or "__pkg__"
            if c in self.modules:
                return self.modules[c]
        return None

    def _index_imports(self, mod):
        for node in ast.walk(mod.tree):
            if isinstance(node, ast.ImportFrom):
                target = self.resolve_module(mod, node.module, node.level)
                for al in node.names:
                    local = al.asname or al.name
                    if target is not None:
                        mod.imports.setdefault(local, ("name", target.name, al.name))
                    else:
                        mod.imports.setdefault(local, ("ext", (node.module or ""), al.name))
            elif isinstance(node, ast.Import):
                for al in node.names:
                    local = al.asname or al.name.split(".")[0]
                    target = self.resolve_module(mod, al.name, 0)
                    if target is not None:
                        mod.imports.setdefault(local, ("module", target.name))
                    else:
                        mod.imports.setdefault(local, ("extmod", al.name if al.asname else al.name.split(".")[0]))

    # ------------------------------------------------------------------------------
    def module(self, name) -> ModuleInfo:
        if name not in self.modules:
            raise AnalysisError(f"anchor vanished: module {name}")
        return self.modules[name]

    def func(self, modname, qual) -> FuncInfo:
        mod = self.module(modname)
        parts = qual.split(".")
        cur = None
        if parts[0] in mod.classes and len(parts) >= 2:
            cur = mod.classes[parts[0]].methods.get(parts[1])
            rest = parts[2:]
        else:
            cur = mod.functions.get(parts[0])
            rest = parts[1:]
        for p in rest:
            if cur is None:
                break
            cur = cur.nested.get(p)
        if cur is None:
            raise AnalysisError(f"anchor vanished: function {modname}:{qual}")
        return cur

    def cls(self, modname, name) -> ClassInfo:
        mod = self.module(modname)
        if name not in mod.classes:
            raise AnalysisError(f"anchor vanished: class {modname}:{name}")
        return mod.classes[name]

    def lookup_export(self, modname, attr, _seen=None):
        """Resolve `from modname import attr` through re-exports. Returns FuncInfo |
        ClassInfo | ModuleInfo | None."""
        _seen = _seen or set()
        if (modname, attr) in _seen or modname not in self.modules:
            return None
        _seen.add((modname, attr))
        mod = self.modules[modname]
        if attr in mod.functions:
            return mod.functions[attr]
        if attr in mod.classes:
            return mod.classes[attr]
        imp = mod.imports.get(attr)
        if imp:
            if imp[0] == "name":
                return self.lookup_export(imp[1], imp[2], _seen)
            if imp[0] == "module":
                return self.modules[imp[1]]
        sub = (modname + "." + attr) if modname != "__pkg__" else attr
        if sub in self.modules:
            return self.modules[sub]
        # star imports
        for node in mod.tree.body:
            if isinstance(node, ast.ImportFrom) and any(a.name == "*" for a in node.names):
                t = self.resolve_module(mod, node.module, node.level)
                if t is not None:
                    r = self.lookup_export(t.name, attr, _seen)
                    if r is not None:
                        return r
        return None

    def digest(self):
        h = hashlib.sha256()
        for name in sorted(self.modules):
            h.update(name.encode())
            h.update(self.modules[name].text.encode())
        return h.hexdigest()[:16]


def _direct_nested_defs(fnode):
    """FunctionDefs nested in fnode, not inside deeper functions/classes."""
    out = []

    def visit(n):
        for ch in ast.iter_child_nodes(n):
            if isinstance(ch, (ast.FunctionDef, ast.AsyncFunctionDef)):
                out.append(ch)
            elif isinstance(ch, (ast.ClassDef, ast.Lambda)):
                continue
            else:
                visit(ch)

    visit(fnode)
    return out


def norm_src(node):
    """Normalised source of a node (for keys / reports): ast.unparse, no positions."""
    try:
        return ast.unparse(node)
    except Exception:
        return ast.dump(node)
