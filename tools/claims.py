"""Table of claimed properties (source of MANIFEST.json).  Keep in sync with rules/."""
NOTE = ("Static decision of structural necessary conditions only; numerical behaviour (rounding, convergence, accuracy) "
        "is not verified. Trusted base: python ast reflects the code that runs; the library model of numpy / scipy / "
        "numpy-quaternion (numpy's own indexing semantics are used for data movement); exact arithmetic for identities.")

CLAIMS = {
    "C01": {
        "text": "Decides statically that every product kernel (4 dense/sparse dispatch configurations of quat_matmat and the "
                "component-form kernel incl. scalar branches) is, entry by entry and as a polynomial identity in generic "
                "symbolic entries, the Hamilton-product definition; that both conjugate transposes are the definition, an "
                "involution and reverse products; that both Frobenius branches are sqrt(sum of squared components). "
                "Bounded over a shape box, generic over values. 'To rounding' agreement and norm inequalities are not decided.",
        "note": NOTE,
        "technique": "abstract interpretation of the AST over arrays of symbolic quaternions; normal-form polynomial equality "
                     "against an oracle generated from i^2=j^2=k^2=ijk=-1",
    },
}

_PENDING = "check not built yet in this session (design in DESIGN.md section 4); not claimed until its rule module exists"
NOT_APPLICABLE = {f"C{i:02d}": _PENDING for i in range(1, 21) if f"C{i:02d}" not in CLAIMS}
