"""E6 - guards and argument-class truth tables.

The guard prefix of an entry point is *interpreted* (qstatic.interp, never imported or run) over
ABSTRACT ARGUMENT DESCRIPTORS:

    ArrDesc   an ndarray: kind in {quat, real, complex, bool}, concrete small shape, a Hermitian
              flag, an optional value class (all-zero / generic non-zero), the name of the
              argument it is (a view of) - `owner` - and its relation to the descriptor it was
              derived from by conjugation / transposition (so `np.allclose(A, quat_hermitian(A))`
              is the descriptor's Hermitian flag however the adjoint is spelled)
    Instance  a SparseQuaternionMatrix / solver object (attributes are descriptors)
    python    option values (strings, ints, None), lists, tuples
    Unk       anything numeric: absorbing, every comparison on it is UNKNOWN

Conditions that are UNKNOWN are never guessed: interpretation stops there (`stop`).  The outcome
of one run is  raise (explicit `raise`/`assert` node, possibly in a resolved callee) | implicit
(python/numpy would raise by itself: unpack of a 3-D shape, attribute of a list ...) | return |
stop, together with every branch test that was decided, and every effect (store through an
argument or through self) executed before.  The CFG (qstatic.cfg) then answers, in the graph
pruned by the decided tests, whether an effect or a normal return is reachable without passing
the guard statement.
"""
from __future__ import annotations

import ast
import operator

import numpy as _np   # used only to compute result *shapes* of indexing / broadcasting on tiny boolean arrays

from .alg import UNKNOWN, UnknownTruth, is_unknown
from .cfg import ENTRY, RETURN, cfg_of
from .domain import BaseDomain, Opaque, TypeModel
from .interp import (ClassRef, ExcClass, ExcValue, FuncRef, Instance, Interp, ModelError, ModuleRef, NeedChoice,
                     RepoRaise, Unsupported)
from .src import AnalysisError, FuncInfo

# ======================================================================================
# descriptor values
# ======================================================================================

KIND_RANK = {"bool": 0, "real": 1, "complex": 2, "quat": 3}
TYPE_KIND = {"quaternion": "quat", "float64": "real", "float32": "real", "float": "real", "floating": "real",
             "double": "real", "complex": "complex", "complex128": "complex", "complex64": "complex",
             "complexfloating": "complex", "bool": "bool", "bool_": "bool", "int": "int", "int64": "int",
             "int32": "int", "integer": "int"}


class Unk(Opaque):
    """Unknown numeric value / unknown library object.  Calling it, indexing it or taking an
    attribute gives Unk again; comparisons are UNKNOWN; iteration is not possible."""

    created = 0          # number of unknown values produced so far (a measure of "numeric work has begun")

    def __init__(self, why="opaque"):
        super().__init__(why)
        Unk.created += 1

    def __call__(self, *a, **k):
        return Unk(self.why)

    def __repr__(self):
        return f"Unk({self.why})"

    __hash__ = Opaque.__hash__


class Pos(Unk):
    """A real scalar known to be strictly positive (norm of an array with generic non-zero entries), with a decimal order
    of magnitude: generic entries are O(1) (scale 0); multiplying by 1e-10 gives scale -10.  Two positive quantities
    whose scales differ by at least 3 decades are ordered "by a margin"; closer ones are not compared."""

    def __init__(self, why="positive", scale=0.0):
        super().__init__(why)
        self.scale = scale

    def __call__(self, *a, **k):
        return Unk(self.why)


def _pos_scale(x):
    import math
    if isinstance(x, Pos):
        return x.scale
    if isinstance(x, (int, float)) and not isinstance(x, bool) and x > 0 and x == x and x != float("inf"):
        return math.log10(x)
    return None


def pos_arith(op, a, b):
    """Arithmetic on strictly positive quantities (None: result not known to be positive)."""
    sa, sb = _pos_scale(a), _pos_scale(b)
    if op is operator.pow and isinstance(a, Pos) and isinstance(b, (int, float)) and not isinstance(b, bool):
        return Pos("power", a.scale * b)
    if sa is None or sb is None:
        if op is operator.add:
            for p, o in ((a, b), (b, a)):
                if isinstance(p, Pos) and isinstance(o, (int, float)) and not isinstance(o, bool) and o == 0:
                    return Pos("sum", p.scale)
        if op is operator.mul and (a == 0 or b == 0) and not isinstance(a, Unk) or \
                (op is operator.mul and not isinstance(b, Unk) and b == 0):
            return 0.0
        return None
    if op is operator.mul:
        return Pos("product", sa + sb)
    if op is operator.truediv:
        return Pos("quotient", sa - sb)
    if op is operator.add:
        return Pos("sum", max(sa, sb))
    return None


def pos_compare(op, a, b):
    """Order of two strictly positive quantities when their magnitudes differ by a margin (>= 3 decades); else None."""
    sa, sb = _pos_scale(a), _pos_scale(b)
    if sa is None or sb is None or abs(sa - sb) < 3:
        return None
    return op(1, 0) if sa > sb else op(0, 1)


class DType:
    def __init__(self, kind):
        self.kind = kind

    def __repr__(self):
        return f"dtype({self.kind})"


class ArrDesc:
    """Abstract ndarray."""

    def __init__(self, kind, shape, herm=None, val=None, owner=None, base=None, conj=False, tr=False, name=None,
                 herm_off=None, diag_real=None, sel=None):
        self.kind, self.shape = kind, tuple(int(x) for x in shape)
        self.herm, self.val, self.owner = herm, val, owner
        # finer Hermitian structure of a root descriptor: off-diagonal pairs conjugate-symmetric / diagonal real.
        # herm=True means both; herm=False without further flags means generic entries (neither, by a margin);
        # herm=False, herm_off=True, diag_real=False is "Hermitian off the diagonal, non-real diagonal".
        self.herm_off = herm if herm_off is None else herm_off
        self.diag_real = herm if diag_real is None else diag_real
        self.base, self.conj, self.tr = base, conj, tr    # relation to the descriptor it is derived from
        self.sel = sel            # None | ('triu'|'tril'|'diag', k): restriction to an index subset of a square matrix
        self.name = name

    @property
    def generic(self):
        return self.herm is False and self.herm_off is False and self.diag_real is False

    @property
    def ndim(self):
        return len(self.shape)

    @property
    def size(self):
        n = 1
        for s in self.shape:
            n *= s
        return n

    def root(self):
        return self.base if self.base is not None else self

    def derived(self, conj=False, tr=False, fresh=True, sel=None, shape=None):
        if shape is None:
            shape = tuple(reversed(self.shape)) if tr else self.shape
        new_sel = self.sel if sel is None else sel
        if sel is not None and self.sel is not None:
            new_sel = ("other", 0)           # subset of a subset: not tracked
        if tr and sel is None and self.sel is not None and len(self.shape) >= 2:
            k, kk = self.sel
            new_sel = {"triu": ("tril", -kk), "tril": ("triu", -kk)}.get(k, (k, kk))
        return ArrDesc(self.kind, shape, herm=self.herm, val=self.val, owner=None if fresh else self.owner,
                       base=self.root(), conj=self.conj ^ conj, tr=self.tr ^ tr, herm_off=self.herm_off,
                       diag_real=self.diag_real, sel=new_sel)

    def fresh(self, kind=None, shape=None, val=None):
        return ArrDesc(kind or self.kind, self.shape if shape is None else shape, val=val)

    def view(self, shape, kind=None):
        return ArrDesc(kind or self.kind, shape, owner=self.owner, val=self.val)

    def __repr__(self):
        extra = ""
        if self.herm is not None:
            extra += " herm" if self.herm else (" non-herm" if self.generic else " herm-offdiag/non-real-diag")
        if self.owner:
            extra += f" arg:{self.owner}"
        return f"<{self.kind} ndarray {self.shape}{extra}>"


class IndexSet:
    """Result of np.triu_indices / np.tril_indices / np.diag_indices for an n x n matrix."""

    def __init__(self, kind, k, n):
        self.kind, self.k, self.n = kind, k, n

    def count(self):
        if self.kind == "triu":
            return len(_np.triu_indices(self.n, self.k)[0])
        if self.kind == "tril":
            return len(_np.tril_indices(self.n, self.k)[0])
        return self.n


def _bshape(a, b):
    try:
        return tuple(_np.broadcast_shapes(tuple(a), tuple(b)))
    except ValueError:
        raise ModelError(f"operands could not be broadcast together with shapes {a} {b}")


def _is_concrete_index(idx):
    items = idx if isinstance(idx, tuple) else (idx,)
    for it in items:
        if it is None or it is Ellipsis or (isinstance(it, int) and not isinstance(it, bool)):
            continue
        if isinstance(it, slice):
            if all(x is None or (isinstance(x, int) and not isinstance(x, bool)) for x in (it.start, it.stop, it.step)):
                continue
            return False
        if isinstance(it, list) and all(isinstance(x, int) for x in it):
            continue
        return False
    return True


# ======================================================================================
# library models
# ======================================================================================

class OpaqueModule:
    """An external module about which nothing is modelled: every attribute is an Unk callable."""

    def __init__(self, name):
        self.name = name


class TableModule:
    def __init__(self, name, table, default_unknown=True):
        self.name, self.table, self.default_unknown = name, table, default_unknown


NDARRAY_ATTRS = {"shape", "ndim", "dtype", "size", "T", "real", "imag", "copy", "conj", "conjugate", "transpose",
                 "reshape", "astype", "flatten", "ravel", "fill", "sort", "sum", "max", "min", "mean", "dot",
                 "tolist", "item", "view", "squeeze", "any", "all", "flat", "itemsize", "nbytes", "strides"}
NOT_NDARRAY_ATTRS = {"i", "j", "k", "toarray", "tocsr", "tocoo", "nnz", "todense", "w", "x", "y", "z", "vec",
                     "lower", "upper", "keys", "items", "append"}


class DescDomain(BaseDomain):
    def __init__(self):
        super().__init__()
        self.np = self._make_np()
        self.quat = self._make_quaternion()
        self.builtins["len"] = self.b_len
        self.builtins["hasattr"] = self.b_hasattr
        self.builtins["isinstance"] = self.b_isinstance
        self.builtins["float"] = TypeModel("float", lambda v: isinstance(v, float), self.b_float)
        self.builtins["int"] = TypeModel("int", lambda v: isinstance(v, int) and not isinstance(v, bool), self.b_int)
        self.builtins["complex"] = TypeModel("complex", lambda v: isinstance(v, complex), self.b_complex)
        self.builtins["type"] = lambda v: Unk("type()")
        self.builtins["callable"] = lambda v: Unk("callable()")

    # ---------------------------------------------------------------- modules
    def ext_module(self, name):
        root = (name or "").split(".")[0]
        if name in ("numpy", "np"):
            return self.np
        if name == "quaternion":
            return self.quat
        if root in ("numpy",):
            return OpaqueModule(name)
        return OpaqueModule(name or "?")

    def _type(self, name, pred=None, conv=None):
        return TypeModel(name, pred or (lambda v: False), conv or (lambda *a, **k: Unk(name)))

    def _make_np(self):
        A = ArrDesc
        t = {}
        t["ndarray"] = self._type("ndarray", lambda v: isinstance(v, ArrDesc))
        t["quaternion"] = self._type("quaternion")
        for n in ("float64", "float32", "floating", "double"):
            t[n] = self._type(n, lambda v: False)
        for n in ("int64", "int32", "integer", "complex128", "complex64", "complexfloating", "bool_", "number",
                  "generic"):
            t[n] = self._type(n, lambda v: False)
        t["inf"] = float("inf")
        t["pi"] = 3.141592653589793
        t["e"] = 2.718281828459045
        t["nan"] = float("nan")
        t["newaxis"] = None

        def kind_of(dtype, default="real"):
            if dtype is None:
                return default
            if isinstance(dtype, TypeModel):
                return TYPE_KIND.get(dtype.name, default) if TYPE_KIND.get(dtype.name) != "int" else "real"
            if isinstance(dtype, DType):
                return dtype.kind
            return default

        def shape_of(s):
            if isinstance(s, int) and not isinstance(s, bool):
                return (s,)
            if isinstance(s, (tuple, list)) and all(isinstance(x, int) and not isinstance(x, bool) for x in s):
                return tuple(s)
            return None

        def alloc(val):
            def f(shape, *a, dtype=None, **k):
                sh = shape_of(shape)
                if sh is None:
                    return Unk("np.alloc")
                if a and dtype is None and isinstance(a[-1], (TypeModel, DType)):
                    dtype = a[-1]
                return A(kind_of(dtype), sh, val=val)
            return f

        t["zeros"] = alloc("zero")
        t["empty"] = alloc(None)
        t["ones"] = alloc("nonzero")

        def full(shape, fill_value=None, dtype=None, **k):
            sh = shape_of(shape)
            return A(kind_of(dtype), sh) if sh is not None else Unk("np.full")
        t["full"] = full

        def eye(n, m=None, k=0, dtype=None, **kw):
            if isinstance(n, int) and (m is None or isinstance(m, int)):
                return A(kind_of(dtype), (n, n if m is None else m))
            return Unk("np.eye")
        t["eye"] = t["identity"] = eye

        def like(val):
            def f(a, dtype=None, **k):
                if isinstance(a, ArrDesc):
                    return A(kind_of(dtype, a.kind), a.shape, val=val)
                return Unk("np.*_like")
            return f
        t["zeros_like"] = like("zero")
        t["empty_like"] = like(None)
        t["ones_like"] = like("nonzero")
        t["full_like"] = lambda a, fill_value=None, dtype=None, **k: like(None)(a, dtype)

        def conj(a, *x, **k):
            if isinstance(a, ArrDesc):
                return a.derived(conj=True)
            return Unk("np.conjugate")
        t["conjugate"] = t["conj"] = conj

        def transpose(a, axes=None):
            if isinstance(a, ArrDesc):
                if axes is None or tuple(axes) == tuple(reversed(range(a.ndim))):
                    return a.derived(tr=(a.ndim >= 2), fresh=False)
                if isinstance(axes, (tuple, list)) and sorted(axes) == list(range(a.ndim)):
                    return a.view(tuple(a.shape[i] for i in axes))
                raise ModelError("axes don't match array")
            return Unk("np.transpose")
        t["transpose"] = transpose

        def asarray(a, dtype=None, **k):
            if isinstance(a, ArrDesc) and dtype is None:
                return a
            if isinstance(a, ArrDesc):
                return a.fresh(kind=kind_of(dtype, a.kind))
            return Unk("np.asarray")
        t["asarray"] = t["asanyarray"] = t["ascontiguousarray"] = asarray

        def array(a, dtype=None, **k):
            if isinstance(a, ArrDesc):
                d = a.derived()
                d.kind = kind_of(dtype, a.kind)
                return d
            return Unk("np.array")
        t["array"] = t["copy"] = array

        def real(a):
            if isinstance(a, ArrDesc):
                return A("real", a.shape, owner=a.owner if a.kind != "quat" else None,
                         val="zero" if a.val == "zero" else None)
            return Unk("np.real")

        def imag(a):
            if isinstance(a, ArrDesc):
                if a.kind in ("real", "bool"):
                    return A("real", a.shape, val="zero")
                # generic complex / quaternion entries have non-zero imaginary parts ("by a margin")
                return A("real", a.shape, owner=a.owner if a.kind == "complex" else None,
                         val="zero" if a.val == "zero" else "nonzero")
            return Unk("np.imag")
        t["real"], t["imag"] = real, imag

        def any_(a, *x, **k):
            if isinstance(a, ArrDesc) and a.kind == "bool" and a.val in ("true", "false") and not x and not k:
                return a.val == "true" and a.size > 0
            if isinstance(a, ArrDesc) and a.val in ("zero", "nonzero", "pos", "somenz", "somepos") and not x and not k:
                return a.val != "zero" and a.size > 0
            if isinstance(a, bool):
                return a
            return Unk("np.any")

        def all_(a, *x, **k):
            if isinstance(a, ArrDesc) and a.kind == "bool" and a.val in ("true", "false") and not x and not k:
                return a.val == "true" or a.size == 0
            if isinstance(a, ArrDesc) and a.val in ("zero", "nonzero", "pos") and not x and not k:
                return a.val != "zero" or a.size == 0
            if isinstance(a, bool):
                return a
            return Unk("np.all")
        t["any"], t["all"] = any_, all_

        def allclose(a, b, *x, **k):
            for p, other in ((a, b), (b, a)):
                if isinstance(p, Pos) and isinstance(other, (int, float)) and not isinstance(other, bool) and other <= 0:
                    return False            # a strictly positive quantity (norm of generic entries) is away from 0 by a margin
            for arr, other in ((a, b), (b, a)):
                if isinstance(arr, ArrDesc) and isinstance(other, (int, float)) and not isinstance(other, bool):
                    if arr.val == "zero":
                        return other == 0 or Unk("np.allclose")
                    if arr.val in ("nonzero", "pos") and other == 0 and arr.size > 0:
                        return False        # generic non-zero entries: away from zero by a margin
                    return Unk("np.allclose")
            if all(isinstance(v, (int, float)) and not isinstance(v, bool) for v in (a, b)):
                return bool(_np.allclose(a, b, *[v for v in x if isinstance(v, (int, float))],
                                         **{kk: vv for kk, vv in k.items() if isinstance(vv, (int, float))}))
            return self.same_array(a, b)

        def isclose(a, b, *x, **k):
            if all(isinstance(v, (int, float)) and not isinstance(v, bool) for v in (a, b)):
                return bool(_np.isclose(a, b, *[v for v in x if isinstance(v, (int, float))],
                                        **{kk: vv for kk, vv in k.items() if isinstance(vv, (int, float))}))
            r = allclose(a, b)
            if isinstance(r, bool) and isinstance(a if isinstance(a, ArrDesc) else b, ArrDesc):
                arr = a if isinstance(a, ArrDesc) else b
                return A("bool", arr.shape, val="true" if r else "false")
            if isinstance(r, bool) and not isinstance(a, ArrDesc) and not isinstance(b, ArrDesc):
                return r                    # two scalars
            return Unk("np.isclose")
        t["isclose"] = isclose

        def count_nonzero(a, *x, **k):
            if isinstance(a, ArrDesc) and not x and not k:
                if a.val in ("zero", "false"):
                    return 0
                if a.val in ("nonzero", "pos", "true"):
                    return a.size
            return Unk("np.count_nonzero")
        t["count_nonzero"] = count_nonzero

        def reduce_(name):
            def f(a, *x, **k):
                if isinstance(a, ArrDesc) and not x and not k and a.size > 0:
                    if a.val == "zero":
                        return 0.0
                    if a.val == "pos" or (a.val == "somepos" and name in ("sum", "max", "amax", "mean", "nansum")):
                        return Pos(f"{name} of non-negative entries, at least one positive")
                return Unk(f"np.{name}")
            return f
        for n in ("sum", "max", "min", "mean", "amax", "amin", "nansum"):
            t[n] = reduce_(n)

        def iscomplexobj(a):
            if isinstance(a, ArrDesc):
                return a.kind == "complex"
            if isinstance(a, (int, float, bool)):
                return False
            if isinstance(a, complex):
                return True
            return Unk("np.iscomplexobj")
        t["iscomplexobj"] = iscomplexobj

        def isrealobj(a):
            r = iscomplexobj(a)
            return (not r) if isinstance(r, bool) else Unk("np.isrealobj")
        t["isrealobj"] = isrealobj

        def isreal(a):
            if isinstance(a, ArrDesc):
                if a.kind in ("real", "bool") or a.val == "zero":
                    return A("bool", a.shape, val="true")
                if a.kind == "complex" and a.val in ("nonzero", "pos"):
                    return A("bool", a.shape, val="false")      # generic complex entries: non-zero imaginary parts
            return Unk("np.isreal")
        t["isreal"] = isreal

        def issubdtype(d, tp):
            kd = self._dtype_kind(d)
            name = tp.name if isinstance(tp, TypeModel) else None
            if kd in KIND_RANK and name:
                if name in ("floating", "float64", "float", "double"):
                    return kd == "real"
                if name in ("complexfloating", "complex128", "complex"):
                    return kd == "complex"
                if name == "quaternion":
                    return kd == "quat"
                if name in ("number", "generic"):
                    return kd != "quat" if name == "number" else True
                if name in ("integer", "int64", "int32", "bool_"):
                    return kd == "bool" if name == "bool_" else False
            return Unk("np.issubdtype")
        t["issubdtype"] = issubdtype
        t["allclose"] = t["array_equal"] = t["array_equiv"] = allclose

        def isscalar(x):
            if isinstance(x, (int, float, complex, str, bool)):
                return True
            if isinstance(x, (ArrDesc, list, tuple, dict, Instance)) or x is None:
                return False
            return Unk("np.isscalar")
        t["isscalar"] = isscalar
        t["shape"] = lambda a: a.shape if isinstance(a, ArrDesc) else Unk("np.shape")
        t["ndim"] = lambda a: a.ndim if isinstance(a, ArrDesc) else Unk("np.ndim")
        t["size"] = lambda a, *x: a.size if isinstance(a, ArrDesc) and not x else Unk("np.size")

        def elementwise(kind=None, valmap=None, fname=None):
            def f(a, *x, **k):
                if "out" in k and isinstance(k["out"], ArrDesc) and k["out"].owner:
                    self._interp.note_effect(f"out= store into argument {k['out'].owner}")
                if isinstance(a, ArrDesc):
                    return a.fresh(kind=kind or a.kind, val=valmap.get(a.val) if valmap else None)
                if isinstance(a, Pos) and valmap and valmap.get("pos") == "pos":
                    return Pos("positive", a.scale * (0.5 if fname == "sqrt" else 2.0 if fname == "square" else 1.0))
                if fname in ("sqrt", "abs", "square") and isinstance(a, (int, float)) and not isinstance(a, bool):
                    if fname == "sqrt" and a >= 0:
                        return float(a) ** 0.5
                    if fname == "abs":
                        return abs(a)
                    if fname == "square":
                        return a * a
                return Unk("np.elementwise")
            return f
        for n in ("exp", "log", "floor", "ceil", "round", "clip", "nan_to_num"):
            t[n] = elementwise()
        t["sqrt"] = elementwise(valmap={"zero": "zero", "pos": "pos", "somepos": "somepos"}, fname="sqrt")
        t["square"] = elementwise(valmap={"zero": "zero", "pos": "pos", "nonzero": "pos", "somenz": "somepos",
                                          "somepos": "somepos"}, fname="square")
        t["negative"] = elementwise(valmap={"zero": "zero", "nonzero": "nonzero", "pos": "nonzero"})
        t["sign"] = elementwise(valmap={"zero": "zero", "nonzero": "nonzero", "pos": "pos"})
        t["abs"] = t["absolute"] = t["fabs"] = elementwise("real", valmap={"zero": "zero", "nonzero": "pos", "pos": "pos", "somenz": "somepos", "somepos": "somepos"},
                                                              fname="abs")

        def fill_diagonal(a, v, **k):
            if isinstance(a, ArrDesc) and a.owner:
                self._interp.note_effect(f"np.fill_diagonal on argument {a.owner}")
            return None
        t["fill_diagonal"] = fill_diagonal

        def copyto(dst, src, **k):
            if isinstance(dst, ArrDesc) and dst.owner:
                self._interp.note_effect(f"np.copyto into argument {dst.owner}")
            return None
        t["copyto"] = copyto
        def tri_indices(kind):
            def f(n, k=0, m=None):
                if isinstance(n, int) and not isinstance(n, bool) and isinstance(k, int) and m in (None, n):
                    return IndexSet(kind, k, n)
                return Unk(f"np.{kind}_indices")
            return f
        t["triu_indices"], t["tril_indices"] = tri_indices("triu"), tri_indices("tril")
        t["diag_indices"] = lambda n, ndim=2: IndexSet("diag", 0, n) if isinstance(n, int) and ndim == 2 else Unk("np.diag_indices")

        def tri_mask(kind):
            def f(a, k=0):
                if isinstance(a, ArrDesc) and a.ndim == 2 and isinstance(k, int):
                    return a.derived(sel=(kind, k))
                return Unk(f"np.{kind}")
            return f
        t["triu"], t["tril"] = tri_mask("triu"), tri_mask("tril")

        def diag(a, k=0):
            if isinstance(a, ArrDesc) and a.ndim == 2 and a.shape[0] == a.shape[1] and k == 0:
                return a.derived(sel=("diag", 0), shape=(a.shape[0],))
            return Unk("np.diag")
        t["diag"] = t["diagonal"] = diag
        finfo = TableModule("np.finfo", {"eps": 2.220446049250313e-16, "tiny": 2.2250738585072014e-308,
                                         "max": 1.7976931348623157e308, "min": -1.7976931348623157e308,
                                         "resolution": 1e-15})
        t["finfo"] = lambda *a, **k: finfo

        def shape_fn(name):
            def f(a, *x, **k):
                if isinstance(a, ArrDesc) and all(isinstance(v, (int, tuple, list)) for v in x) and \
                        all(isinstance(v, (int, tuple, list)) for v in k.values()):
                    try:
                        sh = getattr(_np, name)(_np.empty(a.shape, dtype=bool), *x, **k).shape
                    except (ValueError, IndexError) as ex:
                        raise ModelError(f"np.{name}: {ex}")
                    return a.view(sh)
                return Unk(f"np.{name}")
            return f
        for n in ("moveaxis", "swapaxes", "rollaxis", "expand_dims", "squeeze", "atleast_2d", "atleast_1d"):
            t[n] = shape_fn(n)

        def join_fn(name):
            def f(seq, *x, **k):
                if isinstance(seq, (list, tuple)) and seq and all(isinstance(v, ArrDesc) for v in seq) and \
                        all(isinstance(v, int) for v in x) and all(isinstance(v, int) for v in k.values()):
                    try:
                        sh = getattr(_np, name)([_np.empty(v.shape, dtype=bool) for v in seq], *x, **k).shape
                    except (ValueError, IndexError) as ex:
                        raise ModelError(f"np.{name}: {ex}")
                    kind = max((v.kind for v in seq), key=lambda kk: KIND_RANK[kk])
                    return A(kind, sh)
                return Unk(f"np.{name}")
            return f
        for n in ("stack", "concatenate", "hstack", "vstack", "column_stack", "dstack"):
            t[n] = join_fn(n)
        def norm(a, *x, **k):
            if isinstance(a, ArrDesc) and a.val in ("nonzero", "pos", "somenz", "somepos") and a.size > 0 and not x:
                return Pos("norm of a generic non-zero array")
            if isinstance(a, ArrDesc) and a.val == "zero" and not x:
                return 0.0
            return Unk("np.linalg.norm")
        t["linalg"] = TableModule("numpy.linalg", {"norm": norm})
        for sub in ("random", "fft", "testing", "ma", "lib"):
            t[sub] = OpaqueModule("numpy." + sub)
        return TableModule("numpy", t)

    def _make_quaternion(self):
        t = {}
        t["quaternion"] = self._type("quaternion")

        def as_float_array(a):
            if isinstance(a, ArrDesc) and a.kind == "quat":
                return a.view(a.shape + (4,), kind="real")
            return Unk("as_float_array")

        def as_quat_array(a):
            if isinstance(a, ArrDesc) and a.kind == "real" and a.shape and a.shape[-1] == 4:
                return a.view(a.shape[:-1], kind="quat")
            return Unk("as_quat_array")
        t["as_float_array"], t["as_quat_array"] = as_float_array, as_quat_array
        return TableModule("quaternion", t)

    # ---------------------------------------------------------------- semantic helpers
    def same_array(self, a, b):
        """np.allclose(a, b): decided only when one operand is the adjoint (or the transpose
        conjugate in any spelling) of the other -> the Hermitian flag of the descriptor."""
        if isinstance(a, ArrDesc) and isinstance(b, ArrDesc):
            _bshape(a.shape, b.shape)     # incompatible shapes: numpy raises
            if a.size == 0 and b.size == 0:
                return True                   # allclose of two empty arrays (triu_indices(1, 1) ...) is vacuously True
            if a.root() is b.root() and a.sel == b.sel:
                dc, dt = a.conj ^ b.conj, a.tr ^ b.tr
                if not dc and not dt:
                    return True
                r = a.root()
                if a.sel is not None and self._sel_support(a.sel, r) == 0:
                    return True               # masked comparison whose mask selects nothing (np.triu(A, 1) of a 1x1)
                if r.generic:
                    # generic entries, "non-Hermitian by a margin": no accidental symmetry of any kind
                    return False
                if dc and dt and r.ndim == 2 and r.shape[0] == r.shape[1]:
                    # X restricted to S  vs  X^H restricted to S: which part of the Hermitian property does S test?
                    part = self._herm_part(a.sel)
                    if part == "full" and r.herm_off is not None and r.diag_real is not None:
                        return bool(r.herm_off and r.diag_real)
                    if part == "off" and r.herm_off is not None:
                        return bool(r.herm_off)
                    if part == "diag" and r.diag_real is not None:
                        return bool(r.diag_real)
        return Unk("np.allclose")

    @staticmethod
    def _sel_support(sel, r):
        """Number of entries of the square root descriptor r that the index subset selects (None: unknown)."""
        if r.ndim != 2 or r.shape[0] != r.shape[1]:
            return None
        kind, k = sel
        n = r.shape[0]
        if kind == "triu":
            return len(_np.triu_indices(n, k)[0])
        if kind == "tril":
            return len(_np.tril_indices(n, k)[0])
        if kind == "diag":
            return n
        return None

    @staticmethod
    def _herm_part(sel):
        if sel is None:
            return "full"
        kind, k = sel
        if kind == "triu":
            return "off" if k >= 1 else ("full" if k == 0 else None)
        if kind == "tril":
            return "off" if k <= -1 else ("full" if k == 0 else None)
        if kind == "diag" and k == 0:
            return "diag"
        return None

    def herm_flag(self, a):
        if isinstance(a, ArrDesc):
            r = a.root()
            if r.ndim == 2 and r.shape[0] == r.shape[1] and r.herm is not None:
                return r.herm
        return Unk("hermitian?")

    # ---------------------------------------------------------------- builtins
    def b_len(self, v):
        if isinstance(v, Unk):
            return Unk("len")
        if isinstance(v, ArrDesc):
            if v.ndim == 0:
                raise ModelError("len() of unsized object")
            return v.shape[0]
        if isinstance(v, (list, tuple, dict, str, set, range)):
            return len(v)
        if isinstance(v, Instance):
            me = ModelError(f"object of type {v.ci.name} has no len()")
            me.exc_name = "TypeError"
            raise me
        raise Unsupported(f"len() of {type(v).__name__}")

    def b_isinstance(self, v, t):
        if isinstance(t, tuple):
            res = False
            for x in t:
                y = self.b_isinstance(v, x)
                if y is True:
                    return True
                if y is not False:
                    res = y
            return res
        if isinstance(v, Unk):
            return UNKNOWN(("isinstance", v.why))
        if isinstance(t, Unk):
            return UNKNOWN(("isinstance against", t.why))
        if isinstance(t, TypeModel):
            return bool(t.pred(v))
        return super().b_isinstance(v, t)

    def b_hasattr(self, v, name):
        if isinstance(v, Instance):
            return name in v.attrs or name in v.ci.methods
        if isinstance(v, ArrDesc):
            if name in NDARRAY_ATTRS:
                return True
            if name in NOT_NDARRAY_ATTRS:
                return False
            raise Unsupported(f"hasattr(ndarray, {name!r}) not in the model")
        if isinstance(v, Unk):
            return UNKNOWN(("hasattr", name))
        return super().hasattr(v, name)

    def to_scalar(self, v, what):
        return Unk(what)

    def make_complex(self, re, im):
        if isinstance(re, (int, float)) and isinstance(im, (int, float)):
            return complex(re, im)
        return Unk("complex")

    def sym_minmax(self, name, args):
        return Unk(name)

    def b_abs(self, v):
        if isinstance(v, (int, float, complex)):
            return abs(v)
        if isinstance(v, ArrDesc):
            return v.fresh(kind="real")
        return Unk("abs")

    def b_sum(self, it, start=0):
        try:
            return super().b_sum(it, start)
        except TypeError:
            return Unk("sum")

    def b_round(self, v, nd=None):
        if isinstance(v, (int, float)):
            return round(v, nd) if nd is not None else round(v)
        return Unk("round")

    # ---------------------------------------------------------------- protocol
    def truth(self, v):
        if isinstance(v, Unk):
            return UNKNOWN(("unk", v.why))
        if isinstance(v, ArrDesc):
            if v.kind == "bool" and v.size == 1 and v.val in ("true", "false"):
                return v.val == "true"
            return UNKNOWN(("truth of array", v.shape))
        if isinstance(v, (DType, TableModule, OpaqueModule, ExcClass, ModuleRef, IndexSet)):
            return True
        if isinstance(v, complex):
            return bool(v)
        return super().truth(v)

    @staticmethod
    def _scaled_val(val, other, op):
        """value class of arr*c, arr/c, arr**p for a number / positive quantity"""
        if op is operator.pow:
            if isinstance(other, (int, float)) and other == 2:
                return {"zero": "zero", "nonzero": "pos", "pos": "pos", "somenz": "somepos", "somepos": "somepos"}.get(val)
            return None
        positive = isinstance(other, Pos) or (isinstance(other, (int, float)) and other > 0)
        nonzero = positive or (isinstance(other, (int, float)) and other != 0)
        if op in (operator.mul, operator.truediv) and nonzero:
            if val in ("zero", "nonzero", "somenz"):
                return val
            if val in ("pos", "somepos"):
                return val if positive else {"pos": "nonzero", "somepos": "somenz"}[val]
        return None

    def binop(self, interp, op, a, b, node):
        if isinstance(a, Pos) or isinstance(b, Pos):
            if not isinstance(a, ArrDesc) and not isinstance(b, ArrDesc):
                r = pos_arith(op, a, b)
                return r if r is not None else Unk("op")
        if isinstance(a, ArrDesc) or isinstance(b, ArrDesc):
            if (isinstance(a, Unk) and not isinstance(a, Pos)) or (isinstance(b, Unk) and not isinstance(b, Pos)):
                return Unk("array op")
            if isinstance(a, ArrDesc) and isinstance(b, ArrDesc):
                kind = a.kind if KIND_RANK[a.kind] >= KIND_RANK[b.kind] else b.kind
                if op is operator.matmul:
                    if a.ndim == 2 and b.ndim == 2:
                        if a.shape[1] != b.shape[0]:
                            raise ModelError(f"matmul: shapes {a.shape} and {b.shape} not aligned")
                        return ArrDesc(kind, (a.shape[0], b.shape[1]))
                    return Unk("matmul")
                val = None
                if op in (operator.sub, operator.add) and a.val == "zero" and b.val == "zero":
                    val = "zero"
                if op is operator.sub and a.root() is b.root() and a.sel is None and b.sel is None and a.shape == b.shape:
                    dc, dt = a.conj ^ b.conj, a.tr ^ b.tr
                    r = a.root()
                    if not dc and not dt:
                        val = "zero"
                    elif dc and dt and r.ndim == 2 and r.shape[0] == r.shape[1]:
                        # X - X^H: zero for a Hermitian X, every entry non-zero for generic entries, some entry non-zero
                        # when only the diagonal (or only the off-diagonal part) breaks the symmetry
                        if r.herm is True or r.val == "zero":
                            val = "zero"
                        elif r.generic:
                            val = "nonzero"
                        elif r.herm is False:
                            val = "somenz"
                return ArrDesc(kind, _bshape(a.shape, b.shape), val=val)
            arr, other = (a, b) if isinstance(a, ArrDesc) else (b, a)
            if isinstance(other, Pos) and op in (operator.mul, operator.truediv) and (arr is a or op is operator.mul):
                return ArrDesc(arr.kind if arr.kind != "bool" else "real", arr.shape, val=self._scaled_val(arr.val, other, op))
            if isinstance(other, (int, float, complex)):
                kind = arr.kind
                if isinstance(other, complex) and KIND_RANK[kind] < 2:
                    kind = "complex"
                val = None
                if not isinstance(other, complex) and not isinstance(other, bool) and (arr is a or op is operator.mul):
                    val = self._scaled_val(arr.val, other, op)
                return ArrDesc(kind if kind != "bool" else "real", arr.shape, val=val)
            return Unk("array op")
        if isinstance(a, Unk) or isinstance(b, Unk):
            return Unk("op")
        return super().binop(interp, op, a, b, node)

    def unop(self, interp, op, v, node):
        if isinstance(v, ArrDesc):
            return v.fresh()
        if isinstance(v, Unk):
            return v
        return super().unop(interp, op, v, node)

    @staticmethod
    def _dtype_kind(x):
        if isinstance(x, DType):
            return x.kind
        if isinstance(x, TypeModel):
            return TYPE_KIND.get(x.name)
        if isinstance(x, str):
            return TYPE_KIND.get(x)
        return None

    def compare(self, interp, op, a, b, node):
        if isinstance(a, DType) or isinstance(b, DType):
            ka, kb = self._dtype_kind(a), self._dtype_kind(b)
            if ka is None or kb is None or op not in (operator.eq, operator.ne):
                return UNKNOWN(("dtype comparison", repr(a), repr(b)))
            return op(ka, kb)
        if isinstance(a, Pos) and isinstance(b, (int, float)) and not isinstance(b, bool) and b <= 0:
            return op(1, 0)
        if isinstance(b, Pos) and isinstance(a, (int, float)) and not isinstance(a, bool) and a <= 0:
            return op(0, 1)
        if isinstance(a, Pos) or isinstance(b, Pos):
            r = pos_compare(op, a, b)
            if r is not None:
                return bool(r)
        if isinstance(a, Unk) or isinstance(b, Unk):
            return UNKNOWN(("comparison with unknown", getattr(a, "why", None) or getattr(b, "why", None)))
        if isinstance(a, ArrDesc) or isinstance(b, ArrDesc):
            arr, other, flip = (a, b, False) if isinstance(a, ArrDesc) else (b, a, True)
            if isinstance(other, ArrDesc):
                return ArrDesc("bool", _bshape(arr.shape, other.shape))
            val = None
            if isinstance(other, (int, float)) and not isinstance(other, bool):
                if arr.val == "zero":
                    r = op(other, 0) if flip else op(0, other)
                    val = "true" if r else "false"
                elif arr.val in ("nonzero", "pos") and other == 0 and op in (operator.eq, operator.ne):
                    val = "true" if op is operator.ne else "false"
                elif arr.val == "pos" and other <= 0:
                    r = op(0, 1) if flip else op(1, 0)      # a strictly positive entry against a non-positive bound
                    val = "true" if r else "false"
            return ArrDesc("bool", arr.shape, val=val)
        if isinstance(a, (tuple, list)) and isinstance(b, (tuple, list)) and op in (operator.eq, operator.ne):
            if any(isinstance(x, Unk) for x in a) or any(isinstance(x, Unk) for x in b):
                if len(a) != len(b):
                    return op is operator.ne
                return UNKNOWN("tuple with unknown element")
        if isinstance(a, (TypeModel, ClassRef)) or isinstance(b, (TypeModel, ClassRef)):
            if op in (operator.eq, operator.ne):
                return op(a, b) if isinstance(a, TypeModel) and isinstance(b, TypeModel) else (op is operator.ne)
        return super().compare(interp, op, a, b, node)

    def is_(self, a, b):
        if isinstance(a, Unk) or isinstance(b, Unk):
            return UNKNOWN("identity of unknown")
        return a is b

    def contains(self, interp, container, item, node):
        if isinstance(container, Unk) or isinstance(item, Unk):
            return UNKNOWN("membership of unknown")
        return super().contains(interp, container, item, node)

    # ---------------------------------------------------------------- attributes
    def getattr(self, interp, obj, attr, node=None):
        if isinstance(obj, ArrDesc):
            return self._arr_attr(interp, obj, attr, node)
        if isinstance(obj, Unk):
            return Unk(f"{obj.why}.{attr}")
        if isinstance(obj, OpaqueModule):
            return Unk(f"{obj.name}.{attr}")
        if isinstance(obj, TableModule):
            if attr in obj.table:
                return obj.table[attr]
            return Unk(f"{obj.name}.{attr}")
        if isinstance(obj, dict) and attr == "get":
            def dict_get(key, default=None):
                if is_unknown(key) or isinstance(key, Unk):
                    return self._dict_unknown_key(interp, obj, key, node, missing=(default,))
                return obj.get(key, default)
            return dict_get
        if isinstance(obj, DType):
            return Unk(f"dtype.{attr}")
        if isinstance(obj, TypeModel):
            return Unk(f"{obj.name}.{attr}")
        try:
            return super().getattr(interp, obj, attr, node)
        except AttributeError:
            me = ModelError(f"'{type(obj).__name__}' object has no attribute '{attr}'")
            me.exc_name = "AttributeError"
            raise me

    def _arr_attr(self, interp, a, attr, node):
        if attr == "shape":
            return a.shape
        if attr == "ndim":
            return a.ndim
        if attr == "size":
            return a.size
        if attr == "dtype":
            return DType(a.kind)
        if attr == "T":
            return a.derived(tr=(a.ndim >= 2), fresh=False)
        if attr == "real":
            return self.np.table["real"](a)
        if attr == "imag":
            return self.np.table["imag"](a)
        if attr == "copy":
            return lambda *x, **k: a.derived()
        if attr in ("conj", "conjugate"):
            return lambda *x, **k: a.derived(conj=True)
        if attr == "transpose":
            return lambda *axes: self.np.table["transpose"](a, (axes[0] if len(axes) == 1 and not isinstance(axes[0], int)
                                                                 else (axes or None)))
        if attr == "astype":
            def astype(dtype=None, *x, **k):
                kd = self._dtype_kind(dtype)
                return a.fresh(kind=kd if kd in KIND_RANK else a.kind)
            return astype
        if attr == "reshape":
            def reshape(*shape, **k):
                if len(shape) == 1 and isinstance(shape[0], (tuple, list)):
                    shape = tuple(shape[0])
                if not all(isinstance(x, int) and not isinstance(x, bool) for x in shape):
                    return Unk("reshape")
                try:
                    sh = _np.empty(a.shape, dtype=bool).reshape(shape).shape
                except ValueError as ex:
                    raise ModelError(f"reshape: {ex}")
                return a.view(sh)
            return reshape
        if attr in ("any", "all", "sum", "max", "min", "mean"):
            fn = self.np.table[attr]
            return lambda *x, **k: fn(a, *x, **k)
        if attr == "nonzero":
            return lambda: Unk("ndarray.nonzero")
        if attr in ("ravel", "flatten"):
            return lambda *x, **k: (a.view((a.size,)) if attr == "ravel" else a.fresh(shape=(a.size,)))
        if attr in ("fill", "sort", "partition", "resize", "itemset", "setfield", "put"):
            def inplace(*x, **k):
                if a.owner:
                    interp.note_effect(f"in-place .{attr}() on argument {a.owner}")
                return None
            return inplace
        if attr in NOT_NDARRAY_ATTRS:
            me = ModelError(f"'numpy.ndarray' object has no attribute '{attr}'")
            me.exc_name = "AttributeError"
            raise me
        return Unk(f"ndarray.{attr}")

    def instance_getattr(self, interp, obj, attr, node):
        return NotImplemented

    def setattr(self, interp, obj, attr, v, node):
        if isinstance(obj, ArrDesc):
            if obj.owner:
                interp.note_effect(f"attribute store .{attr} on argument {obj.owner}")
            return
        if isinstance(obj, Unk):
            return
        super().setattr(interp, obj, attr, v, node)

    # ---------------------------------------------------------------- items
    def getitem(self, interp, obj, idx, node):
        if isinstance(obj, Unk):
            return Unk("item")
        if isinstance(obj, ArrDesc):
            if isinstance(idx, IndexSet):
                if obj.ndim == 2 and obj.shape == (idx.n, idx.n):
                    return obj.derived(sel=(idx.kind, idx.k), shape=(idx.count(),))
                return Unk("item")
            if not _is_concrete_index(idx):
                return Unk("item")
            try:
                sh = _np.empty(obj.shape, dtype=bool)[idx].shape
            except IndexError as ex:
                raise IndexError(str(ex))
            if sh == () and not (isinstance(idx, tuple) and any(x is None for x in idx)):
                return Unk("element")
            fancy = any(isinstance(x, list) for x in (idx if isinstance(idx, tuple) else (idx,)))
            return obj.fresh(shape=sh) if fancy else obj.view(sh)
        if isinstance(obj, dict) and (is_unknown(idx) or isinstance(idx, Unk)):
            return self._dict_unknown_key(interp, obj, idx, node, missing=None)
        if isinstance(idx, Unk) or (isinstance(idx, slice) and any(isinstance(x, Unk) for x in (idx.start, idx.stop, idx.step))):
            return Unk("item")
        if is_unknown(idx):
            return Unk("item at a data-dependent index")
        if isinstance(obj, (list, tuple, str, dict, range)):
            return obj[idx]
        raise Unsupported(f"subscript of {type(obj).__name__}")

    def _dict_unknown_key(self, interp, d, key, node, missing):
        """d[key] / d.get(key) for a key the descriptor does not decide.  A KeyError is predicted only for a concrete
        missing key, never here.  A truth-valued key into a dict that has both True and False is resolved like any other
        data-dependent condition (explored both ways or interpretation stops - never guessed); otherwise the result is
        the common value if all values agree, else unknown."""
        if is_unknown(key) and True in d and False in d:
            return d[bool(interp.truth(key, node))]
        vals = list(d.values()) + ([] if missing is None else [missing[0]])
        if vals and all(v is vals[0] or (type(v) is type(vals[0]) and isinstance(v, (int, float, str, bool)) and v == vals[0])
                        for v in vals):
            return vals[0]
        return Unk("dict value at a data-dependent key")

    def setitem(self, interp, obj, idx, v, node):
        if isinstance(obj, ArrDesc):
            if obj.owner:
                interp.note_effect(f"subscript store into argument {obj.owner}")
            return
        if isinstance(obj, Unk):
            return
        if isinstance(obj, (list, dict)):
            if isinstance(idx, Unk):
                return
            if getattr(interp, "owned_containers", None) and id(obj) in interp.owned_containers:
                interp.note_effect(f"item store into argument {interp.owned_containers[id(obj)]}")
            obj[idx] = v
            return
        raise Unsupported(f"subscript store on {type(obj).__name__}")

    def iterate(self, interp, v, node):
        if isinstance(v, ArrDesc):
            if v.ndim == 0:
                raise ModelError("iteration over a 0-d array")
            return [self.getitem(interp, v, i, node) for i in range(v.shape[0])]
        return NotImplemented


# ======================================================================================
# the guard interpreter
# ======================================================================================

class GuardInterp(Interp):
    """Interp that records (a) every branch test it decides, per function, (b) effects on
    caller-owned objects, (c) the statement stack at the point where interpretation ended."""

    def __init__(self, program, domain, summaries=None, max_steps=20000, chooser=None):
        super().__init__(program, domain, chooser=chooser, summaries=summaries, max_steps=max_steps)
        self.n_chosen = 0        # UNKNOWN conditions resolved by the explorer on this path (not by the descriptor)
        self.tests = {}          # (where, id(node)) -> [fi, node, True|False|None(conflicting)]
        self.effects = []        # {'stack': [...], 'text': str}
        self.stmt_stack = []     # (depth, fi, stmt)
        self.owned_containers = {}
        self.threw = {}          # (where, id(stmt)) -> (fi, stmt): try-body statements that raised into a handler
        self.done = set()        # (where, id(stmt)) of statements that completed normally
        self.loops = {}          # (where, id(for stmt)) -> True iff every execution iterated a concrete python sequence
        #                          (constant tuple / list / range) and no test inside was resolved by exploration
        self.unk_base = Unk.created
        self._unk_marks = []     # Unk.created at the start of each statement of stmt_stack

    def exec(self, s, env):
        self.stmt_stack.append((len(self.call_stack), self.call_stack[-1], s))
        self._unk_marks.append(Unk.created)
        try:
            r = super().exec(s, env)
            self.done.add((getattr(self.call_stack[-1], "where", "?"), id(s)))
            return r
        except BaseException as e:
            if not hasattr(e, "q_stack") and not type(e).__name__.startswith("_"):
                try:
                    e.q_stack = list(self.stmt_stack)
                    e.q_work = self._unk_marks[-1] - self.unk_base
                except Exception:
                    pass
            raise
        finally:
            self.stmt_stack.pop()
            self._unk_marks.pop()

    def note_effect(self, text):
        self.effects.append({"stack": list(self.stmt_stack), "text": text})

    def decide(self, node, cond):
        r = super().decide(node, cond)      # NeedChoice when no chooser / chooser declines
        self.n_chosen += 1
        return r

    def _record(self, s, val, n0=None):
        fi = self.call_stack[-1]
        key = (getattr(fi, "where", "?"), id(s))
        if n0 is not None and self.n_chosen > n0:
            val = None           # resolved by exploration, not by the descriptor: both edges stay in the CFG
        cur = self.tests.get(key)
        if cur is None:
            self.tests[key] = [fi, s, val]
        elif cur[2] != val:
            cur[2] = None

    def x_If(self, s, env):
        n0 = self.n_chosen
        t = self.truth(self.eval(s.test, env), s.test)
        self._record(s, t, n0)
        self.exec_block(s.body if t else s.orelse, env)

    def x_Assert(self, s, env):
        n0 = self.n_chosen
        t = self.truth(self.eval(s.test, env), s.test)
        self._record(s, t, n0)
        if not t:
            raise RepoRaise("AssertionError", s, self.where(s))

    def x_For(self, s, env):
        """As Interp.x_For; records whether the trip count and every test inside were decided by the descriptor (a walk over
        a constant dispatch tuple), so that a raise behind the loop counts as evaluated when the loop returned early."""
        from .interp import _Break, _Continue
        it = self.eval(s.iter, env)
        key = (getattr(self.call_stack[-1], "where", "?"), id(s))
        concrete = isinstance(it, (list, tuple, range, dict, str, set, frozenset))
        n0 = self.n_chosen
        broke = False
        try:
            for v in self.iterate(it, s.iter):
                self.assign(s.target, v, env)
                try:
                    self.exec_block(s.body, env)
                except _Break:
                    broke = True
                    break
                except _Continue:
                    continue
            if not broke:
                self.exec_block(s.orelse, env)
        finally:
            ok = concrete and self.n_chosen == n0
            self.loops[key] = self.loops.get(key, True) and ok

    def x_While(self, s, env):
        from .interp import _Break, _Continue
        broke = False
        while True:
            n0 = self.n_chosen
            t = self.truth(self.eval(s.test, env), s.test)
            self._record(s, t, n0)
            if not t:
                break
            try:
                self.exec_block(s.body, env)
            except _Break:
                broke = True
                break
            except _Continue:
                continue
        if not broke:
            self.exec_block(s.orelse, env)

    def x_Try(self, s, env):
        """As Interp.x_Try; additionally records which statement of the try body raised into a handler, so that the CFG
        pruned for this run has no normal continuation out of that statement."""
        depth = len(self.call_stack)
        fi = self.call_stack[-1]
        try:
            try:
                self.exec_block(s.body, env)
            except (RepoRaise, ModelError) as e:
                name = e.exc_name
                for h in s.handlers:
                    if self._handler_matches(h, name, env):
                        base = len(self.stmt_stack)
                        inner = [st for (d, f, st) in getattr(e, "q_stack", [])[base:] if d == depth]
                        for st in inner[-1:]:        # the innermost statement of this frame is the one that raised
                            self.threw[(getattr(fi, "where", "?"), id(st))] = (fi, st)
                        if h.name:
                            env.vars[h.name] = ExcValue(name, (str(e),))
                        self.exec_block(h.body, env)
                        break
                else:
                    raise
            else:
                self.exec_block(s.orelse, env)
        finally:
            if s.finalbody:
                self.exec_block(s.finalbody, env)

    def x_AugAssign(self, s, env):
        if isinstance(s.target, ast.Name) and env.has(s.target.id):
            cur = env.lookup(s.target.id)
            if isinstance(cur, ArrDesc) and cur.owner:
                self.note_effect(f"in-place augmented assignment on argument {cur.owner}")
        return super().x_AugAssign(s, env)

    def setattr(self, obj, attr, v, node):
        if isinstance(obj, Instance) and getattr(obj, "owner", None):
            self.note_effect(f"attribute store {obj.owner}.{attr}")
        return super().setattr(obj, attr, v, node)


class Outcome:
    """Result of interpreting one entry point on one argument descriptor."""

    def __init__(self, kind, it, exc=None, node=None, stack=None, reason=None, value=None, work=0):
        self.work_before = work         # unknown values produced before the statement where interpretation ended began
        self.kind = kind                # 'raise' (explicit) | 'implicit' | 'return' | 'stop'
        self.exc, self.node, self.reason, self.value = exc, node, reason, value
        self.stack = stack or []
        self.effects = list(it.effects)
        self.tests = dict(it.tests)
        self.steps = it.steps
        self.n_chosen = it.n_chosen
        self.threw = dict(it.threw)
        self.done = set(it.done)
        self.loops = dict(it.loops)

    @property
    def raise_fi(self):
        return self.stack[-1][1] if self.stack else None

    def entry_stmts(self):
        return [s for (d, fi, s) in self.stack if d == 1]

    def delegated(self):
        return bool(self.stack) and self.stack[-1][0] > 1

    def chain(self):
        out = []
        for (d, fi, s) in self.stack:
            q = fi.qualname
            if not out or out[-1] != q:
                out.append(q)
        return out

    def decided_in(self, fi):
        w = fi.where
        return [(node, val) for (where, _), (f, node, val) in self.tests.items() if where == w and val is not None]

    def threw_in(self, fi):
        w = fi.where
        return [st for (where, _), (f, st) in self.threw.items() if where == w]

    def completed(self, fi, stmt):
        """Did stmt run to normal completion (a statement of a try body that did NOT raise into its handlers)?"""
        return (fi.where, id(stmt)) in self.done and (fi.where, id(stmt)) not in self.threw

    def loop_decided(self, fi, stmt):
        """Did this run execute the `for` statement, every time over a concrete python sequence and without any test
        inside being resolved by exploration (trip count and early exits are decided by the descriptor)?"""
        return self.loops.get((fi.where, id(stmt)), False)

    def pruned_cfg(self, fi):
        """CFG of fi without the edges this run is known not to take."""
        return cfg_of(fi).pruned(self.decided_in(fi), self.threw_in(fi))

    def evaluated(self, fi, stmt):
        """Was the test of stmt decided by the descriptor (not by exploration, not with conflicting values)?"""
        r = self.tests.get((fi.where, id(stmt)))
        return r is not None and r[2] is not None

    def describe(self):
        if self.kind == "raise":
            via = " via " + " -> ".join(self.chain()[1:]) if self.delegated() else ""
            return f"raises {self.exc}{via}"
        if self.kind == "implicit":
            return f"no explicit guard; python/numpy itself would fail ({self.exc}: {self.reason})"
        if self.kind == "return":
            return "is answered (normal return)"
        return f"is not rejected by any guard of the prefix (interpretation stopped: {self.reason})"


def run_entry(program, fi, args, kwargs=None, bound_self=None, summaries=None, max_steps=20000, chooser=None):
    dom = DescDomain()
    summ = dict(summaries or {})
    summ.pop(f"{fi.module.name}:{fi.qualname}", None)     # the entry point itself is always interpreted
    it = GuardInterp(program, dom, summaries=summ, max_steps=max_steps, chooser=chooser)
    dom._interp = it
    for name, v in list((kwargs or {}).items()) + [(f"arg{i}", a) for i, a in enumerate(args)]:
        if isinstance(v, (list, dict)):
            it.owned_containers[id(v)] = name
    try:
        v = it.run(fi, list(args), dict(kwargs or {}), bound_self=bound_self)
        return Outcome("return", it, value=v)
    except RepoRaise as e:
        stack = getattr(e, "q_stack", [])
        if isinstance(e.node, (ast.Raise, ast.Assert)):
            return Outcome("raise", it, exc=e.exc_name, node=e.node, stack=stack)
        return Outcome("implicit", it, exc=e.exc_name, node=e.node, stack=stack, reason=str(e.msg or ""))
    except ModelError as e:
        return Outcome("implicit", it, exc=getattr(e, "exc_name", "ValueError"), stack=getattr(e, "q_stack", []),
                       reason=str(e)[:160])
    except NeedChoice as e:
        return Outcome("stop", it, stack=getattr(e, "q_stack", []), work=getattr(e, "q_work", 0),
                       reason=f"data-dependent condition `{_src(e.node)}`")
    except UnknownTruth as e:
        return Outcome("stop", it, stack=getattr(e, "q_stack", []), work=getattr(e, "q_work", 0),
                       reason="data-dependent truth value")
    except AnalysisError as e:
        return Outcome("stop", it, stack=getattr(e, "q_stack", []), reason=f"outside the evaluator: {str(e)[:140]}")
    except RecursionError:
        return Outcome("stop", it, stack=[], reason="recursion limit")
    except Exception as e:      # numeric body far behind the guard prefix: evaluator limit, never a verdict
        return Outcome("stop", it, stack=getattr(e, "q_stack", []),
                       reason=f"evaluator limit {type(e).__name__}: {str(e)[:120]}")


def explore(run_fn, policy=None, max_paths=16):
    """Bounded exhaustive exploration of the UNKNOWN conditions met by run_fn(chooser) -> Outcome.
    policy(interp, node, cond) -> True | False (decide) | 'stop' (do not explore: interpretation ends there) |
    None (explore both outcomes).  Returns (outcomes, complete)."""
    outcomes = []
    stack = [[]]
    while stack:
        if len(outcomes) >= max_paths:
            return outcomes, False
        prefix = stack.pop()
        taken = []
        pos = [0]

        def chooser(interp, node, cond):
            if policy is not None:
                r = policy(interp, node, cond)
                if r == "stop":
                    return None
                if r is not None:
                    return r
            i = pos[0]
            pos[0] += 1
            if i < len(prefix):
                taken.append(prefix[i])
                return prefix[i]
            taken.append(False)
            stack.append(taken[:i] + [True])
            return False
        outcomes.append(run_fn(chooser))
    return outcomes, True


def guard_test_sites(fi):
    """ids of the statements whose test belongs to a guard site of fi: `if` ending in a raise, every `if` of an
    if/elif chain (or `if ...: return` sequence) closed by a raise, assert statements."""
    key = id(fi.node)
    r = _GTS_CACHE.get(key)
    if r is not None and r[0] is fi.node:
        return r[1]
    out = set()
    cfg = cfg_of(fi)
    for gs in extract_guards(fi):
        if gs.role == "assert":
            out.add(id(gs.node))
            continue
        if gs.test_stmt is not None:
            out.add(id(gs.test_stmt))
        if gs.role in ("else-raise", "trailing-raise", "if-raise") and cfg.has_stmt(gs.node):
            for (b, _lab) in cfg.control_deps(cfg.node_of(gs.node)):
                st = cfg.nodes[b].stmt
                if isinstance(st, ast.If):
                    out.add(id(st))
    _GTS_CACHE[key] = (fi.node, out)
    return out


_GTS_CACHE = {}


def at_guard_test(interp):
    """Is the statement currently executing the test of a guard site of its function?"""
    if not interp.stmt_stack:
        return False
    d, fi, stmt = interp.stmt_stack[-1]
    if not isinstance(fi, FuncInfo):
        return False
    return id(stmt) in guard_test_sites(fi)


def _src(node):
    try:
        return ast.unparse(node)[:80]
    except Exception:
        return "?"


# ======================================================================================
# summaries (each with its reason)
# ======================================================================================

def summary_ishermitian(program):
    """`ishermitian(X)` reached as a *callee* (det 'Moore', power_iteration's notice): its own guards
    are interpreted on the descriptor (so a non-square argument raises exactly as the code does);
    the data-dependent answer (max |A - A^H| <= tol) is the descriptor's Hermitian flag - which is
    the definition of the flag.  When ishermitian is itself the entry point it is interpreted."""
    fi = program.func("utils", "ishermitian")
    key = "utils:ishermitian"

    def summ(interp, A, tol=None):
        saved = interp.summaries.pop(key, None)
        saved_chooser, interp.chooser = interp.chooser, None      # the data-dependent answer is the flag, never explored
        n_eff = len(interp.effects)
        try:
            try:
                r = interp.call_repo(FuncRef(fi), [A, tol], {})
                if isinstance(r, bool):
                    return r
                del interp.effects[n_eff:]
                return interp.domain.herm_flag(A)        # data-dependent answer in any spelling: the flag
            except (NeedChoice, UnknownTruth, Unsupported):
                del interp.effects[n_eff:]
                r = interp.domain.herm_flag(A)
                return r
        finally:
            interp.chooser = saved_chooser
            if saved is not None:
                interp.summaries[key] = saved
    return {key: summ}


# ======================================================================================
# static side: guard extraction, effects of a function, dominance on the pruned CFG
# ======================================================================================

class GuardSite:
    """One `raise` / `assert` of a function, classified by its syntactic role."""

    def __init__(self, fi, node, role, test_stmt, exc):
        self.fi, self.node, self.role, self.test_stmt, self.exc = fi, node, role, test_stmt, exc

    def __repr__(self):
        return f"<guard {self.role} {self.exc} in {self.fi.qualname}>"


def _exc_name(node):
    if isinstance(node, ast.Assert):
        return "AssertionError"
    e = node.exc
    if e is None:
        return "<re-raise>"
    if isinstance(e, ast.Call):
        e = e.func
    if isinstance(e, ast.Name):
        return e.id
    if isinstance(e, ast.Attribute):
        return e.attr
    return "<expr>"


def extract_guards(fi):
    """Every raise / assert statement of fi (nested function bodies excluded) with its role:
    'assert', 'if-raise' (last statement of an `if` body, e.g. after prints), 'else-raise' (closing an
    if/elif/else option chain), 'trailing-raise' (last statement of the function after a sequence of
    `if ...: return`), 'handler-raise' (inside an except block), 'other'."""
    out = []

    def visit(stmts, parent, where, in_handler):
        for i, s in enumerate(stmts):
            last = i == len(stmts) - 1
            if isinstance(s, ast.Assert):
                out.append(GuardSite(fi, s, "assert", s, "AssertionError"))
            elif isinstance(s, ast.Raise):
                if in_handler:
                    role, test = "handler-raise", None
                elif isinstance(parent, ast.If) and where == "body" and last:
                    role, test = "if-raise", parent
                elif isinstance(parent, ast.If) and where == "orelse" and last:
                    role, test = "else-raise", parent
                elif parent is None and last:
                    role, test = "trailing-raise", None
                else:
                    role, test = "other", parent if isinstance(parent, ast.If) else None
                out.append(GuardSite(fi, s, role, test, _exc_name(s)))
            elif isinstance(s, ast.If):
                visit(s.body, s, "body", in_handler)
                visit(s.orelse, s, "orelse", in_handler)
            elif isinstance(s, (ast.For, ast.While, ast.AsyncFor)):
                visit(s.body, s, "loop", in_handler)
                visit(s.orelse, s, "loop-else", in_handler)
            elif isinstance(s, (ast.With, ast.AsyncWith)):
                visit(s.body, s, "with", in_handler)
            elif isinstance(s, ast.Try):
                visit(s.body, s, "try", in_handler)
                for h in s.handlers:
                    visit(h.body, h, "handler", True)
                visit(s.orelse, s, "try-else", in_handler)
                visit(s.finalbody, s, "finally", in_handler)
    visit(fi.node.body, None, "body", False)
    return out


VIEW_FUNCS = {"asarray", "asanyarray", "transpose", "real", "imag", "as_float_array", "as_quat_array", "ravel",
              "reshape", "squeeze", "atleast_2d", "atleast_1d"}
VIEW_METHODS = {"reshape", "ravel", "transpose", "view", "squeeze", "swapaxes"}
VIEW_ATTRS = {"T", "real", "imag", "flat"}
INPLACE_METHODS = {"fill", "sort", "partition", "resize", "itemset", "put", "append", "extend", "insert", "pop",
                   "remove", "clear", "update", "setdefault"}
INPLACE_FUNCS = {"fill_diagonal", "copyto", "put", "place", "putmask"}


def _root_name(e):
    while isinstance(e, (ast.Subscript, ast.Attribute)):
        e = e.value
    return e.id if isinstance(e, ast.Name) else None


class StaticEffects:
    """Syntactic effect statements of one function (used for the CFG dominance query):
    stores through `self` or through a name that may still be (a view of) a parameter,
    in-place method / numpy calls on such a name, calls of repository functions that do the same
    to the corresponding parameter."""

    def __init__(self, program, fi, _depth=0):
        self.program, self.fi = program, fi
        self.cfg = cfg_of(fi)
        self.params = [p for p in fi.params()]
        self.self_name = self.params[0] if (fi.cls is not None and self.params and not _is_static(fi)) else None
        self.rd = self.cfg.reaching_definitions(self.params)
        self._depth = _depth
        self.items = []          # (stmt, text)
        self.mutated_params = set()
        self._scan()

    # -- may `name` at node nid be (a view of) a parameter? returns the parameter name or None
    def _param_alias(self, name, nid, depth=0):
        if depth > 4:
            return None
        for d in self.rd.get(nid, ()):
            if d[1] != name:
                continue
            if d[0] == "param":
                if name != self.self_name:
                    return name
                continue
            dn = self.cfg.nodes[d[0]]
            s = dn.stmt
            if isinstance(s, ast.Assign) and len(s.targets) == 1 and isinstance(s.targets[0], ast.Name):
                r = self._view_source(s.value)
                if r is not None and r != name:
                    p = self._param_alias(r, d[0], depth + 1)
                    if p:
                        return p
                elif r == name:
                    p = self._param_alias(r, d[0], depth + 1)
                    if p:
                        return p
        return None

    def _view_source(self, e):
        """Name whose buffer the value of expression e may share, or None if e is fresh."""
        if isinstance(e, ast.Name):
            return e.id
        if isinstance(e, ast.Attribute) and e.attr in VIEW_ATTRS:
            return self._view_source(e.value)
        if isinstance(e, ast.Subscript):
            return self._view_source(e.value)
        if isinstance(e, ast.Call):
            f = e.func
            if isinstance(f, ast.Attribute) and f.attr in VIEW_METHODS:
                return self._view_source(f.value)
            if isinstance(f, ast.Attribute) and f.attr in VIEW_FUNCS and e.args:
                return self._view_source(e.args[0])
            if isinstance(f, ast.Name) and f.id in VIEW_FUNCS and e.args:
                return self._view_source(e.args[0])
        return None

    def _owner(self, expr, nid):
        r = _root_name(expr)
        if r is None:
            return None
        if r == self.self_name:
            # stores of a constructor to the object under construction are not effects on caller state
            return None if self.fi.name == "__init__" else "self"
        return self._param_alias(r, nid)

    def _scan(self):
        for node in self.cfg.stmt_nodes():
            s, nid = node.stmt, node.id
            targets = []
            if isinstance(s, ast.Assign):
                targets = list(s.targets)
            elif isinstance(s, (ast.AugAssign, ast.AnnAssign)):
                targets = [s.target]
            elif isinstance(s, (ast.For, ast.AsyncFor)):
                targets = [s.target]
            flat = []
            for t in targets:
                flat.extend(_flatten_targets(t))
            for t in flat:
                if isinstance(t, (ast.Subscript, ast.Attribute)):
                    o = self._owner(t, nid)
                    if o:
                        self._add(s, f"store through {o}", o)
                elif isinstance(t, ast.Name) and isinstance(s, ast.AugAssign):
                    o = self._param_alias(t.id, nid)
                    if o:
                        self._add(s, f"in-place augmented assignment on {o}", o)
            for call in _calls_of_header(s):
                f = call.func
                if isinstance(f, ast.Attribute) and f.attr in INPLACE_METHODS:
                    o = self._owner(f.value, nid)
                    if o and o != "self" or (o == "self" and isinstance(f.value, ast.Attribute)):
                        self._add(s, f"in-place .{f.attr}() on {o}", o)
                if isinstance(f, ast.Attribute) and f.attr in INPLACE_FUNCS and call.args:
                    o = self._owner(call.args[0], nid)
                    if o:
                        self._add(s, f"{f.attr} on {o}", o)
                for kw in call.keywords:
                    if kw.arg == "out":
                        o = self._owner(kw.value, nid)
                        if o:
                            self._add(s, f"out= store into {o}", o)
                if self._depth < 3:
                    callee = _resolve_static(self.program, self.fi, call)
                    if callee is not None and callee is not self.fi:
                        sub = _static_effects(self.program, callee, self._depth + 1)
                        if sub.mutated_params:
                            cparams = callee.params()
                            off = 1 if (callee.cls is not None and isinstance(f, ast.Attribute) and not _is_static(callee)) else 0
                            for i, a in enumerate(call.args):
                                if i + off < len(cparams) and cparams[i + off] in sub.mutated_params:
                                    src = self._view_source(a)
                                    o = self._owner(ast.Name(id=src), nid) if src else None
                                    if o:
                                        self._add(s, f"call of {callee.qualname} which stores through its parameter "
                                                     f"{cparams[i + off]} (= {o})", o)
                            if off and "self" in sub.mutated_params and _root_name(f.value) == self.self_name:
                                self._add(s, f"call of {callee.qualname} which stores through self", "self")

    def _add(self, stmt, text, owner):
        self.items.append((stmt, text))
        self.mutated_params.add(owner)


def _is_static(fi):
    return any(isinstance(d, ast.Name) and d.id == "staticmethod" for d in fi.node.decorator_list)


def _flatten_targets(t):
    if isinstance(t, (ast.Tuple, ast.List)):
        out = []
        for e in t.elts:
            out.extend(_flatten_targets(e))
        return out
    if isinstance(t, ast.Starred):
        return _flatten_targets(t.value)
    return [t]


def _calls_of_header(s):
    """Call nodes in the part of statement s that executes at its CFG node (not nested blocks)."""
    parts = []
    if isinstance(s, (ast.If, ast.While)):
        parts = [s.test]
    elif isinstance(s, (ast.For, ast.AsyncFor)):
        parts = [s.iter]
    elif isinstance(s, (ast.With, ast.AsyncWith)):
        parts = [i.context_expr for i in s.items]
    elif isinstance(s, (ast.Try, ast.FunctionDef, ast.AsyncFunctionDef, ast.ClassDef, ast.ExceptHandler)):
        parts = []
    else:
        parts = [s]
    out = []
    for p in parts:
        for sub in ast.walk(p):
            if isinstance(sub, ast.Call):
                out.append(sub)
    return out


def _resolve_static(program, fi, call):
    """Resolve a call to a repository function without interpreting: local/imported names
    (module-level and function-local `from x import y`), `self.method`."""
    f = call.func
    mod = fi.module
    if isinstance(f, ast.Name):
        top = fi
        while top.parent is not None:
            top = top.parent
        for nest in (getattr(fi, "nested", {}), getattr(top, "nested", {})):
            if f.id in nest:
                return nest[f.id]
        if f.id in mod.functions:
            return mod.functions[f.id]
        imp = mod.imports.get(f.id)
        if imp and imp[0] == "name":
            r = program.lookup_export(imp[1], imp[2])
            if isinstance(r, FuncInfo):
                return r
        return None
    if isinstance(f, ast.Attribute) and isinstance(f.value, ast.Name):
        if fi.cls is not None and fi.params() and f.value.id == fi.params()[0]:
            return fi.cls.methods.get(f.attr)
        imp = mod.imports.get(f.value.id)
        if imp and imp[0] == "module":
            r = program.lookup_export(imp[1], f.attr)
            if isinstance(r, FuncInfo):
                return r
    return None


_SE_CACHE = {}


def _static_effects(program, fi, depth=0):
    key = (id(program), id(fi.node))
    if key not in _SE_CACHE:
        _SE_CACHE[key] = None          # recursion guard
        _SE_CACHE[key] = StaticEffects(program, fi, depth)
    r = _SE_CACHE[key]
    if r is None:
        class _Empty:
            mutated_params = set()
            items = []
        return _Empty()
    return r


def static_effects(program, fi):
    return _static_effects(program, fi, 0)


def guard_statement(outcome):
    """The statement of the ENTRY function that acts as the guard of a rejecting run:
    the `if` whose body ends in the raise, the assert, the raise itself for a closing else/trailing
    raise, or - for a delegated guard - the entry statement whose evaluation called the callee."""
    es = outcome.entry_stmts()
    if not es:
        return None
    inner = es[-1]
    if not outcome.delegated() and inner is outcome.node and isinstance(inner, ast.Raise) and len(es) >= 2:
        par = es[-2]
        if isinstance(par, ast.If) and any(x is inner for x in par.body):
            return par
    return inner


def dominance_problems(program, fi, outcome):
    """CFG query for a rejecting run: in the CFG of the entry point pruned by the tests this run
    decided, list the effect statements / normal exits reachable from the entry WITHOUT passing the
    guard statement, plus effects that the run actually executed before it reached the raise."""
    problems = []
    for e in outcome.effects:
        loc = next((s for (d, f, s) in e["stack"] if d == 1), None)
        problems.append((loc, f"{e['text']} is executed before the guard is reached"))
    g = guard_statement(outcome)
    cfg = cfg_of(fi)
    if g is None or not cfg.has_stmt(g):
        problems.append((None, "guard statement not located in the entry point's CFG"))
        return problems, None
    pruned = outcome.pruned_cfg(fi)
    gid = pruned.node_of(g)
    reach = pruned.reachable(ENTRY, avoid={gid})
    se = static_effects(program, fi)
    for (stmt, text) in se.items:
        if cfg.has_stmt(stmt) and cfg.node_of(stmt) in reach:
            problems.append((stmt, f"{text} is reachable without passing the guard"))
    if RETURN in reach:
        rets = [pruned.nodes[p].stmt for (p, _l) in pruned.predecessors(RETURN) if p in reach]
        problems.append((rets[0] if rets and rets[0] is not None else None,
                         "a normal return is reachable without passing the guard"))
    # cross-check with the dominator sets (same fact, computed the other way round)
    for (stmt, text) in se.items:
        if cfg.has_stmt(stmt):
            nid = cfg.node_of(stmt)
            if nid in pruned.dominators() and not pruned.dominates(gid, nid) and nid not in reach:
                raise AnalysisError("CFG: dominator and reachability queries disagree")
    return problems, g


def guards_ahead(fi, outcome, guard_stmts, passed):
    """For a run that stopped (or hit an effect) inside the entry point: which of `guard_stmts`
    (entry-level guard statements) are still reachable from the point where interpretation ended,
    in the CFG pruned by the decided tests, and were not already evaluated?"""
    es = outcome.entry_stmts()
    if not es:
        return list(guard_stmts)
    cfg = outcome.pruned_cfg(fi)
    cur = es[-1]
    if not cfg.has_stmt(cur):
        return list(guard_stmts)
    reach = cfg.reachable(cfg.node_of(cur))
    out = []
    for g in guard_stmts:
        if id(g) in passed:
            continue
        if cfg.has_stmt(g) and cfg.node_of(g) in reach:
            out.append(g)
    return out


# --------------------------------------------------------------------------------------
# "is this guard still ahead of the point where interpretation ended?"  (frames of the whole call stack)
# --------------------------------------------------------------------------------------

_LOCALS_CACHE = {}
_REACH_CACHE = {}


def _local_names(fi):
    key = id(fi.node)
    r = _LOCALS_CACHE.get(key)
    if r is None or r[0] is not fi.node:
        from .cfg import defined_names
        names = set(fi.params())
        for n in cfg_of(fi).stmt_nodes():
            if not isinstance(n.stmt, (ast.FunctionDef, ast.AsyncFunctionDef, ast.ClassDef, ast.Import, ast.ImportFrom)):
                names |= defined_names(n.stmt, n.kind)
        for sub in ast.walk(fi.node):
            if isinstance(sub, ast.comprehension):
                for t in ast.walk(sub.target):
                    if isinstance(t, ast.Name):
                        names.add(t.id)
            elif isinstance(sub, ast.Lambda):
                names |= {a.arg for a in sub.args.args}
        r = (fi.node, names)
        _LOCALS_CACHE[key] = r
    return r[1]


def _call_may_reach(program, fi, call, target, depth=0):
    """May this call (inside function fi) end up executing `target`?  Statically resolved repository callees are followed
    transitively; a call through a local variable / parameter (dispatch table entry, callback) may reach anything; calls of
    external library attributes and builtins reach no repository function."""
    callee = _resolve_static(program, fi, call)
    if callee is not None:
        return callee is target or callee.node is target.node or _func_may_reach(program, callee, target, depth + 1)
    f = call.func
    if isinstance(f, ast.Name) and f.id in _local_names(fi):
        return True
    if isinstance(f, (ast.Subscript, ast.Call, ast.IfExp)):
        return True             # table[key](...), factory()(...): dynamic
    return False


def _func_may_reach(program, fi, target, depth=0):
    key = (id(fi.node), id(target.node))
    if key in _REACH_CACHE:
        return _REACH_CACHE[key]
    if depth > 12:
        return True
    _REACH_CACHE[key] = False        # recursion guard (cycles)
    res = False
    for sub in ast.walk(fi.node):
        if isinstance(sub, ast.Call) and _call_may_reach(program, fi, sub, target, depth):
            res = True
            break
    _REACH_CACHE[key] = res
    return res


def guard_still_ahead(program, fi, outcome, G, F, node):
    """The run `outcome` of entry point fi ended (stop / implicit) somewhere on its call stack.  Can the guard site
    `node` (a raise/assert of function F; entry-level guard statement G) still be reached from there?
      * G is reachable strictly after the entry-level statement that is executing  -> yes
      * the run is still evaluating G itself at entry level (no callee frame)       -> yes
      * the run is inside callee frames of G: yes iff some frame may still execute F - F is that frame's function and
        the site is reachable from its current statement, or a statement still to run in that frame contains a call that
        may reach F (static call graph; calls through local variables are dynamic and may reach anything).  Calls of the
        statements currently executing in the lower frames are in progress (they ARE the upper frames)."""
    frames = {}
    for (d, f, st) in outcome.stack:
        frames[d] = (f, st)            # innermost statement per depth
    if 1 not in frames:
        return True
    depths = sorted(frames)
    top = depths[-1]
    for d in depths:
        f, cur = frames[d]
        if not isinstance(f, FuncInfo):
            return True
        cfg = outcome.pruned_cfg(f)
        if not cfg.has_stmt(cur):
            return True
        cid = cfg.node_of(cur)
        if d == top:
            reach = cfg.reachable(cid)
        else:
            reach = set()
            for (t, _lab) in cfg.successors(cid):
                reach |= cfg.reachable(t)
        if d == 1:
            if cfg.has_stmt(G):
                gid = cfg.node_of(G)
                if gid in reach:
                    return True          # strictly ahead (or, for a single frame, the statement being evaluated)
                if gid != cid:
                    return False         # G is neither ahead nor in progress: bypassed on this path
            # G is in progress in the callee frames: look at them
            if top == 1:
                return False
            continue
        if (f is F or f.node is F.node) and cfg.has_stmt(node) and cfg.node_of(node) in reach:
            return True
        for nid in reach:
            st = cfg.nodes[nid].stmt
            if st is None:
                continue
            for call in _calls_of_header(st):
                if _call_may_reach(program, f, call, F):
                    return True
    return False
