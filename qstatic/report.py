"""Reporting plumbing: obligations, findings, known-findings matching, evidence files."""
from __future__ import annotations

import json
import os
import time

from .src import AnalysisError, Program
from .alg import AlgebraTimeout

VERIF = os.path.dirname(os.path.dirname(os.path.abspath(__file__)))


class Finding:
    def __init__(self, prop, rule, where, construct, message, loc=None, detail=None):
        self.prop, self.rule, self.where, self.construct = prop, rule, where, construct
        self.message, self.loc, self.detail = message, loc, detail

    def key(self):
        return (self.prop, self.rule, self.where, self.construct)

    def as_dict(self):
        return {"property": self.prop, "rule": self.rule, "where": self.where, "construct": self.construct,
                "message": self.message, "loc": self.loc, "detail": self.detail}


class Ctx:
    """Per-run context handed to a rule module."""

    def __init__(self, prop, tier, root, seed=0, jobs=1):
        self.prop, self.tier, self.root, self.seed, self.jobs = prop, tier, root, seed, jobs
        self._program = None
        self.obligations = []      # dicts
        self.findings = []
        self.samples = []
        self.analysed = set()      # file::function strings
        self.instances = {}        # rule -> count of matched instances
        self.notes = {}
        self.assumptions = []
        self.scenario = ""             # label of the alternative scenario being analysed ("" = generic run)
        self.t0 = time.time()

    @property
    def program(self) -> Program:
        if self._program is None:
            self._program = Program(self.root)
        return self._program

    @property
    def thorough(self):
        return self.tier == "thorough"

    def touch(self, fi):
        self.analysed.add(fi.where if hasattr(fi, "where") else str(fi))

    def ob(self, rule, instance, ok, message="", where=None, construct=None, loc=None, detail=None, sample=False,
           generic_only=False):
        """Record one obligation. instance: short stable description of the checked construct.
        generic_only: the obligation speaks about the structure of the result on GENERIC input (e.g. "every component
        occurs"); it is skipped in alternative scenarios that specialise input symbols to zero."""
        if self.scenario:
            if generic_only and self.scenario.startswith("zero"):
                self.instances[rule] = self.instances.get(rule, 0) + 1      # matched, not judged in this scenario
                return True
            instance = f"{instance} [scenario {self.scenario}]"
            if not ok:
                message = f"{message} [in the alternative scenario {self.scenario}]"
        self.obligations.append({"rule": rule, "instance": instance, "ok": bool(ok)})
        self.instances[rule] = self.instances.get(rule, 0) + 1
        if sample or (len(self.samples) < 12 and not any(s["rule"] == rule for s in self.samples)):
            self.samples.append({"rule": rule, "instance": instance, "ok": bool(ok), "loc": loc, "where": where})
        if not ok:
            self.findings.append(Finding(self.prop, rule, where or "?", construct or instance, message, loc, detail))
        return ok

    def require_instances(self, rule, minimum):
        n = self.instances.get(rule, 0)
        if n < minimum and not self.findings:
            # (when findings exist the run already fails with VIOLATION lines; a reduced instance count is then
            #  usually a consequence of the reported defect, e.g. an interpretation that stopped early)
            raise AnalysisError(f"rule {rule} matched {n} instance(s), fewer than the {minimum} confirmed by reading "
                                f"(anchor vanished or idiom no longer recognised)")

    def assume(self, *texts):
        for t in texts:
            if t not in self.assumptions:
                self.assumptions.append(t)


_PAR = {}


def _par_worker(i):
    func, items, base = _PAR["job"]
    sub = Ctx(base.prop, base.tier, base.root, base.seed, 1)
    sub._program = base._program
    sub.scenario = base.scenario
    try:
        func(sub, items[i])
    except AnalysisError as e:
        return ("aerr", str(e))
    except AlgebraTimeout as e:
        return ("aerr", str(e))
    except Exception as e:     # pragma: no cover
        import traceback
        return ("err", f"{type(e).__name__}: {e}\n{traceback.format_exc()[-1500:]}")
    fs = [(f.prop, f.rule, f.where, f.construct, f.message, f.loc, None if f.detail is None else str(f.detail)[:800])
          for f in sub.findings]
    from .scenario import SCEN
    return ("ok", sub.obligations, fs, sub.samples, sorted(sub.analysed), sub.instances, sub.notes, sub.assumptions,
            list(SCEN.alts), SCEN.decisions)


def parallel(ctx, func, items, jobs=None):
    """Run func(sub_ctx, item) for every item in forked worker processes and merge obligations, findings and
    evidence into ctx (results are plain data; each worker re-derives everything from the parsed source)."""
    import multiprocessing as mp
    items = list(items)
    if not items:
        return
    jobs = max(1, min(jobs or ctx.jobs or 1, len(items)))
    _ = ctx.program          # parse once, before forking
    if jobs == 1:
        results = []
        _PAR["job"] = (func, items, ctx)
        results = [_par_worker(i) for i in range(len(items))]
    else:
        _PAR["job"] = (func, items, ctx)
        with mp.get_context("fork").Pool(jobs) as pool:
            results = pool.map(_par_worker, range(len(items)), chunksize=1)
    for r in results:
        if r[0] == "aerr":
            raise AnalysisError(r[1])
        if r[0] == "err":
            raise AnalysisError("worker failed: " + r[1])
        _, obs, fs, samples, analysed, instances, notes, assumptions, alts, ndec = r
        from .scenario import SCEN
        for a_ in alts:
            if a_ not in SCEN.alts:
                SCEN.alts.append(a_)
        SCEN.decisions += ndec if jobs > 1 else 0
        ctx.obligations.extend(obs)
        for f in fs:
            ctx.findings.append(Finding(*f))
        for s_ in samples:
            if len(ctx.samples) < 20:
                ctx.samples.append(s_)
        ctx.analysed.update(analysed)
        for k, v in instances.items():
            ctx.instances[k] = ctx.instances.get(k, 0) + v
        ctx.notes.update(notes)
        ctx.assume(*assumptions)


def load_known(path=None):
    path = path or os.path.join(VERIF, "known_findings.json")
    if not os.path.exists(path):
        return []
    return json.load(open(path))


def finish(ctx: Ctx, level="other", explanation="", write_evidence=True, evidence_dir=None, extra_cov=None):
    """Match findings against known_findings.json, print the report, write evidence, return exit code."""
    known = [k for k in load_known() if k.get("property") == ctx.prop]
    known_open = {(k["property"], k["rule"], k["where"], k["construct"]): k for k in known if k.get("status") == "known"}
    violations, kf = [], []
    seen = set()
    for f in ctx.findings:
        if f.key() in seen:
            continue
        seen.add(f.key())
        if f.key() in known_open:
            kf.append(f)
        else:
            violations.append(f)
    evidence_dir = evidence_dir or os.path.join(VERIF, "evidence")
    os.makedirs(os.path.join(evidence_dir, "replay"), exist_ok=True)
    for f in kf:
        print(f"KNOWN-FINDING: property={ctx.prop} {f.where} [{f.rule}] {f.construct} ({f.loc})")
    for i, f in enumerate(violations):
        rp = os.path.join(evidence_dir, "replay", f"{ctx.prop}-{i}.json")
        if write_evidence:
            with open(rp, "w") as fh:
                json.dump(f.as_dict(), fh, indent=1, default=str)
        print(f"FINDING {f.loc or ''} {f.where} rule={f.rule} construct={f.construct!r}: {f.message}")
        if f.detail:
            print(f"    detail: {str(f.detail)[:600]}")
        print(f"VIOLATION property={ctx.prop} replay={rp}")
    wall = time.time() - ctx.t0
    n_ob = len(ctx.obligations)
    n_ok = sum(1 for o in ctx.obligations if o["ok"])
    distinct = len({(o["rule"], o["instance"]) for o in ctx.obligations})
    cov = {
        "evaluations": n_ob,
        "distinct_nontrivial": distinct,
        "rule": "one evaluation = one statically checked obligation (rule instance on a construct of /repo's "
                "current source); distinct_nontrivial = distinct (rule, construct) pairs that matched real code",
        "samples": ctx.samples[:20],
        "obligations": n_ob,
        "discharged": n_ok,
        "explanation": explanation,
        "functions_analysed": sorted(ctx.analysed),
        "rule_instances": dict(sorted(ctx.instances.items())),
        "known_findings_rederived": [f.as_dict() for f in kf],
        "source_digest": ctx.program.digest() if ctx._program else None,
        "root": ctx.root,
        "exhaustive": False,
    }
    cov.update(ctx.notes)
    if extra_cov:
        cov.update(extra_cov)
    ev = {"property_id": ctx.prop, "tier": ctx.tier, "seed": int(ctx.seed), "level": level, "coverage": cov,
          "assumptions": ctx.assumptions, "wall_s": round(wall, 3), "violations": len(violations)}
    if write_evidence:
        with open(os.path.join(evidence_dir, f"{ctx.prop}.json"), "w") as fh:
            json.dump(ev, fh, indent=1, default=str)
    print(f"[{ctx.prop}] tier={ctx.tier} obligations={n_ob} discharged={n_ok} distinct={distinct} "
          f"known={len(kf)} violations={len(violations)} functions={len(ctx.analysed)} wall={wall:.2f}s")
    return 1 if violations else 0
