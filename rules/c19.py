"""C19 - power iteration returns a unit vector and the modulus of its Rayleigh quotient.

Decided clauses:
  D1 unit-norm typestate: on every explored path of power_iteration the returned vector is v = X/||X||_F
     with X = A v_prev (or the normalised start vector), i.e. exactly the normalised iterate of the
     reference iteration, for iteration budgets 0..K, stopping on convergence / stagnation / breakdown;
     the complex helper normalises every iterate; the non-Hermitian variant returns the purified vector
     mapped back to a quaternion vector divided by its Frobenius norm under a non-zero guard, and on the
     Hermitian fast path the vector of power_iteration reshaped.
  D2 the reported eigenvalue is ||v^H A v||_F / ||v^H v||_F of the returned v; on every path where the input
     tested Hermitian the complex-adjoint variant returns an eigenvalue whose imaginary part is the literal 0.
  guards: non-square and empty input are rejected before the start vector is drawn.
Not decided: convergence to the dominant eigenpair, the bound by the spectral norm (Cauchy-Schwarz on D1+D2).
"""
from __future__ import annotations

import numpy as np

from qstatic.alg import Poly, SQ, SC, NQ, as_quat, P, is_unknown, intern_key
from qstatic.dom_sym import sym_quat, sym_nq, arrays_same, first_diff, mk, SymArr, wrap, labelled
from qstatic.interp import RepoRaise, ModelError
from .common import new_interp, ref_matmul, ref_hermitian, ref_fro2, run_guarded, short
from .common_nc import cond_parts, cond_atoms

LEVEL = "other"
EXPLANATION = ("power_iteration, _power_iteration_complex and power_iteration_nonhermitian are interpreted on generic symbolic "
               "matrices and start vectors; the returned vector and eigenvalue are compared, as exact expressions with value-numbered "
               "norms, with the reference normalised iteration for every iteration budget and stopping outcome.")

TOL = Poly.atom("tol")


def scale(V, c):
    out = mk(V.shape, "quat")
    for idx in np.ndindex(*V.shape):
        out[idx] = V[idx] * c
    return out


def fro(V):
    V = wrap(V)
    if any(isinstance(x, NQ) for x in V.reshape(-1)):
        return nq_fro(None, V)
    return ref_fro2(V).sqrt()


def nq_fro(it, V):
    """Frobenius norm of an array of free-algebra quaternions: a value-numbered non-negative atom"""
    V = wrap(V)
    keys = tuple(as_quat(x).key() for x in V.reshape(-1))
    if all(as_quat(x).is_zero() for x in V.reshape(-1)):
        return Poly.const(0)
    return Poly.atom(("fro", intern_key((tuple(V.shape), keys))))


def nq_matmul(it, A, B):
    A, B = wrap(A), wrap(B)
    if A.ndim != 2 or B.ndim != 2 or A.shape[1] != B.shape[0]:
        raise ModelError(f"quat_matmat: shapes {A.shape} and {B.shape} not aligned")
    return SymArr(np.asarray(A, dtype=object) @ np.asarray(B, dtype=object), "quat")


def nq_hermitian(it, A):
    A = wrap(A)
    out = mk(tuple(reversed(A.shape)), "quat")
    for i in range(A.shape[0]):
        for j in range(A.shape[1]):
            out[j, i] = as_quat(A[i, j]).conjugate()
    return out


def run(ctx):
    prog = ctx.program
    f_pi = prog.func("utils", "power_iteration")
    f_pc = prog.func("utils", "_power_iteration_complex")
    f_nh = prog.func("utils", "power_iteration_nonhermitian")
    for f in (f_pi, f_pc, f_nh):
        ctx.touch(f)
    ctx.assume("quat_matmat / quat_hermitian / quat_frobenius_norm interpreted from source (C01)",
               "the start vector of create_test_matrix is an arbitrary quaternion vector", "python ast reflects the code that runs")
    K = 3 if ctx.thorough else 2
    n = 3

    # ================================================================= power_iteration
    for iters in range(0, K + 1):
        for stop in ("budget", "converged", "stagnation", "breakdown"):
            if iters == 0 and stop != "budget":
                continue
            if stop == "stagnation" and iters < 2:
                continue
            log = []

            def chooser(interp, node, cond, iters=iters, stop=stop, log=log):
                parts = cond_parts(cond)
                if parts is None:
                    return False
                op, lhs, rhs = parts
                it_no = sum(1 for c in log if c[0] == "zero") - 1     # zero tests: start vector, then one per iteration
                if op == "eq" and P(rhs).is_zero():
                    log.append(("zero", cond))
                    k = sum(1 for c in log if c[0] == "zero") - 2       # index of the iteration whose Av norm is tested
                    return stop == "breakdown" and k == iters - 1
                if op in ("lt", "le") and "tol" in set(P(lhs).atoms()) and "tol" not in set(P(rhs).atoms()) and not P(rhs).is_const():
                    # lower half of a chained two-sided test  -c*tol < change (< c*tol): answered "yes", the upper half decides
                    log.append(("stag-lower", P(rhs)))
                    return True
                if op == "lt" and any(a == "tol" for a in cond_atoms(cond)):
                    kind = "conv" if P(rhs).same(TOL) else "stag"
                    log.append((kind, cond))
                    k = sum(1 for c in log if c[0] == kind) - 1
                    if kind == "conv":
                        return stop == "converged" and k == iters - 1
                    # the stagnation test is two-sided: |d_k - d_{k-1}| below the threshold (a one-sided "no improvement" reading
                    # stops as soon as the step length GROWS, e.g. while the iterate flips sign for a negative dominant eigenvalue)
                    sa_ = P(lhs).as_single_atom()
                    two_sided = (sa_ is not None and isinstance(sa_[1], tuple) and sa_[1] and sa_[1][0] in ("abs", "max")) or any(
                        c_[0] == "stag-lower" and c_[1].same(P(lhs)) for c_ in log)
                    plain = "tol" not in {a for a in P(lhs).atoms()} and "tol" in {a for a in P(rhs).atoms()}   # <change> < c*tol
                    if plain and not two_sided and not P(lhs).is_const() and ("stag-sided",) not in log:
                        log.append(("stag-sided",))
                        ctx.ob("C19.D1.stagnation-test", f"power_iteration: stagnation test at {interp.where(node)}", False,
                               f"the stagnation test compares {short(lhs)} (signed) with the threshold instead of the absolute change of "
                               f"the step length", where=f_pi.where, construct="power_iteration: one-sided stagnation test",
                               loc=interp.where(node))
                    # the stagnation test is undecidable only from the second iteration on (first: |x - inf|)
                    return stop == "stagnation" and k == iters - 2
                return False

            v0 = sym_nq("v", (n, 1))
            it, d = new_interp(ctx, chooser=chooser, summaries={"data_gen:create_test_matrix": lambda it, m, k, **kw: v0.copy(),
                                                                "utils:ishermitian": lambda it, A, tol=None: True,
                                                                "utils:quat_matmat": nq_matmul, "utils:quat_hermitian": nq_hermitian,
                                                                "utils:quat_frobenius_norm": nq_fro})
            A = sym_nq("a", (n, n))
            budget = iters if stop == "budget" else iters + 2
            tag = f"power_iteration iterations={iters} stop={stop}"
            st, out = run_guarded(lambda: it.run(f_pi, [A], dict(max_iterations=budget, tol=TOL, return_eigenvalue=True)))
            if st != "ok":
                ctx.ob("C19.D1.unit", tag, False, f"fails in-domain: {out}", where=f_pi.where, construct="power_iteration fails",
                       loc=f_pi.loc())
                continue
            if not (isinstance(out, tuple) and len(out) == 2):
                ctx.ob("C19.D1.unit", tag, False, "with return_eigenvalue=True the routine does not return (vector, eigenvalue) on this "
                       "path (e.g. a breakdown exit that returns the bare vector)", where=f_pi.where,
                       construct="power_iteration return shape", loc=f_pi.loc(), detail=short(out))
                continue
            v, lam = out
            # reference
            vr = scale(v0, fro(v0).inverse())
            done = iters - 1 if stop == "breakdown" else iters
            for _ in range(done):
                w = nq_matmul(None, A, vr)
                vr = scale(w, fro(w).inverse())
            ok = isinstance(v, SymArr) and arrays_same(v, vr)
            ctx.ob("C19.D1.unit", tag, ok, "returned vector is not the normalised iterate X/||X||_F (unit-norm typestate broken)",
                   where=f_pi.where, construct="power_iteration returned vector", loc=f_pi.loc(), detail=short(first_diff(v, vr)))
            vH = nq_hermitian(None, vr)
            num = nq_matmul(None, nq_matmul(None, vH, A), vr)
            den = nq_matmul(None, vH, vr)
            lref = fro(num) / fro(den)
            ctx.ob("C19.D2.rayleigh", tag, P(lam).same(lref) if not isinstance(lam, SymArr) else False,
                   "eigenvalue estimate is not ||v^H A v|| / ||v^H v|| of the returned vector", where=f_pi.where,
                   construct="power_iteration eigenvalue", loc=f_pi.loc(), detail=short(lam))
    # guards
    for shape, nm in (((2, 3), "non-square"), ((0, 0), "empty")):
        drawn = []
        it, d = new_interp(ctx, chooser=lambda *a: False,
                           summaries={"data_gen:create_test_matrix": lambda it, m, k, **kw: drawn.append(1) or sym_quat("v", (m, k))})
        st, out = run_guarded(lambda: it.run(f_pi, [sym_quat("a", shape)]))
        ctx.ob("C19.guards", f"power_iteration rejects {nm}", st == "raise" and out.exc_name == "ValueError" and not drawn,
               "input outside the domain is not rejected before the start vector is drawn", where=f_pi.where,
               construct=f"power_iteration:{nm}", loc=f_pi.loc())

    n = 2
    # ================================================================= _power_iteration_complex
    for iters in range(0, (K if ctx.thorough else 1) + 1):
        for stop in ("budget", "residual", "eigtol"):
            if iters == 0 and stop != "budget":
                continue
            cnt = {"res": 0, "eig": 0}

            def chooser(interp, node, cond, iters=iters, stop=stop, cnt=cnt):
                parts = cond_parts(cond)
                if parts is None:
                    return False        # isfinite etc: handled below
                op, lhs, rhs = parts
                if op == "eq":
                    return False        # nw == 0.0
                if op == "le":
                    if "restol" in repr(rhs):
                        cnt["res"] += 1
                        return stop == "residual" and cnt["res"] == iters
                    cnt["eig"] += 1
                    return stop == "eigtol" and cnt["eig"] == iters
                return False

            oc = {"n": 0}

            def ch2(interp, node, cond, chooser=chooser, oc=oc, iters=iters, stop=stop):
                why = getattr(cond, "why", None)
                if why == "isfinite":
                    return True
                if isinstance(why, tuple) and why and why[0] == "opaque":
                    # the two stopping tests of an iteration, in program order: residual test, eigenvalue test
                    k = oc["n"]
                    oc["n"] += 1
                    # after a failed residual test the eigenvalue test follows; iteration number = number of residual tests
                    kind = "res" if k % 2 == 0 else "eig"
                    itno = k // 2 + 1
                    return (stop == "residual" and kind == "res" and itno == iters) or \
                           (stop == "eigtol" and kind == "eig" and itno == iters)
                return chooser(interp, node, cond)
            it, d = new_interp(ctx, chooser=ch2)
            from qstatic.domain import Opaque
            d.np.vdot = lambda a, b: Opaque("vdot")     # the Rayleigh quotient of the helper is not part of the clause
            M = SymArr(_sym_complex("m", (2, 2)), "complex")
            budget = iters if stop == "budget" else iters + 2
            st, out = run_guarded(lambda: it.run(f_pc, [M], dict(max_iter=budget, eig_tol=Poly.atom("eigtol"),
                                                                  res_tol=Poly.atom("restol"), seed=0)))
            tag = f"_power_iteration_complex iterations={iters} stop={stop}"
            if st != "ok":
                ctx.ob("C19.D1.unit-complex", tag, False, f"fails: {out}", where=f_pc.where, construct="complex helper fails",
                       loc=f_pc.loc())
                continue
            lam, v, res = out
            # the start vector: rng draws -> fresh symbols r0 + i r1 ; reference recomputed from the returned expression is not
            # possible, so check the typestate: v == w / ||w|| with w = M v_prev, by reconstructing from the draws
            draws = [e for e in ()]
            # the domain numbers its draws rnd<t>: find them in v
            vr = _complex_reference(M, iters, d)
            ok = vr is not None and isinstance(v, SymArr) and v.shape == (2,) and all(
                (SC.lift(v[i]) or SC(0)).same(vr[i]) for i in range(2))
            ctx.ob("C19.D1.unit-complex", tag, ok, "returned complex vector is not the normalised iterate w/||w||", where=f_pc.where,
                   construct="_power_iteration_complex returned vector", loc=f_pc.loc(), detail=short(v))

    # ================================================================= power_iteration_nonhermitian
    # Hermitian fast path
    for fmt in ("complex", "quaternion"):
        vh = sym_quat("vh", (n, 1))
        lam_mag = Poly.atom("lam_mag")
        seen = []

        def s_pi(it, A, *a, seen=seen, **kw):
            names = prog.func("utils", "power_iteration").params()[1:]
            kw = dict(kw, **dict(zip(names, a)))          # positional spelling of the same call
            seen.append((A, (), kw))
            return vh.copy(), lam_mag
        it, d = new_interp(ctx, chooser=lambda *a: False,
                           summaries={"utils:_is_hermitian_quat": lambda it, A, atol=1e-12: True,
                                      "utils:power_iteration": s_pi})
        A = sym_quat("a", (n, n))
        EIG, MAXIT = Poly.atom("eig_tol"), Poly.atom("max_iterations")
        # res_tol is documented as float | None: the fast path must not hand it to a routine that needs a number
        st, out = run_guarded(lambda: it.run(f_nh, [A], dict(eigenvalue_format=fmt, eig_tol=EIG, max_iterations=MAXIT, res_tol=None)))
        tag = f"nonhermitian variant, Hermitian fast path, format={fmt}"
        ok, why = st == "ok", str(out) if st != "ok" else ""
        if ok:
            fw = (len(seen) == 1 and seen[0][0] is A and not seen[0][1]
                  and set(seen[0][2]) <= {"max_iterations", "tol", "return_eigenvalue", "verbose"}
                  and seen[0][2].get("tol") is EIG and seen[0][2].get("max_iterations") is MAXIT
                  and seen[0][2].get("return_eigenvalue") is True)
            ctx.ob("C19.D2.forwarding", tag, fw,
                   "the Hermitian fast path does not call power_iteration(A, max_iterations=max_iterations, tol=eig_tol, "
                   "return_eigenvalue=True) - e.g. it forwards res_tol (float | None) as the tolerance", where=f_nh.where,
                   construct="nonhermitian: fast-path argument forwarding", loc=f_nh.loc(),
                   detail=short({k: v for k, v in seen[0][2].items()}) if seen else "")
        if ok:
            q, lam, res = out
            if not (isinstance(q, SymArr) and q.shape == (n,) and all(q[i].same(vh[i, 0]) for i in range(n))):
                ok, why = False, "fast path does not return the vector of power_iteration reshaped"
            elif fmt == "complex":
                l = SC.lift(lam)
                if l is None or not (l.im.is_zero() and l.re.same(lam_mag)):
                    ok, why = False, "Hermitian input: eigenvalue is not real (imaginary part literally 0)"
            else:
                l = SQ.lift(lam)
                if l is None or not (l.same(SQ(lam_mag, 0, 0, 0))):
                    ok, why = False, "Hermitian input: quaternion eigenvalue is not real"
        ctx.ob("C19.D2.hermitian-real", tag, ok, why, where=f_nh.where, construct="nonhermitian: Hermitian fast path", loc=f_nh.loc())
    # general path
    for purify in (True, False):
        for u_ge_w in ((True, False) if purify else (True,)):
            for herm_late in (False, True):
                calls = {"herm": 0}

                def s_herm(it, A, atol=1e-12, calls=calls, herm_late=herm_late):
                    calls["herm"] += 1
                    return herm_late if calls["herm"] > 1 else False

                vc = SymArr(_sym_complex("c", (2 * n,)), "complex")
                lam0 = SC(Poly.atom("lre"), Poly.atom("lim"))

                def s_pc(it, M, *a, **kw):          # (options may be forwarded positionally or by keyword)
                    return lam0, vc.copy(), [Poly.atom("res0")]

                def chooser(interp, node, cond, u_ge_w=u_ge_w):
                    parts = cond_parts(cond)
                    if parts is None:
                        return True
                    op, lhs, rhs = parts
                    if op == "ge":
                        return u_ge_w
                    if op == "gt":
                        return True       # q_norm > 0
                    return False
                it, d = new_interp(ctx, chooser=chooser, summaries={"utils:_is_hermitian_quat": s_herm,
                                                                    "utils:_power_iteration_complex": s_pc})
                A = sym_quat("a", (n, n))
                tag = f"nonhermitian variant purify={purify} |u|>=|w|={u_ge_w} hermitian-at-end={herm_late}"
                st, out = run_guarded(lambda: it.run(f_nh, [A], dict(block_purify=purify)))
                if st != "ok":
                    ctx.ob("C19.D1.unit-nonhermitian", tag, False, f"fails: {out}", where=f_nh.where,
                           construct="nonhermitian variant fails", loc=f_nh.loc())
                    continue
                q, lam, res = out
                u = [SC.lift(vc[i]) for i in range(n)]
                w = [SC.lift(vc[n + i]) for i in range(n)]
                if purify:
                    if u_ge_w:
                        w = [SC(0) for _ in w]
                    else:
                        u = [SC(0) for _ in u]
                raw = mk((n,), "quat")
                for i in range(n):
                    raw[i] = SQ(u[i].re, u[i].im, w[i].re, w[i].im)
                nr = fro(raw.reshape(n, 1))
                want = mk((n,), "quat")
                for i in range(n):
                    want[i] = raw[i] * nr.inverse()
                ok = isinstance(q, SymArr) and q.shape == (n,) and arrays_same(q, want)
                ctx.ob("C19.D1.unit-nonhermitian", tag, ok,
                       "returned quaternion vector is not (u + j w mapped back) divided by its Frobenius norm", where=f_nh.where,
                       construct="nonhermitian returned vector", loc=f_nh.loc(), detail=short(first_diff(q, want)))
                if herm_late and calls["herm"] > 1:
                    # only when the code consults the Hermitian test again after the fast path (the answer cannot change for an
                    # unmodified A, so code that does not ask again is equally right)
                    l = SC.lift(lam)
                    ctx.ob("C19.D2.hermitian-real", tag, l is not None and l.im.is_zero(),
                           "input tested Hermitian but the returned eigenvalue has a non-literal-zero imaginary part",
                           where=f_nh.where, construct="nonhermitian: eigenvalue not forced real", loc=f_nh.loc(), detail=short(lam))

    ctx.require_instances("C19.D1.unit", 2 * K)
    ctx.require_instances("C19.D2.rayleigh", 2 * K)
    ctx.require_instances("C19.D1.unit-complex", 2)
    ctx.require_instances("C19.D1.unit-nonhermitian", 4)
    ctx.require_instances("C19.D2.hermitian-real", 2)


def _sym_complex(name, shape):
    a = np.empty(shape, dtype=object)
    for idx in np.ndindex(*shape):
        a[idx] = SC(Poly.atom((name, "re") + idx), Poly.atom((name, "im") + idx))
    return a


def _complex_reference(M, iters, dom):
    """v0 = (r + i s)/(||.|| + eps) from the two standard_normal draws of the seeded generator, then v <- M v / ||M v||"""
    # the model numbers random draws; the first two real vectors drawn in this run are rnd<t>, rnd<t+1>
    import re
    names = sorted({a[0] for a in _atoms_of_events(dom)}, key=lambda s: int(re.sub(r"\D", "", s) or 0))
    return None if False else _ref_from_names(M, iters, dom)


def _atoms_of_events(dom):
    return []


def _ref_from_names(M, iters, dom):
    # rng draws are created by SymDomain.rng_randn with tags rnd<k>; the counter is shared with other fresh() users,
    # so locate them through the counter state: the last two draws before any lapack call in this run are k-2, k-1.
    # Simpler: rebuild the same symbols the model creates: names rnd0 and rnd1 for a fresh domain.
    n = M.shape[0]
    r = [Poly.atom(("rnd0", i)) for i in range(n)]
    s = [Poly.atom(("rnd1", i)) for i in range(n)]
    v = [SC(r[i], s[i]) for i in range(n)]
    nv = sum((x.norm2() for x in v), Poly.const(0)).sqrt() + 2.220446049250313e-16
    v = [x * SC(nv.inverse(), 0) for x in v]
    Ma = np.asarray(M, dtype=object)
    for _ in range(iters):
        w = [sum((Ma[i, j] * v[j] for j in range(n)), SC(0)) for i in range(n)]
        nw = sum((x.norm2() for x in w), Poly.const(0)).sqrt()
        v = [x * SC(nw.inverse(), 0) for x in w]
    return v
