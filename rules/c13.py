"""C13 - sketch-and-project, hybrid and CGNE solvers: truthful histories / flags, update formulas.

Decided clauses (matrix-word algebra E4, abstract interpretation of the four compute bodies):
  D1 history and flag truthfulness: on every explored path to `return`, the last element of the
     residual list is the proxy/residual expression evaluated at the RETURNED X (no update of X after
     it); `converged` is exactly `last <= self.tol` (False for an empty history); the proxy is
     ||Pi - X A Pi|| / ||Pi|| (column, hybrid), ||Theta - A X Theta|| / ||Theta|| (row) with the test
     sketch drawn once before the loop; CGNE reports ||I - X A|| / ||I|| of the returned X (the
     recurrence residual R equals I - X A in exact arithmetic).
  D2 atomic update in `try`: when the micro-solver fails (fault injected in the summary of qr_qua /
     the triangular solve / the SPD solve), the iteration leaves X and the history untouched.
  D3 update formulas: column step X + (Omega - X Y) Z with Y = A Omega and Z Y = I for both
     micro-solvers (Z = R^-1 U^H with Y = U R, U^H U = I;  Z = Gt^-1 Y^H with Gt = Y^H Y + eps I,
     eps a literal <= 1e-8, the symmetrisation being the identity because G^H = G in the algebra);
     row step X + Z^H (Z Z^H + eps I)^-1 (S^H - Z X), Z = S^H A; hyperpower X <- (I+F+...+F^(p-1)) X,
     F = I - X A, p = 2..8; CGNE recurrences with exact line search.
  D4 orientation guards dominate all work (m<n / m>n rejected before any sketch is drawn).
Not decided: soundness of the random proxy, cond-scaled accuracy, monotone residuals.
"""
from __future__ import annotations

import itertools

from qstatic.alg import Poly, P, UNKNOWN, is_unknown
from qstatic.dom_nc import QM, fro_atom
from qstatic.interp import Instance, RepoRaise, ModelError, NeedChoice
from .common_nc import new_nc, cond_canon as cond_parts, cond_atoms
from .common import run_guarded, short

LEVEL = "other"
EXPLANATION = ("compute_column_variant, compute_row_variant, HybridRSPNewtonSchulz.compute (with _rsp_step_column and "
               "_ns_hyperpower_right) and CGNEQSolver.compute are interpreted over a free *-algebra: sketches are fresh "
               "generators, QR / inverses are generators with the relations U^H U = I, R^-1 R = I; returned X, every "
               "history entry and the converged flag are compared as normal forms with the documented update formulas; "
               "micro-solver failures are injected to check that the try-body commits X as its last action.")

TOL = Poly.atom("tol")


class Fault(Exception):
    pass


def make_extra(fail_at=None, counter=None, spd_ok=True):
    """summaries for the micro-solvers; fail_at = (kind, index) injects a failure; spd_ok=False: the CG micro-solver reports failure
    and what it returns is an unconverged iterate - a fresh symbol unrelated to the solution, so any use of it shows in the results"""
    def extra(dom):
        ctx = dom.ctx
        inv_cache = {}
        counts = {"qr": 0, "tri": 0, "spd": 0, "inv": 0}
        dom.micro = []

        def get_inverse(V: QM):
            k = V.key()
            if k in inv_cache:
                return inv_cache[k]
            g = ctx.fresh("Inv", kind="quat")
            name = next(iter(g.terms))[0][0]
            single = None
            if len(V.nc.terms) == 1:
                (w, c), = V.nc.terms.items()
                if len(w) == 1 and c.same(1) and not w[0][1]:
                    single = w[0][0]
            if single:
                ctx.inverse_pair(single, name)
            q = QM(g, tuple(reversed(V.shape)) if V.shape else None, "quat")
            inv_cache[k] = q
            dom.micro.append(("inverse", V, q))
            return q

        def maybe_fail(kind):
            counts[kind] += 1
            if fail_at and fail_at[0] == kind and fail_at[1] == counts[kind] - 1:
                raise ModelError(f"injected failure of {kind} #{fail_at[1]}")

        def s_qr(it, Y):
            maybe_fail("qr")
            m, n = Y.shape
            r = min(m, n)
            U = QM(ctx.fresh("U", kind="quat", isometry=True), (m, r), "quat")
            R = QM(ctx.fresh("R", kind="quat"), (r, n), "quat")
            dom.micro.append(("qr", Y, U, R))
            return U, R

        def s_tri(it, R, B):
            maybe_fail("tri")
            inv = get_inverse(R)
            dom.micro.append(("trisolve", R, B))
            return inv.matmul(B)

        def s_spd(it, self_, G, B, tol=1e-8, max_iter=200):
            maybe_fail("spd")
            inv = get_inverse(G)
            dom.micro.append(("spd", G, B))
            if not spd_ok:
                junk = QM(ctx.fresh("CGfail", kind="quat"), (G.shape[1], B.shape[1]) if (G.shape and B.shape) else None, "quat")
                return (junk, UNKNOWN(("spd-ok", counts["spd"])))
            return (inv.matmul(B), UNKNOWN(("spd-ok", counts["spd"])))

        def s_inv_small(it, self_, A, ns_iters=12):
            counts["inv"] += 1
            inv = get_inverse(A)
            dom.micro.append(("ns-inverse", A))
            return inv

        return {
            "decomp.qsvd:qr_qua": s_qr,
            "solver:_solve_upper_triangular_quat": s_tri,
            "solver:RandomizedSketchProjectPseudoinverse._solve_spd_quat": s_spd,
            "solver:RandomizedSketchProjectPseudoinverse._invert_quat_small": s_inv_small,
        }
    return extra


def _A(dom, shape):
    return QM(dom.ctx.gen("A", kind="quat"), shape, "quat")


def _I(dom, n):
    return QM(dom.ctx.one(), (n, n), "quat")


def small_ridge(V: QM, G: QM):
    """V == G + eps*I with a literal 0 <= eps <= 1e-8 ?  (G must be Hermitian in the algebra)"""
    if not G.adj().same(G):
        return False, "Gram matrix is not Hermitian in the algebra"
    d = V.nc - G.nc
    if d.is_zero():
        return True, "no ridge"
    if list(d.terms) == [()]:
        c = d.terms[()]
        if c.is_const() and 0 <= c.const_value() <= 1e-8:
            return True, f"ridge {float(c.const_value())}"
    return False, f"regularised Gram matrix differs from G by {d!r}"


def flag_ok(flag, last, dec_log):
    """converged must be exactly (last <= tol)"""
    if last is None:
        return flag is False, "flag must be False for an empty history"
    if is_unknown(flag):
        parts = cond_parts(flag)
        ok = parts is not None and parts[0] in ("le", "lt") and P(parts[1]).same(last) and P(parts[2]).same(TOL)
        return ok, "flag is not the comparison last <= tol"
    if isinstance(flag, bool):
        # decided through the chooser: find the deciding condition
        for cond, node, d in reversed(dec_log):
            parts = cond_parts(cond)
            if parts and parts[0] in ("le", "lt") and P(parts[1]).same(last) and P(parts[2]).same(TOL):
                return flag == d, "flag differs from the outcome of last <= tol"
        return False, "flag is not derived from the comparison last <= tol of the returned iterate"
    return False, f"flag has unexpected value {flag!r}"


def run(ctx):
    prog = ctx.program
    # constructor clause: the configuration reaches the methods unchanged (the rule builds its objects from attribute values)
    from .common import check_ctor_verbatim
    check_ctor_verbatim(ctx, "solver", "RandomizedSketchProjectPseudoinverse", "C13.D0.config")
    check_ctor_verbatim(ctx, "solver", "HybridRSPNewtonSchulz", "C13.D0.config")
    check_ctor_verbatim(ctx, "solver", "CGNEQSolver", "C13.D0.config")
    c_rsp = prog.cls("solver", "RandomizedSketchProjectPseudoinverse")
    c_hyb = prog.cls("solver", "HybridRSPNewtonSchulz")
    c_cg = prog.cls("solver", "CGNEQSolver")
    f_col = prog.func("solver", "RandomizedSketchProjectPseudoinverse.compute_column_variant")
    f_row = prog.func("solver", "RandomizedSketchProjectPseudoinverse.compute_row_variant")
    f_disp = prog.func("solver", "RandomizedSketchProjectPseudoinverse.compute")
    f_hyb = prog.func("solver", "HybridRSPNewtonSchulz.compute")
    f_step = prog.func("solver", "HybridRSPNewtonSchulz._rsp_step_column")
    f_hp = prog.func("solver", "HybridRSPNewtonSchulz._ns_hyperpower_right")
    f_cg = prog.func("solver", "CGNEQSolver.compute")
    for f in (f_col, f_row, f_disp, f_hyb, f_step, f_hp, f_cg):
        ctx.touch(f)
    ctx.assume("quat_matmat / quat_hermitian / quat_frobenius_norm / quat_eye are product / adjoint / norm / identity (C01, C15)",
               "qr_qua returns Y = U R with U^H U = I and the triangular / SPD micro-solvers apply the inverse (C06, C16 "
               "decide their structural clauses); exact arithmetic", "python ast reflects the code that runs")
    ITERS = 3 if ctx.thorough else 2

    # ================================================================= column variant
    def col_reference(dom, A, X0, solver, iters_done, skip=()):
        """replay the recorded micro-events to build the expected X after the performed iterations"""
        return None

    for solver in ("qr", "spd"):
        for stop_at in [None, 0] + ([1] if ctx.thorough else []):
            for fail in [None] + ([("qr", 0)] if solver == "qr" else [("spd", 0)]) + \
                    ([("tri", 1)] if solver == "qr" else []):
                for spd_ok in ([True, False] if solver == "spd" else [True]):
                    stops = []

                    def policy(cond, node, interp, dec, stop_at=stop_at, stops=stops, spd_ok=spd_ok):
                        why = getattr(cond, "why", None)
                        if isinstance(why, tuple) and why and why[0] == "spd-ok":
                            return spd_ok
                        parts = cond_parts(cond)
                        if parts and any(a == "tol" for a in cond_atoms(cond)):
                            stops.append(cond)
                            return stop_at is not None and len(stops) - 1 == stop_at
                        return None

                    it, dom, dec = new_nc(ctx, policy, make_extra(fail, spd_ok=spd_ok))
                    A = _A(dom, (3, 2))
                    inst = Instance(c_rsp, dict(block_size=2, max_iter=ITERS, tol=TOL, test_sketch_size=2, verbose=False,
                                                seed=None, column_solver=solver))
                    tag = f"column[{solver}] stop={stop_at} fail={fail} spd_ok={spd_ok}"
                    st, out = run_guarded(lambda: it.run(f_col, [A], bound_self=inst))
                    if st != "ok":
                        ctx.ob("C13.D3.column-step", tag, False, f"compute_column_variant fails: {out}", where=f_col.where,
                               construct="column variant fails", loc=f_col.loc())
                        continue
                    X, info = out
                    sketches = [e for e in dom.events if e[0] == "sketch"]
                    if len(sketches) < 1:
                        ctx.ob("C13.D1.proxy", tag, False, "no test sketch drawn", where=f_col.where,
                               construct="column: test sketch", loc=f_col.loc())
                        continue
                    Pi = QM(sketches[0][1], sketches[0][2], "quat")
                    omegas = [QM(e[1], e[2], "quat") for e in sketches[1:]]
                    # expected X: replay
                    nA = fro_atom(A)
                    Xe = None
                    # initial iterate: alpha*A^H, alpha = 1/max(||A||^2, tiny) or 1/||A||^2
                    micro = list(dom.micro)
                    exp_hist = []
                    # derive X0 from a zero-iteration run
                    it0, dom0, dec0 = new_nc(ctx, policy, make_extra(None))
                    A0 = _A(dom0, (3, 2))
                    inst0 = Instance(c_rsp, dict(block_size=2, max_iter=0, tol=TOL, test_sketch_size=2, verbose=False,
                                                 seed=None, column_solver=solver))
                    st0, out0 = run_guarded(lambda: it0.run(f_col, [A0], bound_self=inst0))
                    if st0 != "ok" or list(out0[0].nc.terms) != [(("A", True),)]:
                        ctx.ob("C13.D3.init", tag, False, "initial iterate is not a multiple of A^H", where=f_col.where,
                               construct="column: initial iterate", loc=f_col.loc())
                        continue
                    alpha = out0[0].nc.terms[(("A", True),)]
                    Xcur = A.adj() * alpha
                    n_done = 0
                    ok_step, why = True, ""
                    mi = 0
                    hist = info.get("residual_norms") if isinstance(info, dict) else None
                    for k, Om in enumerate(omegas):
                        Y = A.matmul(Om)
                        failed_here = False
                        if solver == "qr":
                            # next micro events: qr (unless injected failure), trisolve
                            qr_ev = micro[mi] if mi < len(micro) and micro[mi][0] == "qr" else None
                            if fail == ("qr", k) or qr_ev is None:
                                failed_here = True
                            else:
                                _, Yarg, U, R = qr_ev
                                mi += 1
                                if not Yarg.same(Y):
                                    ok_step, why = False, "qr_qua is not applied to Y = A*Omega"
                                    break
                                if fail == ("tri", k):
                                    failed_here = True
                                else:
                                    if mi + 1 < len(micro) + 1 and micro[mi][0] == "inverse":
                                        inv_ev = micro[mi]
                                        mi += 1
                                    else:
                                        inv_ev = None
                                    tri = micro[mi] if mi < len(micro) and micro[mi][0] == "trisolve" else None
                                    if tri is None:
                                        ok_step, why = False, "no triangular solve after the QR"
                                        break
                                    mi += 1
                                    if not (tri[1].same(R) and tri[2].same(U.adj())):
                                        ok_step, why = False, "triangular solve is not R Z = U^H with the factors of Y"
                                        break
                                    inv = [m_ for m_ in micro if m_[0] == "inverse" and m_[1].same(R)][0][2]
                                    Z = inv.matmul(U.adj())
                                    # Z Y = I given Y = U R
                                    if not Z.matmul(U.matmul(R)).same(_I(dom, Z.shape[0])):
                                        ok_step, why = False, "Z*Y != I for the QR micro-solver"
                                        break
                        else:
                            if fail == ("spd", k):
                                failed_here = True
                            else:
                                G = Y.adj().matmul(Y)
                                invs = [m_ for m_ in micro[mi:] if m_[0] == "inverse"]
                                spd = [m_ for m_ in micro[mi:] if m_[0] == "spd"]
                                if not spd:
                                    ok_step, why = False, "SPD micro-solver not called"
                                    break
                                Garg, Barg = spd[0][1], spd[0][2]
                                okr, msg = small_ridge(Garg, G)
                                if not okr:
                                    ok_step, why = False, "SPD solve: " + msg
                                    break
                                if not Barg.same(Y.adj()):
                                    ok_step, why = False, "SPD solve right-hand side is not Y^H"
                                    break
                                inv = [m_ for m_ in micro if m_[0] == "inverse" and m_[1].same(Garg)][0][2]
                                if not spd_ok:
                                    nsi = [m_ for m_ in micro[mi:] if m_[0] == "ns-inverse"]
                                    if not nsi or not nsi[0][1].same(Garg):
                                        ok_step, why = False, "fallback inverse is not applied to the same Gram matrix"
                                        break
                                Z = inv.matmul(Y.adj())
                                # advance mi past this iteration's events
                                while mi < len(micro) and micro[mi][0] in ("inverse", "spd", "ns-inverse"):
                                    mi += 1
                                    if micro[mi - 1][0] == "spd" and spd_ok:
                                        break
                                    if micro[mi - 1][0] == "ns-inverse":
                                        break
                        if not failed_here:
                            Xcur = Xcur + (Om - Xcur.matmul(Y)).matmul(Z)
                            exp_hist.append(fro_atom(Pi - Xcur.matmul(A).matmul(Pi)) / fro_atom(Pi))
                            n_done += 1
                    ctx.ob("C13.D3.column-step", tag, ok_step and isinstance(X, QM) and X.same(Xcur),
                           why or "returned X is not X + (Omega - X Y) Z accumulated over the performed iterations "
                                  "(failed iterations must leave X untouched)",
                           where=f_col.where, construct=f"column[{solver}] update", loc=f_col.loc(), detail=short(X))
                    hok = isinstance(hist, list) and len(hist) == len(exp_hist) and all(P(a).same(b) for a, b in zip(hist, exp_hist))
                    ctx.ob("C13.D1.proxy", tag, hok,
                           "residual history is not ||Pi - X A Pi||/||Pi|| of the successive iterates, ending with the returned X",
                           where=f_col.where, construct=f"column[{solver}] history", loc=f_col.loc(),
                           detail=short(hist))
                    if fail is not None:
                        ctx.ob("C13.D2.atomic", tag, hok and isinstance(X, QM) and X.same(Xcur),
                               "a failing micro-solver leaves X or the history modified", where=f_col.where,
                               construct=f"column[{solver}] try-body", loc=f_col.loc())
                    fo, fw = flag_ok(info.get("converged"), exp_hist[-1] if exp_hist else None, dec.log)
                    ctx.ob("C13.D1.flag", tag, fo, fw, where=f_col.where, construct=f"column[{solver}] converged flag",
                           loc=f_col.loc(), detail=short(info.get("converged")))
                    ctx.ob("C13.D1.iterations", tag, info.get("iterations") == len(exp_hist),
                           "iterations does not count the history entries", where=f_col.where,
                           construct="column iterations", loc=f_col.loc())

    # ================================================================= row variant
    for stop_at in [None, 0]:
        for spd_ok in (True, False):
            for fail in (None,):
                stops = []

                def policy(cond, node, interp, dec, stop_at=stop_at, stops=stops, spd_ok=spd_ok):
                    why = getattr(cond, "why", None)
                    if isinstance(why, tuple) and why and why[0] == "spd-ok":
                        return spd_ok
                    if cond_parts(cond) and any(a == "tol" for a in cond_atoms(cond)):
                        stops.append(cond)
                        return stop_at is not None and len(stops) - 1 == stop_at
                    return None

                it, dom, dec = new_nc(ctx, policy, make_extra(fail, spd_ok=spd_ok))
                A = _A(dom, (2, 3))
                inst = Instance(c_rsp, dict(block_size=2, max_iter=ITERS, tol=TOL, test_sketch_size=2, verbose=False,
                                            seed=None, column_solver="qr"))
                tag = f"row stop={stop_at} spd_ok={spd_ok}"
                st, out = run_guarded(lambda: it.run(f_row, [A], bound_self=inst))
                if st != "ok":
                    ctx.ob("C13.D3.row-step", tag, False, f"compute_row_variant fails: {out}", where=f_row.where,
                           construct="row variant fails", loc=f_row.loc())
                    continue
                X, info = out
                sketches = [e for e in dom.events if e[0] == "sketch"]
                Theta = QM(sketches[0][1], sketches[0][2], "quat")
                Ss = [QM(e[1], e[2], "quat") for e in sketches[1:]]
                Xcur = QM(dom.ctx.zero(), (3, 2), "quat")
                micro = list(dom.micro)
                ok_step, why = True, ""
                exp_hist = []
                for S in Ss:
                    SH = S.adj()
                    Z = SH.matmul(A)
                    G = Z.matmul(Z.adj())
                    spd = [m_ for m_ in micro if m_[0] == "spd" and small_ridge(m_[1], G)[0]]
                    if not spd:
                        ok_step, why = False, "SPD solve is not applied to Z Z^H (+ tiny ridge)"
                        break
                    Garg, Barg = spd[0][1], spd[0][2]
                    if not Barg.same(SH - Z.matmul(Xcur)):
                        ok_step, why = False, "right-hand side is not S^H - Z X"
                        break
                    inv = [m_ for m_ in micro if m_[0] == "inverse" and m_[1].same(Garg)][0][2]
                    if not spd_ok and not any(m_[0] == "ns-inverse" and m_[1].same(Garg) for m_ in micro):
                        ok_step, why = False, "fallback inverse is not applied to the same Gram matrix"
                        break
                    Xcur = Xcur + Z.adj().matmul(inv.matmul(SH - Z.matmul(Xcur)))
                    exp_hist.append(fro_atom(Theta - A.matmul(Xcur).matmul(Theta)) / dom.sym_minmax("max", [fro_atom(Theta), Poly.const(1e-30)]))
                ctx.ob("C13.D3.row-step", tag, ok_step and isinstance(X, QM) and X.same(Xcur),
                       why or "returned X is not X + Z^H (Z Z^H)^-1 (S^H - Z X) accumulated", where=f_row.where,
                       construct="row update", loc=f_row.loc(), detail=short(X))
                hist = info.get("residual_norms")
                alt = [fro_atom(Theta - A.matmul(x)) for x in []]
                hok = isinstance(hist, list) and len(hist) == len(exp_hist) and all(
                    P(a).same(b) or P(a * dom.sym_minmax("max", [fro_atom(Theta), Poly.const(1e-30)])).same(b * fro_atom(Theta))
                    for a, b in zip(hist, exp_hist))
                ctx.ob("C13.D1.proxy", tag, hok,
                       "residual history is not ||Theta - A X Theta||/||Theta|| of the successive iterates", where=f_row.where,
                       construct="row history", loc=f_row.loc(), detail=short(hist))
                last = hist[-1] if hist else None
                fo, fw = flag_ok(info.get("converged"), last, dec.log)
                ctx.ob("C13.D1.flag", tag, fo, fw, where=f_row.where, construct="row converged flag", loc=f_row.loc())

    # dispatcher: m >= n -> column, else row; orientation guards
    for shape, want in [((3, 2), "col"), ((2, 2), "col"), ((2, 3), "row")]:
        called = []

        def extra(dom, called=called):
            return {"solver:RandomizedSketchProjectPseudoinverse.compute_column_variant": lambda it, s, A: called.append("col") or ("X", {}),
                    "solver:RandomizedSketchProjectPseudoinverse.compute_row_variant": lambda it, s, A: called.append("row") or ("X", {})}
        it, dom, dec = new_nc(ctx, lambda *a: None, extra)
        A = _A(dom, shape)
        inst = Instance(c_rsp, dict(block_size=2, max_iter=1, tol=TOL, test_sketch_size=2, verbose=False, seed=None,
                                    column_solver="qr"))
        st, out = run_guarded(lambda: it.run(f_disp, [A], bound_self=inst))
        ctx.ob("C13.D4.dispatch", f"compute dispatch {shape}", st == "ok" and called == [want],
               "compute() does not dispatch tall/square to the column and wide to the row variant", where=f_disp.where,
               construct="rsp dispatch", loc=f_disp.loc())
    for f, cls, shape, nm in [(f_col, c_rsp, (2, 3), "column"), (f_row, c_rsp, (3, 2), "row"), (f_hyb, c_hyb, (2, 3), "hybrid"),
                              (f_cg, c_cg, (2, 3), "cgne")]:
        it, dom, dec = new_nc(ctx, lambda *a: None, make_extra(None))
        A = _A(dom, shape)
        attrs = dict(block_size=2, max_iter=1, tol=TOL, test_sketch_size=2, verbose=False, seed=None, column_solver="qr",
                     r=2, p=2, T=1, preconditioner_rank=0)
        inst = Instance(cls, attrs)
        st, out = run_guarded(lambda: it.run(f, [A], bound_self=inst))
        ok = st == "raise" and out.exc_name == "ValueError" and not dom.events
        ctx.ob("C13.D4.orientation", f"{nm} rejects wrong orientation before any work", ok,
               "wrong orientation is not rejected with ValueError before the first sketch / product", where=f.where,
               construct=f"{nm} orientation guard", loc=f.loc())

    # ================================================================= hyperpower
    for p in range(2, 9 if ctx.thorough else 6):
        it, dom, dec = new_nc(ctx, lambda *a: None, make_extra(None))
        A = _A(dom, (3, 2))
        X = QM(dom.ctx.gen("X", kind="quat"), (2, 3), "quat")
        inst = Instance(c_hyb, dict(r=2, p=p, T=1, tol=TOL, max_iter=1, verbose=False, seed=None, column_solver="qr"))
        st, out = run_guarded(lambda: it.run(f_hp, [A, X], bound_self=inst))
        I = _I(dom, 2)
        F = I - X.matmul(A)
        S, Fp = I, I
        for _ in range(1, p):
            Fp = Fp.matmul(F)
            S = S + Fp
        ctx.ob("C13.D3.hyperpower", f"hyperpower order {p}", st == "ok" and isinstance(out, QM) and out.same(S.matmul(X)),
               "hyperpower step is not (I + F + ... + F^(p-1)) X with F = I - X A", where=f_hp.where,
               construct="hyperpower update", loc=f_hp.loc(), detail=short(out))

    # ================================================================= hybrid compute
    for solver in ("qr", "spd"):
        for stop_at in (None, 0):
            stops = []

            def policy(cond, node, interp, dec, stop_at=stop_at, stops=stops):
                why = getattr(cond, "why", None)
                if isinstance(why, tuple) and why and why[0] == "spd-ok":
                    return True
                if cond_parts(cond) and any(a == "tol" for a in cond_atoms(cond)):
                    stops.append(cond)
                    return stop_at is not None and len(stops) - 1 == stop_at
                return None

            it, dom, dec = new_nc(ctx, policy, make_extra(None))
            A = _A(dom, (3, 2))
            T_, MAXIT, p = (1, 2, 2) if stop_at is None else (2, 2, 3)
            inst = Instance(c_hyb, dict(r=2, p=p, T=T_, tol=TOL, max_iter=MAXIT, verbose=False, seed=None, column_solver=solver))
            tag = f"hybrid[{solver}] stop={stop_at}"
            st, out = run_guarded(lambda: it.run(f_hyb, [A], bound_self=inst))
            if st != "ok":
                ctx.ob("C13.D3.hybrid", tag, False, f"hybrid compute fails: {out}", where=f_hyb.where,
                       construct="hybrid compute fails", loc=f_hyb.loc())
                continue
            X, info = out
            sketches = [e for e in dom.events if e[0] == "sketch"]
            Pi = QM(sketches[0][1], sketches[0][2], "quat")
            omegas = [QM(e[1], e[2], "quat") for e in sketches[1:]]
            micro = list(dom.micro)
            it0, dom0, dec0 = new_nc(ctx, policy, make_extra(None))
            A0 = _A(dom0, (3, 2))
            inst0 = Instance(c_hyb, dict(r=2, p=p, T=T_, tol=TOL, max_iter=0, verbose=False, seed=None, column_solver=solver))
            st0, out0 = run_guarded(lambda: it0.run(f_hyb, [A0], bound_self=inst0))
            if st0 != "ok" or list(out0[0].nc.terms) != [(("A", True),)]:
                ctx.ob("C13.D3.init", tag, False, "initial iterate is not a multiple of A^H", where=f_hyb.where,
                       construct="hybrid: initial iterate", loc=f_hyb.loc())
                continue
            Xcur = A.adj() * out0[0].nc.terms[(("A", True),)]
            Pin = dom.sym_minmax("max", [fro_atom(Pi), Poly.const(1e-30)])
            I = _I(dom, 2)
            exp_hist = []
            qi = 0
            qrs = [m_ for m_ in micro if m_[0] == "qr"]
            spds = [m_ for m_ in micro if m_[0] == "spd"]
            oi = 0
            ok_step, why = True, ""
            done = False
            steps = 0
            while steps < MAXIT and not done and oi < len(omegas):
                for _ in range(T_):
                    if oi >= len(omegas):
                        break
                    Om = omegas[oi]
                    Y = A.matmul(Om)
                    if solver == "qr":
                        _, Yarg, U, R = qrs[oi]
                        if not Yarg.same(Y):
                            ok_step, why = False, "qr_qua is not applied to Y = A*Omega"
                        inv = [m_ for m_ in micro if m_[0] == "inverse" and m_[1].same(R)][0][2]
                        Z = inv.matmul(U.adj())
                    else:
                        Garg = spds[oi][1]
                        okr, msg = small_ridge(Garg, Y.adj().matmul(Y))
                        if not okr or not spds[oi][2].same(Y.adj()):
                            ok_step, why = False, "SPD solve: " + msg
                        inv = [m_ for m_ in micro if m_[0] == "inverse" and m_[1].same(Garg)][0][2]
                        Z = inv.matmul(Y.adj())
                    Xcur = Xcur + (Om - Xcur.matmul(Y)).matmul(Z)
                    oi += 1
                    steps += 1
                F = I - Xcur.matmul(A)
                S, Fp = I, I
                for _ in range(1, p):
                    Fp = Fp.matmul(F)
                    S = S + Fp
                Xcur = S.matmul(Xcur)
                exp_hist.append(fro_atom(Pi - Xcur.matmul(A).matmul(Pi)) / Pin)
                if stop_at is not None and len(exp_hist) - 1 == stop_at:
                    done = True
            ctx.ob("C13.D3.hybrid", tag, ok_step and isinstance(X, QM) and X.same(Xcur),
                   why or "returned X is not T sketch-and-project steps followed by one hyperpower step per cycle",
                   where=f_hyb.where, construct=f"hybrid[{solver}] composition", loc=f_hyb.loc(), detail=short(X))
            hist = info.get("residual_norms")
            hok = isinstance(hist, list) and len(hist) == len(exp_hist) and all(P(a).same(b) for a, b in zip(hist, exp_hist))
            ctx.ob("C13.D1.proxy", tag, hok, "hybrid history is not ||Pi - X A Pi||/||Pi|| after each cycle, ending with the returned X",
                   where=f_hyb.where, construct=f"hybrid[{solver}] history", loc=f_hyb.loc(), detail=short(hist))
            fo, fw = flag_ok(info.get("converged"), exp_hist[-1] if exp_hist else None, dec.log)
            ctx.ob("C13.D1.flag", tag, fo, fw, where=f_hyb.where, construct=f"hybrid[{solver}] converged flag", loc=f_hyb.loc())

    # ================================================================= CGNE
    for iters in range(1, ITERS + 1):
        for stop_last in (False, True):
            stops = []
            breaks = []

            def policy(cond, node, interp, dec, iters=iters, stop_last=stop_last, stops=stops, breaks=breaks):
                parts = cond_parts(cond)
                if parts and any(a == "tol" for a in cond_atoms(cond)):
                    stops.append(cond)
                    return stop_last and len(stops) == iters
                if parts and parts[0] in ("le", "lt") and P(parts[2]).is_const():
                    breaks.append(parts)
                    return False          # breakdown test Wn <= 1e-20: not taken
                return None

            it, dom, dec = new_nc(ctx, policy, make_extra(None))
            A = _A(dom, (3, 2))
            inst = Instance(c_cg, dict(tol=TOL, max_iter=iters, verbose=False, preconditioner_rank=0, seed=None))
            tag = f"cgne iters={iters} stop_last={stop_last}"
            st, out = run_guarded(lambda: it.run(f_cg, [A], bound_self=inst))
            if st != "ok":
                ctx.ob("C13.D3.cgne", tag, False, f"CGNE compute fails: {out}", where=f_cg.where, construct="cgne fails",
                       loc=f_cg.loc())
                continue
            X, info = out
            it0, dom0, dec0 = new_nc(ctx, policy, make_extra(None))
            A0 = _A(dom0, (3, 2))
            st0, out0 = run_guarded(lambda: it0.run(f_cg, [A0], bound_self=Instance(
                c_cg, dict(tol=TOL, max_iter=0, verbose=False, preconditioner_rank=0, seed=None))))
            if st0 != "ok" or list(out0[0].nc.terms) != [(("A", True),)]:
                ctx.ob("C13.D3.init", tag, False, "initial iterate is not a multiple of A^H", where=f_cg.where,
                       construct="cgne: initial iterate", loc=f_cg.loc())
                continue
            I = _I(dom, 2)
            if iters == 1 and not stop_last:
                # breakdown guard of the exact line search: it must test the norm the step length divides by, ||W|| = ||D A||, with an
                # effective threshold no larger than the confirmed 1e-20 (a threshold on ||W||^k bounds ||W|| by c^(1/k): testing the
                # SQUARE against the same constant gives up on every badly scaled, perfectly conditioned input)
                X0c = A.adj() * out0[0].nc.terms[(("A", True),)]
                Wn0 = fro_atom((I - X0c.matmul(A)).matmul(A.adj()).matmul(A))
                okb, whyb = bool(breaks), "no breakdown test guards the division by ||W||^2"
                if breaks:
                    op, lhs, rhs = breaks[0]
                    c = float(P(rhs).const_value())
                    eff = None
                    for e in (1, 2, 3, 4):
                        if P(lhs).same(Wn0 ** e):
                            eff = c ** (1.0 / e) if c > 0 else 0.0
                    if eff is None:
                        okb, whyb = False, f"the breakdown test concerns {short(lhs)}, not (a power of) ||W|| = ||D A||"
                    elif eff > 1e-20 * (1 + 1e-9):
                        okb, whyb = False, (f"the breakdown test stops the iteration as soon as ||W|| <= {eff:.3g} (confirmed threshold: "
                                            f"1e-20): well-conditioned inputs with small entries are abandoned unconverged")
                ctx.ob("C13.D3.cgne-breakdown", "cgne breakdown guard", okb, whyb, where=f_cg.where,
                       construct="cgne: breakdown threshold", loc=f_cg.loc())
            matched = False
            for beta_reg in (True, False):
                Xc = A.adj() * out0[0].nc.terms[(("A", True),)]
                R = I - Xc.matmul(A)
                Z = R.matmul(A.adj())
                D = Z
                hist = []
                for k in range(iters):
                    W = D.matmul(A)
                    Zn, Wn = fro_atom(Z), fro_atom(W)
                    a = (Zn * Zn) / (Wn * Wn)
                    Xc = Xc + D * a
                    R = R - W * a
                    hist.append(fro_atom(I - Xc.matmul(A)))
                    Zn_new_m = R.matmul(A.adj())
                    Znn = fro_atom(Zn_new_m)
                    den = dom.sym_minmax("max", [Zn * Zn, Poly.const(1e-30)]) if beta_reg else Zn * Zn
                    b = (Znn * Znn) / den
                    D = Zn_new_m + D * b
                    Z = Zn_new_m
                if isinstance(X, QM) and X.same(Xc):
                    matched = True
                    break
            ctx.ob("C13.D3.cgne", tag, matched, "returned X is not the CGNE iterate (X += a D, R -= a D A, Z = R A^H, "
                   "D = Z' + b D, a = ||Z||^2/||W||^2, b = ||Z'||^2/||Z||^2)", where=f_cg.where,
                   construct="cgne recurrence", loc=f_cg.loc(), detail=short(X))
            rn = info.get("residual_norms")
            Inorm = fro_atom(I)
            hok = matched and isinstance(rn, list) and len(rn) == iters and all(
                (P(v) * Inorm).same(h) or (P(v) * dom.sym_minmax("max", [Inorm, Poly.const(1e-30)])).same(h)
                for v, h in zip(rn, hist))
            ctx.ob("C13.D1.proxy", tag, hok, "reported residual is not ||I - X A||/||I|| of the successive iterates "
                   "(the last one being the returned X)", where=f_cg.where, construct="cgne history", loc=f_cg.loc(),
                   detail=short(rn))
            fo, fw = flag_ok(info.get("converged"), rn[-1] if rn else None, dec.log)
            ctx.ob("C13.D1.flag", tag, fo, fw, where=f_cg.where, construct="cgne converged flag", loc=f_cg.loc())

    # ---- CGNE: breakdown in the very first iteration (||W|| <= threshold, e.g. an input of tiny norm): nothing was iterated, the
    # history is empty and X is still the initial guess - the flag must not claim convergence
    def pol_bd(cond, node, interp, dec):
        parts = cond_parts(cond)
        if parts and any(a == "tol" for a in cond_atoms(cond)):
            return False
        if parts and parts[0] in ("le", "lt") and P(parts[2]).is_const():
            return True               # breakdown test taken
        return None
    it, dom, dec = new_nc(ctx, pol_bd, make_extra(None))
    A = _A(dom, (3, 2))
    st, out = run_guarded(lambda: it.run(f_cg, [A], bound_self=Instance(
        c_cg, dict(tol=TOL, max_iter=2, verbose=False, preconditioner_rank=0, seed=None))))
    okb, whyb = st == "ok", (str(out) if st != "ok" else "")
    if okb:
        Xb, infob = out
        rn = infob.get("residual_norms")
        fl = infob.get("converged")
        if rn:
            okb, whyb = False, "a residual is reported although no iteration was carried out"
        elif fl is not False:
            okb, whyb = False, (f"converged = {short(fl)} after an immediate breakdown: the returned X is the initial guess and nothing "
                                f"establishes that it is the pseudoinverse")
    ctx.ob("C13.D1.flag", "cgne breakdown in iteration 0 (empty history)", okb, whyb, where=f_cg.where,
           construct="cgne converged flag with an empty history", loc=f_cg.loc())

    # ================================================================= CG micro-solver: columns are solved independently
    _check_cg_micro(ctx, prog, c_rsp)

    ctx.require_instances("C13.D3.column-step", 6)
    ctx.require_instances("C13.D3.row-step", 4)
    ctx.require_instances("C13.D3.hyperpower", 4)
    ctx.require_instances("C13.D3.hybrid", 4)
    ctx.require_instances("C13.D3.cgne", 4)
    ctx.require_instances("C13.D1.flag", 12)
    ctx.require_instances("C13.D1.proxy", 12)
    ctx.require_instances("C13.D2.atomic", 2)
    ctx.require_instances("C13.D4.orientation", 4)


def _check_cg_micro(ctx, prog, c_rsp):
    """_solve_spd_quat solves G X = B column by column with CG started from x = 0.  After k CG steps column j of the result
    is the k-th CG iterate for (G, B[:, j]); in particular it depends on no other column of B (a solution carried over between
    columns leaves the row space of A^H: the proxy still converges while X != A^+)."""
    from qstatic.dom_sym import sym_quat, arrays_same, mk, wrap
    from qstatic.alg import SQ
    from .common import new_interp
    f = prog.func("solver", "RandomizedSketchProjectPseudoinverse._solve_spd_quat")
    ctx.touch(f)
    r, m = 2, 2
    for steps in (1,):
        # order comparisons (tolerance / breakdown tests) are answered "no"; zero tests of data get their generic outcome
        it, d = new_interp(ctx, chooser=lambda interp, node, cond: (
            False if (cond_parts(cond) is not None and cond_parts(cond)[0] in ("lt", "le", "gt", "ge")) else None))
        G = sym_quat("g", (r, r))
        B = sym_quat("b", (r, m))
        inst = Instance(c_rsp, dict(block_size=2, max_iter=1, tol=TOL, test_sketch_size=2, verbose=False, seed=None,
                                    column_solver="spd"))
        st, out = run_guarded(lambda: it.run(f, [G, B], dict(tol=Poly.atom("cgtol"), max_iter=steps), bound_self=inst))
        tag = f"_solve_spd_quat cg-steps={steps}"
        if st != "ok":
            ctx.ob("C13.D3.micro-solver", tag, False, f"fails in-domain: {out}", where=f.where, construct="CG micro-solver fails",
                   loc=f.loc())
            continue
        X, okflag = out
        # symmetrised matrix used by the routine
        Gs = mk((r, r), "quat")
        for i in range(r):
            for j in range(r):
                Gs[i, j] = (G[i, j] + G[j, i].conjugate()) * SQ(Poly.const(1) / 2)

        def rinner(u, v):
            s_ = Poly.const(0)
            for a_, b_ in zip(u, v):
                s_ = s_ + (a_.conjugate() * b_).c[0]
            return s_

        ok, why = True, ""
        for j in range(m):
            b = [B[i, j] for i in range(r)]
            x = [SQ() for _ in range(r)]
            rv = list(b)
            p = list(b)
            rsold = rinner(rv, rv)
            for _ in range(steps):
                if rsold.is_zero():
                    break                      # zero right-hand side (specialised scenario): CG from x = 0 stays at 0
                Ap = [sum((Gs[i, k] * p[k] for k in range(r)), SQ()) for i in range(r)]
                pAp = rinner(p, Ap)
                alpha = rsold / pAp
                x = [xi + pi * SQ(alpha) for xi, pi in zip(x, p)]
                rv = [ri - ai * SQ(alpha) for ri, ai in zip(rv, Ap)]
                rsnew = rinner(rv, rv)
                beta = rsnew / rsold
                p = [ri + pi * SQ(beta) for ri, pi in zip(rv, p)]
                rsold = rsnew
            got = [SQ.lift(X[i, j]) for i in range(r)]
            if not all(g_.same(x_) for g_, x_ in zip(got, x)):
                # name the reason when another column leaks in
                others = {("b", i, jj, pp) for i in range(r) for jj in range(m) if jj != j for pp in range(4)}
                leak = set()
                for g_ in got:
                    for c_ in g_.c:
                        leak |= (_deep_atoms(c_) & others)
                ok = False
                why = (f"column {j} of the solution depends on other right-hand-side columns (solution carried over between columns)"
                       if leak else f"column {j} is not the CG iterate started from x = 0")
                break
        ctx.ob("C13.D3.micro-solver", tag, ok, why, where=f.where, construct="CG micro-solver: columns not solved independently from x = 0",
               loc=f.loc())
    ctx.require_instances("C13.D3.micro-solver", 1)


def _deep_atoms(p):
    out = set()

    def walk(x):
        if isinstance(x, tuple):
            if len(x) == 4 and x[0] == "b" and all(isinstance(v, int) for v in x[1:]):
                out.add(x)
            for y in x:
                walk(y)
    for a in P(p).atoms():
        walk(a)
    return out
