"""Materialised symbolic domain (engines E8 / E9a and bounded instances of E3).

Arrays are numpy object arrays (class SymArr) whose elements are exact symbolic scalars:
Poly (real), SC (complex) or SQ (quaternion).  numpy itself provides the *indexing*
semantics (slices, fancy indices, roll, reshape, transpose, stack ...), so the model of
data movement is numpy's own; element arithmetic is exact polynomial algebra.  No
repository code runs: the AST interpreter applies these models to the syntax tree.

Outputs of LAPACK-type routines (qr, svd, eig, pinv) are arrays of fresh *labels*
(atoms ('lapack', tag, i, j)), so their shapes and the provenance of every entry that
reaches a result are tracked exactly, while their numeric contents do not exist.
"""
from __future__ import annotations

import itertools
import operator

import numpy as np

from .alg import Poly, SC, SQ, NQ, as_quat, UNKNOWN, is_unknown, is_number, P, UnknownTruth
from .domain import BaseDomain, TypeModel, Opaque, wants_interp
from .interp import ModelError, Unsupported, Instance


class DType:
    """dtype token: `kind` (real | complex | quat | int) and, for a dtype read off an input array whose dtype the analysis
    treats as unknown, the tag `src` of that array ("the same dtype as input <src>")."""

    def __init__(self, kind, src=None):
        self.kind = kind
        self.src = src

    def __eq__(self, o):
        k = dtype_kind(o)
        return k is not None and k == self.kind

    def __ne__(self, o):
        return not self.__eq__(o)

    def __hash__(self):
        return hash(self.kind)

    def __repr__(self):
        return f"dtype({self.kind})"


def dtype_kind(d):
    if d is None:
        return "real"
    if isinstance(d, DType):
        return d.kind
    if isinstance(d, TypeModel):
        return {"float": "real", "int": "real", "complex": "complex", "bool": "real", "object": "real",
                "int64": "real", "int32": "real", "intp": "real", "bool_": "real"}.get(d.name)
    if isinstance(d, str):
        return {"float64": "real", "float": "real", "complex": "complex", "complex128": "complex"}.get(d)
    return None


def _dim_index(v):
    """integer value of an index entry (python / numpy int or an exact integer constant)"""
    if isinstance(v, Poly):
        if v.is_const() and v.const_value().denominator == 1:
            return int(v.const_value())
        raise Unsupported("symbolic index")
    return int(v)


class SymArr(np.ndarray):
    """object ndarray with a `kind` tag: real | complex | quat ; sparse flag for scipy-like
    matrices (always 2-D)."""

    def __new__(cls, data, kind="real", sparse=False):
        obj = np.asarray(data, dtype=object).view(cls)
        obj.kind = kind
        obj.sparse = sparse
        obj._fbase = None
        obj._dt = None
        return obj

    def __array_finalize__(self, obj):
        if obj is None:
            return
        self.kind = getattr(obj, "kind", "real")
        self.sparse = getattr(obj, "sparse", False)
        # float view of a quaternion array (quaternion.as_float_array): (quaternion base array, root float array)
        self._fbase = getattr(obj, "_fbase", None)
        # dtype provenance: None = the default wide dtype of its kind (float64 / complex128 / quaternion); a tag = "the dtype of the
        # input array <tag>", which may be narrower than that of other inputs (integer planes, float32)
        self._dt = getattr(obj, "_dt", None)

    def __array_wrap__(self, out, context=None, return_scalar=False):
        r = super().__array_wrap__(out, context, return_scalar) if hasattr(super(), "__array_wrap__") else out
        return r

    def __bool__(self):
        if self.size == 1:
            v = self.reshape(-1)[0]
            if is_unknown(v):
                raise UnknownTruth(v)
            return bool(v)
        raise ModelError("The truth value of an array with more than one element is ambiguous")


def zero_of(kind):
    return {"real": Poly.const(0), "int": Poly.const(0), "complex": SC(0, 0), "quat": SQ(0, 0, 0, 0)}[kind]


def one_of(kind):
    return {"real": Poly.const(1), "int": Poly.const(1), "complex": SC(1, 0), "quat": SQ(1, 0, 0, 0)}[kind]


def _is_bool_dtype(dtype):
    return (isinstance(dtype, TypeModel) and dtype.name in ("bool", "bool_")) or dtype in ("bool", "?") or dtype is bool or dtype is np.bool_


def dt_of(dtype):
    """tag of a buffer ALLOCATED with a dtype read off input <src>: ('alloc', src).  (The inputs themselves, their views and copies
    carry the plain tag src; stores into those are in-place updates of the caller's array and are not judged.)"""
    return dt_like(dtype.src) if isinstance(dtype, DType) else None


def dt_like(src):
    if src is None:
        return None
    return src if isinstance(src, tuple) else ("alloc", src)


def with_dt(arr, dt):
    if isinstance(arr, SymArr):
        arr._dt = dt
    return arr


def mk(shape, kind="real", fill=None, sparse=False):
    if isinstance(shape, (int, np.integer)):
        shape = (int(shape),)
    shape = tuple(_dim(s) for s in shape)
    a = np.empty(shape, dtype=object)
    z = zero_of(kind) if fill is None else fill
    flat = a.reshape(-1)
    for i in range(flat.size):
        flat[i] = z
    return SymArr(a, kind, sparse)


def _dim(s):
    if isinstance(s, Poly):
        if s.is_const() and s.const_value().denominator == 1:
            return int(s.const_value())
        raise Unsupported("symbolic dimension in the materialised domain")
    if isinstance(s, (int, np.integer)):
        if s < 0:
            raise ModelError("negative dimensions are not allowed")
        return int(s)
    raise ModelError(f"bad dimension {s!r}")


def sym_real(name, shape):
    a = np.empty(shape, dtype=object)
    for idx in itertools.product(*[range(s) for s in shape]):
        a[idx] = Poly.atom((name,) + idx)
    r = SymArr(a, "real")
    r._dt = name
    return r


def sym_quat(name, shape):
    a = np.empty(shape, dtype=object)
    for idx in itertools.product(*[range(s) for s in shape]):
        a[idx] = SQ(*[Poly.atom((name,) + idx + (p,)) for p in range(4)])
    return SymArr(a, "quat")


def sym_nq(name, shape):
    """array of generator quaternions of the entry-level free *-algebra (see alg.NQ)"""
    a = np.empty(shape, dtype=object)
    for idx in itertools.product(*[range(s) for s in shape]):
        a[idx] = NQ.gen(name + "_".join(str(i) for i in idx))
    return SymArr(a, "quat")


def labelled(tag, shape, kind="real"):
    a = np.empty(shape, dtype=object)
    for idx in itertools.product(*[range(s) for s in shape]):
        a[idx] = Poly.atom(("lapack", tag) + idx)
    return SymArr(a, kind)


def elem_same(a, b):
    if isinstance(a, NQ) or isinstance(b, NQ):
        la, lb = NQ.lift(a), NQ.lift(b)
        return la is not None and lb is not None and la.same(lb)
    if hasattr(a, "same"):
        return a.same(b)
    if hasattr(b, "same"):
        return b.same(a)
    return a == b


def arrays_same(a, b):
    a, b = np.asarray(a, dtype=object), np.asarray(b, dtype=object)
    if a.shape != b.shape:
        return False
    return all(elem_same(x, y) for x, y in zip(a.reshape(-1), b.reshape(-1)))


def first_diff(a, b):
    a, b = np.asarray(a, dtype=object), np.asarray(b, dtype=object)
    if a.shape != b.shape:
        return ("shape", a.shape, b.shape)
    for idx in itertools.product(*[range(s) for s in a.shape]):
        if not elem_same(a[idx], b[idx]):
            return (idx, a[idx], b[idx])
    return None


def kind_of_value(v):
    if isinstance(v, (SQ, NQ)):
        return "quat"
    if isinstance(v, (SC, complex)):
        return "complex"
    return "real"


def wrap(a, kind=None, sparse=False):
    if isinstance(a, SymArr):
        if kind is not None:
            a = a.view(SymArr)
            a.kind = kind
        return a
    arr = np.asarray(a, dtype=object)
    if kind is None:
        kind = "real"
        for v in arr.reshape(-1)[:1]:
            kind = kind_of_value(v)
    return SymArr(arr, kind, sparse)


def combine_kind(*vals):
    """kind of the result of arithmetic: int < real < complex < quat ('int' models fixed-width integer arrays, e.g.
    uint8 images: arithmetic between them stays integer and may wrap around)"""
    order = {"int": -1, "real": 0, "complex": 1, "quat": 2}
    best = None
    for v in vals:
        if isinstance(v, SymArr):
            k = v.kind
        elif isinstance(v, (int, np.integer)) and not isinstance(v, bool):
            k = "int"
        else:
            k = kind_of_value(v)
        if best is None or order[k] > order[best]:
            best = k
    return best or "real"


class Namespace:
    def __init__(self, name, **members):
        self._name = name
        self.__dict__.update(members)

    def __getattr__(self, attr):
        raise Unsupported(f"unknown-external {self._name}.{attr}")


def kw_strict(k, what, harmless=()):
    """keyword arguments a model does not implement must not be dropped silently (a dropped `keepdims=True` made a broadcasting
    defect invisible): anything outside `harmless` with a non-default value makes the construct unsupported (exit 2)."""
    for name, v in k.items():
        if name in harmless:
            continue
        if v is None or (name in ("keepdims", "overwrite_a", "overwrite_b", "pivoting", "hermitian", "unit_diagonal", "subok") and v is False) \
                or (name == "check_finite") or (name == "order" and v in ("C", "K", "A")) or (name == "copy") or (name == "casting"):
            continue
        raise Unsupported(f"{what}: keyword {name}={v!r} is not modelled")


def keepdims_fix(res, a, axis, keepdims):
    """re-insert the reduced axes as size-1 axes (numpy keepdims=True)"""
    if not keepdims:
        return res
    a = wrap(a)
    if axis is None:
        shape = (1,) * a.ndim
    else:
        axes = axis if isinstance(axis, (tuple, list)) else (axis,)
        axes = [ax % a.ndim for ax in axes]
        shape = tuple(1 if i in axes else s_ for i, s_ in enumerate(a.shape))
    if isinstance(res, SymArr):
        return SymArr(np.asarray(res, dtype=object).reshape(shape), res.kind)
    out = np.empty(shape, dtype=object)
    out.reshape(-1)[0] = res
    return SymArr(out, kind_of_value(res) if not isinstance(res, (bool, int)) else "real")


class _UFunc:
    """binary max/min ufunc model with .reduce"""

    def __init__(self, dom, name):
        self.dom, self.name = dom, name

    def __call__(self, a, b, **k):
        kw_strict(k, f"np.{self.name}imum")
        if isinstance(a, SymArr) or isinstance(b, SymArr):
            return self.dom._pairwise(self.name, a, b)
        return self.dom.b_max(a, b) if self.name == "max" else self.dom.b_min(a, b)

    def reduce(self, a, axis=0, keepdims=False, initial=None, **k):
        kw_strict(k, f"np.{self.name}imum.reduce")
        return self.dom._red_initial(self.name, a, axis, keepdims, initial)


class _ArithUFunc:
    """np.add / np.subtract / np.multiply as objects: callable, with .reduce / .outer / .at / .accumulate"""

    def __init__(self, dom, op, name):
        self.dom, self.op, self.name = dom, op, name

    def __call__(self, a, b, out=None, **k):
        kw_strict(k, f"np.{self.name}")
        r = self.dom.binop(self.dom._interp, self.op, a, b, None)
        if out is None:
            return r
        if isinstance(out, tuple) and len(out) == 1:
            out = out[0]
        if not isinstance(out, SymArr):
            raise Unsupported("out= with a non-array target")
        self.dom.setitem(self.dom._interp, out, Ellipsis, r, getattr(self.dom, "_cur_node", None))
        return out

    def reduce(self, a, axis=0, keepdims=False, **k):
        kw_strict(k, f"np.{self.name}.reduce")
        if self.name == "add":
            return self.dom.np_sum(a, axis=axis, keepdims=keepdims)
        raise Unsupported(f"np.{self.name}.reduce")

    def outer(self, a, b, **k):
        kw_strict(k, f"np.{self.name}.outer")
        a, b = wrap(a), wrap(b)
        aa = np.asarray(a, dtype=object).reshape(a.shape + (1,) * b.ndim)
        return SymArr(self.op(aa, np.asarray(b, dtype=object)), combine_kind(a, b))

    def at(self, a, idx, v):
        if self.name != "add":
            raise Unsupported(f"np.{self.name}.at")
        return self.dom.np_add_at(a, idx, v)


class SymDomain(BaseDomain):
    """choice(n, why) is called for data dependent index choices (argmax)."""

    def __init__(self, choice=None, rng_tag="rng"):
        super().__init__()
        self.choice = choice
        self._counter = itertools.count()
        self.np = self._make_np()
        self.quaternion = self._make_quaternion()
        self.sparse = self._make_sparse()
        self.scipy_linalg = Namespace("scipy.linalg", qr=self.la_qr, solve_triangular=self.la_solve_triangular, solve=self.la_solve, hessenberg=self.la_hessenberg,
                                      cholesky=self.la_cholesky_scipy, svd=self.la_svd, eigh=self.la_eigh, pinv=self.la_pinv,
                                      norm=self.la_norm, LinAlgError=np.linalg.LinAlgError)
        self.events = []
        self.divisions = []
        self._cur_node = None

    # ---------------------------------------------------------------- modules
    def ext_module(self, name):
        if name in ("numpy", "np"):
            return self.np
        if name == "quaternion":
            return self.quaternion
        if name in ("scipy.sparse",):
            return self.sparse
        if name == "scipy":
            return Namespace("scipy", sparse=self.sparse, linalg=self.scipy_linalg)
        if name == "scipy.linalg":
            return self.scipy_linalg
        if name in ("itertools", "functools", "bisect"):
            return self.std_module(name)
        if name == "numpy.fft":
            return Namespace("numpy.fft")
        if name == "math":
            return Namespace("math", sqrt=lambda v: self.f_sqrt(v), log10=lambda v: Opaque("log10"),
                             pi=3.141592653589793, isfinite=lambda v: UNKNOWN("isfinite"))
        if name == "time":
            return Namespace("time", time=lambda: Opaque("time"), perf_counter=lambda: Opaque("time"))
        if name in ("os", "sys", "typing", "os.path"):
            return Namespace(name, path=Namespace("os.path"), Tuple=None, List=None, Optional=None)
        if name == "operator":      # functional spellings of the operators: same domain semantics as the syntax
            cmp_ = lambda op: (lambda a, b: self.compare(self._interp, op, a, b, None))
            bin_ = lambda op: (lambda a, b: self._interp.binop(op, a, b, None))
            return Namespace("operator", **{n: cmp_(getattr(operator, n)) for n in ("lt", "le", "eq", "ne", "ge", "gt")},
                             **{n: bin_(getattr(operator, n)) for n in ("add", "sub", "mul", "truediv", "floordiv", "mod", "matmul", "pow")},
                             neg=lambda a: self.unop(self._interp, operator.neg, a, None),
                             itemgetter=lambda *ks: (lambda v: self._interp.getitem(v, ks[0], None) if len(ks) == 1
                                                     else tuple(self._interp.getitem(v, k, None) for k in ks)))
        if name == "functools":
            def reduce(f, it, *init):
                items = self._it(it)
                if init:
                    acc = init[0]
                elif items:
                    acc, items = items[0], items[1:]
                else:
                    raise ModelError("reduce() of empty iterable with no initial value")
                for x in items:
                    acc = self._call(f, acc, x)
                return acc
            return Namespace("functools", reduce=reduce,
                             partial=lambda f, *a, **k: (lambda *b, **kk: self._interp.call(f, list(a) + list(b), {**k, **kk})))
        raise Unsupported(f"unknown-external module {name!r}")

    def fresh(self, tag):
        return next(self._counter)

    # ---------------------------------------------------------------- numpy model
    def _make_np(self):
        d = self
        ns = Namespace(
            "np",
            ndarray=TypeModel("ndarray", lambda v: isinstance(v, SymArr) and not v.sparse),
            quaternion=DType("quat"), float64=DType("real"), complex128=DType("complex"), float32=DType("real"),
            floating=TypeModel("floating", lambda v: isinstance(v, (float, Poly))),
            integer=TypeModel("integer", lambda v: isinstance(v, int) and not isinstance(v, bool)),
            inf=float("inf"), pi=3.141592653589793, newaxis=None,
            zeros=d.np_zeros, empty=d.np_empty, ones=lambda s, dtype=None: mk(s, "real", fill=True) if _is_bool_dtype(dtype) else with_dt(mk(s, dtype_kind(dtype), one_of(dtype_kind(dtype))), dt_of(dtype)),
            result_type=d.np_result_type, promote_types=d.np_result_type,
            eye=d.np_eye, identity=lambda n, dtype=None: d.np_eye(n, dtype=dtype),
            array=d.np_array, asarray=d.np_array, copy=lambda a: wrap(a).copy(),
            zeros_like=lambda a, dtype=None: with_dt(mk(a.shape, dtype_kind(dtype) if dtype is not None else wrap(a).kind), dt_of(dtype) if dtype is not None else dt_like(getattr(a, "_dt", None))),
            empty_like=lambda a, dtype=None: with_dt(d.np_empty(wrap(a).shape, dtype if dtype is not None else DType(wrap(a).kind)), dt_of(dtype) if dtype is not None else dt_like(getattr(a, "_dt", None))),
            ones_like=lambda a: with_dt(mk(a.shape, wrap(a).kind, one_of(wrap(a).kind)), dt_like(getattr(a, "_dt", None))),
            full_like=lambda a, v: with_dt(mk(a.shape, wrap(a).kind, v), dt_like(getattr(a, "_dt", None))),
            stack=d.np_stack, hstack=lambda xs: d._cat(np.hstack, xs), vstack=lambda xs: d._cat(np.vstack, xs),
            column_stack=lambda xs: d._cat(np.column_stack, xs),
            concatenate=lambda xs, axis=0: d._cat(lambda a: np.concatenate(a, axis=axis), xs),
            roll=lambda a, shift, axis=None: wrap(np.roll(wrap(a), shift, axis=axis), wrap(a).kind),
            transpose=lambda a, axes=None: wrap(np.transpose(wrap(a), axes), wrap(a).kind),
            moveaxis=lambda a, s, t: wrap(np.moveaxis(wrap(a), s, t), wrap(a).kind),
            swapaxes=lambda a, s, t: wrap(np.swapaxes(wrap(a), s, t), wrap(a).kind),
            reshape=lambda a, shape, order="C", **k: wrap(np.reshape(wrap(a), shape, order=order), wrap(a).kind),
            ravel=lambda a, order="C": wrap(np.ravel(np.asarray(wrap(a), dtype=object), order=order).copy(), wrap(a).kind),   # (K / A: the real layout)
            kron=lambda a, b: SymArr(np.kron(np.asarray(wrap(a), dtype=object), np.asarray(wrap(b), dtype=object)), combine_kind(wrap(a), wrap(b))),
            conjugate=d.np_conj, conj=d.np_conj, real=d.np_real, imag=d.np_imag,
            sum=d.np_sum, prod=d.np_prod, sqrt=d.f_sqrt, abs=d.np_abs, absolute=d.np_abs,
            max=d.np_max, min=d.np_min, maximum=_UFunc(d, "max"), minimum=_UFunc(d, "min"), amax=d.np_max, amin=d.np_min,
            nanmax=d.np_max, nanmin=d.np_min,
            argmax=d.np_argmax, argmin=d.np_argmin, argsort=d.np_argsort,
            allclose=d.np_allclose, isclose=d.np_isclose,
            any=d.np_any, all=d.np_all, isscalar=d.np_isscalar,
            isfinite=lambda v: UNKNOWN("isfinite"), isnan=lambda v: UNKNOWN("isnan"),
            where=d.np_where, clip=d.np_clip,
            arange=lambda *a, **k: SymArr(np.arange(*a).astype(object), "real"),
            diag=d.np_diag, fill_diagonal=d.np_fill_diagonal, trace=lambda a: d.np_sum(np.diagonal(wrap(a))),
            dot=lambda a, b: d.binop(None, operator.matmul, a, b, None), matmul=lambda a, b: d.binop(None, operator.matmul, a, b, None),
            vdot=lambda a, b: d.np_sum(d.np_conj(wrap(a).reshape(-1)) * wrap(b).reshape(-1)),
            outer=lambda a, b: wrap(np.outer(wrap(a), wrap(b))),
            finfo=lambda t=None: Namespace("finfo", eps=2.220446049250313e-16, tiny=2.2250738585072014e-308),
            mean=d.np_mean,
            count_nonzero=d.np_count_nonzero,
            triu=lambda a, k=0: d._tri(a, k, True), tril=lambda a, k=0: d._tri(a, k, False),
            ix_=np.ix_, prod_=None,
            fmax=_UFunc(d, "max"), fmin=_UFunc(d, "min"),
            diagonal=lambda a, offset=0: SymArr(np.diagonal(np.asarray(wrap(a), dtype=object), offset).copy(), wrap(a).kind),
            atleast_1d=lambda a: (wrap(a).reshape(1) if wrap(a).ndim == 0 else wrap(a)),
            atleast_2d=lambda a: (wrap(a).reshape(1, -1) if wrap(a).ndim < 2 else wrap(a)),
            nonzero=d.np_nonzero, flatnonzero=lambda a: d.np_nonzero(wrap(a).reshape(-1))[0],
            round=d.np_round, around=d.np_round, rint=lambda v: d.np_round(v, 0),
            int64=TypeModel("int64", lambda v: isinstance(v, (int, np.integer)), lambda v=0: d.b_int(v)),
            int32=TypeModel("int32", lambda v: isinstance(v, (int, np.integer)), lambda v=0: d.b_int(v)),
            intp=TypeModel("intp", lambda v: isinstance(v, (int, np.integer)), lambda v=0: d.b_int(v)),
            uint8=DType("int"), uint16=DType("int"), int8=DType("int"), int16=DType("int"),
            bool_=TypeModel("bool_", lambda v: isinstance(v, (bool, np.bool_)), lambda v=False: d.b_bool(v)),
            add=_ArithUFunc(d, operator.add, "add"),
            square=lambda v: v * v, negative=lambda v: -v, multiply=_ArithUFunc(d, operator.mul, "multiply"),
            subtract=_ArithUFunc(d, operator.sub, "subtract"),
            divide=lambda a, b: d.binop(d._interp, operator.truediv, a, b, None),
            power=lambda a, b: d.binop(d._interp, operator.pow, a, b, None),
            einsum=d.np_einsum, tensordot=lambda a, b, axes=2: wrap(np.tensordot(np.asarray(wrap(a), dtype=object), np.asarray(wrap(b), dtype=object), axes=axes)),
            broadcast_to=lambda a, shape: SymArr(np.broadcast_to(np.asarray(wrap(a), dtype=object), shape).copy(), wrap(a).kind),
            expand_dims=lambda a, axis: SymArr(np.expand_dims(np.asarray(wrap(a), dtype=object), axis), wrap(a).kind),
            squeeze=lambda a, axis=None: SymArr(np.squeeze(np.asarray(wrap(a), dtype=object), axis), wrap(a).kind),
            take=lambda a, idx, axis=None: SymArr(np.take(np.asarray(wrap(a), dtype=object), idx, axis=axis), wrap(a).kind),
            flip=lambda a, axis=None: SymArr(np.flip(np.asarray(wrap(a), dtype=object), axis), wrap(a).kind),
            tile=lambda a, reps: SymArr(np.tile(np.asarray(wrap(a), dtype=object), reps), wrap(a).kind),
            repeat=lambda a, n, axis=None: SymArr(np.repeat(np.asarray(wrap(a), dtype=object), n, axis=axis), wrap(a).kind),
            indices=lambda dims, **k: np.indices(dims), meshgrid=lambda *xs, **k: [SymArr(g.astype(object), "real") for g in np.meshgrid(*[np.asarray(wrap(x), dtype=object) for x in xs], **k)],
            unravel_index=np.unravel_index, ravel_multi_index=np.ravel_multi_index, mod=lambda a, b: a % b, floor_divide=lambda a, b: a // b,
            cumsum=lambda a, axis=None: SymArr(np.cumsum(np.asarray(wrap(a), dtype=object), axis=axis), wrap(a).kind),
            ndindex=np.ndindex, ndenumerate=lambda a: [(i, wrap(a)[i]) for i in np.ndindex(*wrap(a).shape)],
            logical_not=lambda a: d.unop(d._interp, operator.invert, d._as_mask(a), None),
            logical_and=lambda a, b: d.binop(d._interp, operator.and_, d._as_mask(a), d._as_mask(b), None),
            logical_or=lambda a, b: d.binop(d._interp, operator.or_, d._as_mask(a), d._as_mask(b), None),
            fromiter=lambda it, dtype=None, count=-1: d.np_array(list(d._it(it))),
            asanyarray=lambda a, dtype=None: d.np_array(a, dtype=dtype, copy=False),
            ascontiguousarray=lambda a, **k: wrap(a).copy(), asfortranarray=lambda a, **k: SymArr(np.asfortranarray(np.asarray(wrap(a), dtype=object)), wrap(a).kind),
            sign=d.np_sign, diff=d.np_diff, exp=lambda v: d._elem_fn("exp", v), log=lambda v: d._elem_fn("log", v),
            triu_indices=lambda n, k=0, m=None: np.triu_indices(n, k, m), tril_indices=lambda n, k=0, m=None: np.tril_indices(n, k, m),
            diag_indices=lambda n, ndim=2: np.diag_indices(n, ndim),
            linalg=Namespace("np.linalg", cholesky=d.la_cholesky, solve=d.la_solve, det=lambda a: Opaque("det"),
                             matrix_rank=lambda a, **k: Opaque("matrix_rank"), lstsq=lambda a, b, **k: (d.la_solve(a, b), None, None, None),
                             norm=d.la_norm, svd=d.la_svd, qr=d.la_qr_np, eig=d.la_eig, eigh=d.la_eigh,
                             eigvals=d.la_eigvals, eigvalsh=d.la_eigvals, pinv=d.la_pinv, inv=d.la_pinv,
                             LinAlgError=None),
            random=Namespace("np.random", randn=d.rng_randn, rand=d.rng_randn, seed=lambda *a: None,
                             standard_normal=lambda size=None: d.rng_randn(*(size if isinstance(size, tuple) else (size,))),
                             default_rng=lambda seed=None: Namespace(
                                 "Generator", standard_normal=lambda size=None: d.rng_randn(*(size if isinstance(size, tuple) else (size,))),
                                 normal=lambda loc=0.0, scale=1.0, size=None: d.rng_randn(*(size if isinstance(size, tuple) else (size,))))),
        )
        # `out=` of the elementwise functions: the result is stored INTO the given array (through the interpreter's own setitem, so
        # views of caller data are written through) and that array is returned
        def with_out(fn):
            def g(*a, out=None, **k):
                r = fn(*a, **k)
                if out is None:
                    return r
                if isinstance(out, tuple) and len(out) == 1:
                    out = out[0]
                if not isinstance(out, SymArr):
                    raise Unsupported("out= with a non-array target")
                d.setitem(d._interp, out, Ellipsis, r, getattr(d, "_cur_node", None))
                return out
            return g
        def np_copyto(dst, src, **k):
            kw_strict(k, "copyto")
            if not isinstance(dst, SymArr):
                raise Unsupported("np.copyto into a non-array")
            d.setitem(d._interp, dst, Ellipsis, src, getattr(d, "_cur_node", None))
        ns.__dict__["copyto"] = np_copyto

        def np_tri(n, m=None, k=0, dtype=None):
            n_ = _dim(n)
            m_ = n_ if m is None else _dim(m)
            isb = _is_bool_dtype(dtype)
            out = mk((n_, m_), "real", fill=(False if isb else None))
            for i in range(n_):
                for j in range(m_):
                    if j <= i + int(k):
                        out[i, j] = True if isb else Poly.const(1)
            return out
        ns.__dict__["tri"] = np_tri
        for nm in ("square", "abs", "absolute", "sqrt", "negative", "conj", "conjugate", "exp", "sign", "real", "imag",
                   "maximum", "minimum", "fmax", "fmin", "clip", "round", "around", "power", "divide", "true_divide",
                   "concatenate", "hstack", "vstack", "stack", "column_stack"):
            if nm in ns.__dict__ and not isinstance(ns.__dict__[nm], (_UFunc, _ArithUFunc)):
                ns.__dict__[nm] = with_out(ns.__dict__[nm])
        return ns

    def np_zeros(self, shape, dtype=None, **k):
        kw_strict(k, "zeros/empty")
        if _is_bool_dtype(dtype):
            return mk(shape, "real", fill=False)
        kind = dtype_kind(dtype)
        if kind is None:
            raise Unsupported(f"dtype {dtype!r}")
        return with_dt(mk(shape, kind), dt_of(dtype))

    def np_empty(self, shape, dtype=None, **k):
        """np.empty / empty_like: UNINITIALISED memory - every cell is a distinct unknown value (atom 'uninit'), so a result that
        still depends on a cell that was never written differs from every reference"""
        kw_strict(k, "empty")
        kind = dtype_kind(dtype)
        if kind is None:
            raise Unsupported(f"dtype {dtype!r}")
        a = mk(shape, kind)
        t = self.fresh("uninit")
        flat = a.reshape(-1)
        for i in range(flat.size):
            if kind == "quat":
                flat[i] = SQ(*[Poly.atom(("uninit", t, i, p_)) for p_ in range(4)])
            elif kind == "complex":
                flat[i] = SC(Poly.atom(("uninit", t, i, 0)), Poly.atom(("uninit", t, i, 1)))
            else:
                flat[i] = Poly.atom(("uninit", t, i))
        return with_dt(a, dt_of(dtype))

    def arr_view(self, a, dtype):
        """ndarray.view(dtype) between float64 / complex128 / quaternion item sizes on the last axis (modelled as a fresh array:
        a store through such a view is not propagated, the interpreter's setitem is not reached by repository code for these)"""
        if dtype is None:
            return a
        kind = dtype_kind(dtype)
        width = {"real": 1, "complex": 2, "quat": 4}
        if kind not in width or a.kind not in width or a.ndim == 0:
            raise Unsupported(f"view({dtype!r}) of a {a.kind} array")
        # flatten the last axis to float64 components, then regroup
        flat = []
        for idx in itertools.product(*[range(s_) for s_ in a.shape[:-1]]):
            row = []
            for v in np.asarray(a, dtype=object)[idx]:
                if a.kind == "quat":
                    row.extend(SQ.lift(v).c)
                elif a.kind == "complex":
                    cv = SC.lift(v)
                    row.extend([cv.re, cv.im])
                else:
                    row.append(v)
            flat.append((idx, row))
        w = width[kind]
        n_last = a.shape[-1] * width[a.kind]
        if n_last % w:
            raise ModelError("view: last axis is not a multiple of the new item size")
        out = mk(a.shape[:-1] + (n_last // w,), kind)
        for idx, row in flat:
            for j in range(n_last // w):
                chunk = row[j * w:(j + 1) * w]
                out[idx + (j,)] = chunk[0] if w == 1 else (SC(*chunk) if w == 2 else SQ(*chunk))
        return out

    def _as_mask(self, a):
        """truth values of an array (numbers -> nonzero?, conditions stay conditions)"""
        if isinstance(a, np.ndarray) and not isinstance(a, SymArr):
            a = SymArr(np.asarray([bool(x) if isinstance(x, (bool, np.bool_, int, np.integer)) else x for x in a.reshape(-1)],
                                  dtype=object).reshape(a.shape), "real")
        if not isinstance(a, SymArr):
            if isinstance(a, (bool, np.bool_)) or is_unknown(a):
                return a
            t = self.truth(a)
            return t
        out = np.empty(a.shape, dtype=object)
        for idx in np.ndindex(*a.shape):
            v = a[idx]
            out[idx] = v if (isinstance(v, (bool, np.bool_)) or is_unknown(v)) else self.truth(v)
        return SymArr(out, "real")

    def np_isclose(self, a, b, rtol=1e-05, atol=1e-08, **k):
        """tolerance comparison |a-b| <= atol + rtol|b|: an UNKNOWN of its own kind (rules treat it as a tolerance test, never as an
        exact one); with both tolerances literally zero it IS the exact comparison"""
        if rtol == 0 and atol == 0:
            return self.compare(self._interp, operator.eq, a, b, None)
        return UNKNOWN("isclose")

    def np_allclose(self, a, b, rtol=1e-05, atol=1e-08, **k):
        if rtol == 0 and atol == 0:
            return self.np_all(self.compare(self._interp, operator.eq, a, b, None))
        return UNKNOWN(("allclose", a, b))

    def np_result_type(self, *xs):
        """np.result_type / np.promote_types: the promoted dtype is at least as wide as every operand (src tag kept only
        when all operands share it)"""
        kinds, srcs = [], set()
        for x in xs:
            if isinstance(x, SymArr):
                kinds.append(x.kind)
                srcs.add(x._dt)
            elif isinstance(x, DType):
                kinds.append(x.kind)
                srcs.add(x.src)
            else:
                k = dtype_kind(x) if not is_number(x) else kind_of_value(x)
                kinds.append(k or "real")
                srcs.add(None)
        order = {"int": 0, "real": 1, "complex": 2, "quat": 3}
        kind = max(kinds, key=lambda k: order.get(k, 1)) if kinds else "real"
        return DType(kind, srcs.pop() if len(srcs) == 1 else None)

    def note_global_store(self, interp, mod, name, value, node):
        """a function of the analysed call tree rebinds a module global to call-dependent data (arrays, symbolic values): results
        of later calls can then depend on earlier ones (memo keyed by object identity, carried-over iterate ...).  Lazily
        initialised constants (concrete numbers / strings) are not judged."""
        def symbolic(v, depth=0):
            if isinstance(v, (SymArr, Instance)):
                return True
            if isinstance(v, (Poly, SC, SQ, NQ)):
                try:
                    return not all(c.is_const() for c in (v.c if hasattr(v, "c") else ((v.re, v.im) if isinstance(v, SC) else (v,))))
                except Exception:
                    return True
            if isinstance(v, (list, tuple, set)) and depth < 4:
                return any(symbolic(x, depth + 1) for x in v)
            if isinstance(v, dict) and depth < 4:
                return any(symbolic(x, depth + 1) for x in v.values())
            return False
        ctx = getattr(self, "ctx", None)
        if ctx is None or not symbolic(value):
            return
        fi = interp.call_stack[-1] if interp.call_stack else None
        fn = fi
        where = interp.where(node)
        ctx.ob(f"{ctx.prop}.E3.global-state", f"store to module global {mod.name}.{name} at {where}", False,
               f"call-dependent data is kept in the module global {name!r}: the result of a later call can depend on earlier calls "
               f"(stale memo after an in-place edit of the argument, carried-over state)", where=getattr(fn, "where", where),
               construct=f"module global {name} rebound to call data", loc=where)

    def note_store(self, base, value, interp, node):
        """dtype provenance: a buffer whose dtype was taken from ONE input array (np.zeros(..., dtype=X.dtype), zeros_like(X),
        X.astype(Y.dtype)) receives values that do not have that same dtype -> numpy casts them to the buffer's dtype
        (truncation to integers / rounding to a narrower float when the inputs' dtypes differ)."""
        bt = getattr(base, "_dt", None)
        if not isinstance(bt, tuple) or getattr(base, "kind", None) == "quat":
            return
        if isinstance(value, SymArr):
            vt = value._dt
            if vt == bt or vt == bt[1]:
                return
        elif isinstance(value, (bool, int, np.integer)) or (isinstance(value, Poly) and value.is_const() and value.const_value().denominator == 1):
            return
        elif isinstance(value, (list, tuple)) and all(isinstance(x, (bool, int)) for x in value):
            return
        else:
            vt = None
        where = interp.where(node) if interp is not None and node is not None else "?"
        self.events.append(("dtype-cast", where, bt, vt))
        ctx = getattr(self, "ctx", None)
        if ctx is not None:
            fi = interp.call_stack[-1] if interp is not None and interp.call_stack else None
            fn = fi
            ctx.ob(f"{ctx.prop}.E3.dtype-source", f"store at {where}", False,
                   f"values of {'the promoted default dtype' if vt is None else 'the dtype of input ' + repr(vt[1] if isinstance(vt, tuple) else vt)} are stored into a buffer "
                   f"whose dtype was taken from input {bt[1]!r} alone: numpy casts them (fractional values are truncated when that input "
                   f"is an integer array, rounded when it is a narrower float)",
                   where=getattr(fn, "where", where), construct=f"buffer dtype taken from one input ({bt[1]})",
                   loc=where)

    def np_eye(self, n, m=None, k=0, dtype=None, **kw):
        kw_strict(kw, "eye")
        kind = dtype_kind(dtype)
        n = _dim(n)
        m = n if m is None else _dim(m)
        a = mk((n, m), kind)
        for i in range(n):
            if 0 <= i + int(k) < m:
                a[i, i + int(k)] = one_of(kind)
        return with_dt(a, dt_of(dtype))

    def np_array(self, obj, dtype=None, copy=True, **k):
        kw_strict(k, "array")
        if isinstance(obj, SymArr):
            r = obj.copy() if copy else obj
            if dtype is not None and dtype_kind(dtype) not in (None, r.kind):
                r = self._astype(r, dtype_kind(dtype))
            return r
        if isinstance(obj, (Poly, SQ, SC, NQ)) or is_number(obj):
            a = np.empty((), dtype=object)
            a[()] = obj
            return SymArr(a, kind_of_value(obj))
        if isinstance(obj, (list, tuple)):
            def conv(x):
                if isinstance(x, SymArr):
                    return x.tolist() if x.ndim else x[()]
                if isinstance(x, (list, tuple)):
                    return [conv(y) for y in x]
                return x
            lst = conv(obj)
            shape = _shape_of_nested(lst)
            a = np.empty(shape, dtype=object)
            _fill_nested(a, lst, ())
            kind = dtype_kind(dtype) if dtype is not None else None
            if kind is None:
                kind = "real"
                for v in a.reshape(-1):
                    kk = kind_of_value(v)
                    if kk != "real":
                        kind = kk
                        break
            r = SymArr(a, kind)
            if kind == "quat":
                flat = r.reshape(-1)
                for i in range(flat.size):
                    if not isinstance(flat[i], (SQ, NQ)):
                        flat[i] = SQ.lift(flat[i])
            return r
        if isinstance(obj, Opaque):
            return obj
        raise Unsupported(f"np.array of {type(obj).__name__}")

    def _astype(self, a, kind):
        if kind == a.kind:
            return a.copy()
        out = mk(a.shape, kind)
        conv = {"quat": SQ.lift, "complex": SC.lift, "real": lambda v: v, "int": lambda v: v}[kind]
        of, af = out.reshape(-1), a.reshape(-1)
        for i in range(af.size):
            of[i] = conv(af[i])
        return out

    def np_stack(self, xs, axis=0):
        xs = [wrap(x) if not isinstance(x, SymArr) else x for x in xs]
        kind = combine_kind(*xs)
        shapes = {x.shape for x in xs}
        if len(shapes) != 1:
            raise ModelError(f"all input arrays must have the same shape: {sorted(shapes)}")
        return SymArr(np.stack([np.asarray(x, dtype=object) for x in xs], axis=axis), kind)

    def _cat(self, f, xs):
        xs = [wrap(x) if not isinstance(x, SymArr) else x for x in xs]
        kind = combine_kind(*xs)
        try:
            return SymArr(f([np.asarray(x, dtype=object) for x in xs]), kind)
        except ValueError as e:
            raise ModelError(str(e))

    def np_conj(self, a):
        if isinstance(a, SymArr):
            out = mk(a.shape, a.kind)
            of, af = out.reshape(-1), a.reshape(-1)
            for i in range(af.size):
                v = af[i]
                of[i] = v.conjugate() if hasattr(v, "conjugate") else v
            return out
        if hasattr(a, "conjugate"):
            return a.conjugate()
        return a

    def np_real(self, a):
        return self._part(a, "real")

    def np_imag(self, a):
        return self._part(a, "imag")

    def _part(self, a, which):
        def one(v):
            if isinstance(v, SC):
                return v.re if which == "real" else v.im
            if isinstance(v, SQ):
                raise Unsupported("np.real/imag of a quaternion")
            if isinstance(v, complex):
                return v.real if which == "real" else v.imag
            return v if which == "real" else Poly.const(0)
        if isinstance(a, SymArr):
            out = mk(a.shape, "real")
            of, af = out.reshape(-1), a.reshape(-1)
            for i in range(af.size):
                of[i] = one(af[i])
            return out
        return one(a)

    def np_sum(self, a, axis=None, keepdims=False, **k):
        kw_strict(k, "sum", harmless=("dtype",))
        if keepdims:
            if isinstance(a, (list, tuple)):
                a = self.np_array(a)
            return keepdims_fix(self.np_sum(a, axis=axis), a, axis, True)
        if isinstance(a, (list, tuple)):
            a = self.np_array(a)
        if not isinstance(a, SymArr):
            return a
        if a.kind == "quat" and a.size == 0:
            return SQ()
        if axis is None and a.size and any(is_unknown(v) for v in a.reshape(-1)):
            return self._count_true(a)      # np.sum(<boolean array of symbolic comparisons>)
        r = np.asarray(a, dtype=object).sum(axis=axis)
        if isinstance(r, np.ndarray):
            return SymArr(r, a.kind)
        return r if not (is_number(r) and not isinstance(r, Poly)) else Poly.const(r) if a.size == 0 else r

    def np_mean(self, a, axis=None, keepdims=False, **k):
        kw_strict(k, "mean", harmless=("dtype",))
        a = wrap(a)
        n = a.size if axis is None else int(np.prod([a.shape[ax] for ax in (axis if isinstance(axis, (tuple, list)) else (axis,))]))
        tot = self.np_sum(a, axis=axis, keepdims=keepdims)
        if isinstance(tot, SymArr):
            return self.binop(None, operator.truediv, tot, n, None)
        return tot / n

    def _count_true(self, a):
        """Number of True entries of a boolean array whose entries may be UNKNOWN conditions
        (element comparisons on symbolic data).  Every UNKNOWN entry is resolved by the
        interpreter's chooser (NeedChoice without one); conditions and decisions are recorded as
        an event ('count', [(cond, decision), ...]) so a rule can inspect what was counted."""
        conds, n = [], 0
        for v in wrap(a).reshape(-1):
            if is_unknown(v):
                if self._interp is None:
                    raise Unsupported("count of symbolic conditions without an interpreter")
                t = self._interp.decide(None, v)
            else:
                t = bool(v)
            conds.append((v, t))
            n += int(t)
        self.events.append(("count", conds))
        return n

    def np_count_nonzero(self, a, axis=None, **k):
        kw_strict(k, "count_nonzero")
        a = wrap(a)
        if axis is None and all(isinstance(v, (bool, np.bool_)) or is_unknown(v) for v in a.reshape(-1)):
            return self._count_true(a)
        if axis is None:
            # numeric array: an entry counts when it is non-zero; entries whose vanishing depends on data are decided
            n = 0
            for v in a.reshape(-1):
                t = self.truth(v)
                if is_unknown(t):
                    if self._interp is None:
                        return UNKNOWN("count_nonzero")
                    t = self._interp.decide(self._cur_node, t)
                n += 1 if t else 0
            return n
        return UNKNOWN("count_nonzero")

    def np_prod(self, a, axis=None):
        a = wrap(a)
        r = Poly.const(1)
        if axis is not None:
            raise Unsupported("np.prod with axis")
        for v in a.reshape(-1):
            r = r * v
        return r

    def f_sqrt(self, v):
        if isinstance(v, SymArr):
            out = mk(v.shape, "real")
            of, af = out.reshape(-1), v.reshape(-1)
            for i in range(af.size):
                of[i] = P(af[i]).sqrt()
            return out
        if isinstance(v, Opaque):
            return v
        return P(v).sqrt()

    def np_abs(self, v):
        if isinstance(v, SymArr):
            out = mk(v.shape, "real")
            of, af = out.reshape(-1), v.reshape(-1)
            for i in range(af.size):
                of[i] = abs(af[i]) if not is_number(af[i]) or isinstance(af[i], Poly) else Poly.const(abs(af[i]))
            return out
        return abs(v)

    def np_max(self, a, axis=None, keepdims=False, initial=None, **k):
        kw_strict(k, "max")
        return self._red_initial("max", a, axis, keepdims, initial)

    def np_min(self, a, axis=None, keepdims=False, initial=None, **k):
        kw_strict(k, "min")
        return self._red_initial("min", a, axis, keepdims, initial)

    def _red_initial(self, name, a, axis, keepdims, initial):
        """max / min reduction; `initial` takes part in the reduction (and makes the empty reduction legal)"""
        aw = wrap(self.np_array(a) if isinstance(a, (list, tuple)) else a)
        if initial is not None and aw.size == 0 and axis in (None, 0) and aw.ndim <= 1:
            return initial
        res = keepdims_fix(self._red(name, a, axis), a, axis, keepdims)
        if initial is None:
            return res
        if isinstance(res, SymArr):
            return self._pairwise(name, res, initial)
        return self.sym_minmax(name, [res, initial])

    def _red(self, name, a, axis):
        if isinstance(a, (list, tuple)):
            a = self.np_array(a)
        if not isinstance(a, SymArr):
            return a
        if a.size == 0:
            raise ModelError(f"zero-size array to reduction operation {name}imum which has no identity")
        if axis is None:
            return self.sym_minmax(name, [P(v) for v in a.reshape(-1)])
        moved = np.moveaxis(np.asarray(a, dtype=object), axis, -1)
        out = mk(moved.shape[:-1], "real")
        for idx in itertools.product(*[range(s) for s in moved.shape[:-1]]):
            out[idx] = self.sym_minmax(name, [P(v) for v in moved[idx]])
        return out

    def _arg_extreme(self, name, a, axis):
        a = wrap(a)
        if a.size == 0:
            raise ModelError(f"attempt to get {name} of an empty sequence")
        flat = a.reshape(-1)
        if all((is_number(v) and not isinstance(v, Poly)) or (isinstance(v, Poly) and v.is_const()) for v in flat):
            vals = np.asarray([float(P(v).const_value()) for v in flat]).reshape(a.shape)      # concrete data: numpy itself
            r = getattr(np, name)(vals, axis=axis)
            return int(r) if axis is None else SymArr(np.asarray(r).astype(object), "real")
        if axis is not None and a.ndim > 1:
            raise Unsupported(f"data dependent {name} along an axis")
        if self.choice is None:
            raise Unsupported(f"data dependent {name} without a choice policy")
        return self.choice(a.size, (name, a))

    def np_argmax(self, a, axis=None):
        return self._arg_extreme("argmax", a, axis)

    def np_argmin(self, a, axis=None):
        return self._arg_extreme("argmin", a, axis)

    def np_argsort(self, a, **k):
        kw_strict(k, "argsort", harmless=("kind",))
        a = wrap(a)
        flat = a.reshape(-1)
        if all(isinstance(v, (int, np.integer)) or (isinstance(v, Poly) and v.is_const()) for v in flat):
            vals = [int(P(v).const_value()) for v in flat]
            return SymArr(np.argsort(vals).astype(object), "real")
        raise Unsupported("argsort of symbolic data")

    def _reduce_bool(self, f, a, axis):
        a = wrap(a)
        moved = np.moveaxis(np.asarray(a, dtype=object), axis, -1)
        out = np.empty(moved.shape[:-1], dtype=object)
        for idx in np.ndindex(*moved.shape[:-1]):
            out[idx] = f(SymArr(moved[idx], "real"))
        return SymArr(out, "real")

    def np_any(self, a, axis=None, keepdims=False, **k):
        kw_strict(k, "any")
        if keepdims:
            return keepdims_fix(self.np_any(a, axis=axis), a, axis, True)
        if axis is not None:
            return self._reduce_bool(self.np_any, a, axis)
        a = wrap(a)
        unknown = False
        for v in a.reshape(-1):
            if v is True:
                return True
            if is_unknown(v):
                unknown = True
            elif v is not False:
                t = self.truth(v)
                if t is True:
                    return True
                if is_unknown(t):
                    unknown = True
        if unknown:
            return UNKNOWN(("any", [v for v in a.reshape(-1)]))
        return False

    def np_all(self, a, axis=None, keepdims=False, **k):
        kw_strict(k, "all")
        if keepdims:
            return keepdims_fix(self.np_all(a, axis=axis), a, axis, True)
        if axis is not None:
            return self._reduce_bool(self.np_all, a, axis)
        a = wrap(a)
        unknown = False
        for v in a.reshape(-1):
            if v is False:
                return False
            if is_unknown(v):
                unknown = True
            elif v is not True:
                t = self.truth(v)
                if t is False:
                    return False
                if is_unknown(t):
                    unknown = True
        if unknown:
            return UNKNOWN(("all", [v for v in a.reshape(-1)]))
        return True

    def np_isscalar(self, v):
        return not isinstance(v, (SymArr, list, tuple, Instance)) and (is_number(v) or isinstance(v, (Poly, SQ, SC, str)))

    def np_clip(self, a, lo, hi, **k):
        kw_strict(k, "clip")
        """np.clip: fresh array of the same shape; entry = the number itself when it is a constant, otherwise the
        atom ('clip', key(entry), lo, hi) (value numbering, nothing is evaluated)."""
        if not isinstance(a, SymArr) or a.kind != "real" or not all(is_number(x) and not isinstance(x, Poly) for x in (lo, hi)):
            return Opaque("clip")
        out = mk(a.shape, "real")
        of, af = out.reshape(-1), a.reshape(-1)
        for i in range(af.size):
            v = P(af[i])
            of[i] = Poly.const(min(max(v.const_value(), lo), hi)) if v.is_const() else Poly.atom(("clip", v.key(), lo, hi))
        return out

    def _pairwise(self, name, a, b):
        a, b = np.broadcast_arrays(np.asarray(wrap(a), dtype=object), np.asarray(wrap(b), dtype=object))
        out = mk(a.shape, "real")
        for idx in np.ndindex(*a.shape):
            out[idx] = self.sym_minmax(name, [a[idx], b[idx]])
        return out

    def np_nonzero(self, a):
        """indices of the entries that are non-zero; entries whose vanishing depends on data are decided through the chooser"""
        a = wrap(a)
        flat = list(a.reshape(-1))
        dec = []
        for v in flat:
            t = v if is_unknown(v) else (self.truth(v) if not isinstance(v, (bool, np.bool_)) else bool(v))   # elements of `arr != 0` are already three-valued
            if is_unknown(t):
                if self._interp is None:
                    raise Unsupported("data dependent np.nonzero")
                t = self._interp.decide(self._cur_node, t)
            dec.append(bool(t))
        return np.nonzero(np.asarray(dec, dtype=bool).reshape(a.shape))

    def np_round(self, v, decimals=0, **k):
        def one(x):
            x = P(x)
            if x.is_const():
                return Poly.const(round(float(x.const_value()), int(decimals)))
            return Poly.atom(("round", x.key(), int(decimals)))      # rounding changes a generic value: a new, distinct value
        if isinstance(v, SymArr) and v.kind == "complex":
            out = mk(v.shape, "complex")
            of, af = out.reshape(-1), v.reshape(-1)
            for i in range(af.size):
                c = SC.lift(af[i])
                of[i] = SC(one(c.re), one(c.im))
            return out
        return self._map(one, v)

    def np_add_at(self, a, idx, v):
        idx = self._conv_index(idx)
        base = np.asarray(a, dtype=object)
        if isinstance(idx, tuple):
            arrs = np.broadcast_arrays(*[np.asarray(i) for i in idx])
            vals = np.broadcast_to(np.asarray(wrap(v), dtype=object) if isinstance(v, (SymArr, list, tuple)) else np.asarray([v], dtype=object), arrs[0].shape) \
                if not np.isscalar(v) or True else None
            for k_ in np.ndindex(*arrs[0].shape):
                pos = tuple(int(x[k_]) for x in arrs)
                base[pos] = base[pos] + (vals[k_] if vals.shape == arrs[0].shape else v)
        else:
            ia = np.asarray(idx)
            for k_ in np.ndindex(*ia.shape):
                base[int(ia[k_])] = base[int(ia[k_])] + v

    def np_einsum(self, spec, *ops):
        arrs = [np.asarray(wrap(o), dtype=object) for o in ops]
        return wrap(np.einsum(spec, *arrs, optimize=False))

    def np_sign(self, v):
        def one(x):
            x = P(x)
            if x.is_const():
                c = x.const_value()
                return Poly.const(1 if c > 0 else (-1 if c < 0 else 0))
            from .scenario import is_nonneg
            if is_nonneg(x):
                return Poly.atom(("sign+", x.key()))     # 1 unless x == 0
            return Poly.atom(("sign", x.key()))
        return self._map(one, v)

    def _elem_fn(self, name, v):
        def one(x):
            x = P(x)
            if x.is_const() and name == "exp" and x.is_zero():
                return Poly.const(1)
            return Poly.atom((name, x.key()))
        return self._map(one, v)

    def _map(self, f, v):
        if isinstance(v, SymArr):
            out = mk(v.shape, "real")
            of, af = out.reshape(-1), v.reshape(-1)
            for i in range(af.size):
                of[i] = f(af[i])
            return out
        if isinstance(v, (list, tuple)):
            return self._map(f, self.np_array(v))
        return f(v)

    def np_diff(self, a, n=1, axis=-1):
        a = wrap(a)
        r = np.asarray(a, dtype=object)
        for _ in range(n):
            r = np.diff(r, axis=axis)
        return SymArr(r, a.kind)

    def np_where(self, cond, a=None, b=None):
        """np.where(cond) -> indices of the true entries; np.where(cond, a, b) -> elementwise selection.  A condition that depends on
        data is the elementwise maximum / minimum when it compares exactly the two alternatives (np.where(v > c, v, c)), otherwise it
        is decided through the chooser like an `if`."""
        if a is None and b is None:
            return self.np_nonzero(cond)
        if a is None or b is None:
            raise ModelError("np.where: either both or neither of x and y should be given")
        cw = wrap(cond) if isinstance(cond, (SymArr, np.ndarray, list, tuple)) else None
        aw = wrap(a) if isinstance(a, (SymArr, np.ndarray, list, tuple)) else None
        bw = wrap(b) if isinstance(b, (SymArr, np.ndarray, list, tuple)) else None
        arrs = [np.asarray(x, dtype=object) for x in (cw, aw, bw) if x is not None]
        shape = np.broadcast_shapes(*[x.shape for x in arrs]) if arrs else ()

        def bc(x, xw):
            if xw is None:
                o = np.empty(shape, dtype=object)
                for idx in np.ndindex(*shape):
                    o[idx] = x
                return o
            return np.broadcast_to(np.asarray(xw, dtype=object), shape)
        C, A, B = bc(cond, cw), bc(a, aw), bc(b, bw)
        kind = combine_kind(aw if aw is not None else a, bw if bw is not None else b)
        out = mk(shape, kind if kind in ("real", "complex", "quat", "int") else "real")
        for idx in np.ndindex(*shape):
            c, x, y = C[idx], A[idx], B[idx]
            if isinstance(c, (bool, np.bool_)):
                out[idx] = x if c else y
                continue
            t = c if is_unknown(c) else self.truth(c)
            if not is_unknown(t):
                out[idx] = x if t else y
                continue
            why = getattr(t, "why", None)
            done = False
            if isinstance(why, tuple) and len(why) == 3 and why[0] in ("gt", "ge", "lt", "le"):
                try:
                    l, r, px, py = P(why[1]), P(why[2]), P(x), P(y)
                    if l.same(px) and r.same(py):
                        out[idx] = self.sym_minmax("max" if why[0] in ("gt", "ge") else "min", [x, y])
                        done = True
                    elif l.same(py) and r.same(px):
                        out[idx] = self.sym_minmax("min" if why[0] in ("gt", "ge") else "max", [x, y])
                        done = True
                except TypeError:
                    pass
            if not done:
                if self._interp is None:
                    raise Unsupported("data dependent np.where")
                out[idx] = x if self._interp.decide(self._cur_node, t) else y
        if shape == ():
            return out[()]
        return out

    def np_diag(self, a, k=0):
        a = wrap(a)
        if a.ndim == 1:
            n = a.shape[0]
            out = mk((n, n), a.kind)
            for i in range(n):
                out[i, i] = a[i]
            return out
        return SymArr(np.diag(np.asarray(a, dtype=object), k), a.kind)

    def np_fill_diagonal(self, a, v):
        n = min(a.shape)
        for i in range(n):
            a[i, i] = v

    def _tri(self, a, k, upper):
        a = wrap(a)
        out = a.copy()
        z = zero_of(a.kind)
        if a.size and all(isinstance(v, (bool, np.bool_)) for v in a.reshape(-1)):
            z = False                     # boolean mask stays boolean
        for i in range(a.shape[0]):
            for j in range(a.shape[1]):
                if (j < i + k) if upper else (j > i + k):
                    out[i, j] = z
        return out

    # linear algebra ----------------------------------------------------------------
    def la_norm(self, a, ord=None, axis=None, **k):
        kw_strict(k, "norm")
        if isinstance(a, Opaque):
            return a
        if isinstance(a, (list, tuple)):
            a = self.np_array(a)
        a = wrap(a)
        if any(isinstance(v, Opaque) for v in a.reshape(-1)):
            return Opaque("norm")
        if axis is not None:
            raise Unsupported("norm with axis")
        if ord in (None, "fro", 2) and (ord != 2 or a.ndim == 1):
            s = Poly.const(0)
            for v in a.reshape(-1):
                if isinstance(v, (SQ, SC)):
                    s = s + v.norm2()
                else:
                    s = s + P(v) * P(v)
            return s.sqrt()
        return Opaque(f"norm-{ord}")

    def la_svd(self, a, full_matrices=True, compute_uv=True, hermitian=False, **k):
        kw_strict(k, "svd", harmless=("lapack_driver",))
        a = wrap(a)
        if hermitian is not False:
            # numpy computes the SVD from eigh of the (assumed exactly symmetric) matrix: only the lower triangle is read.  Sound
            # only when the matrix IS symmetric; a guard that merely tests closeness (allclose / isclose with an absolute
            # tolerance) lets nearly-symmetric input through and the factorisation of a different matrix is returned.
            it = self._interp
            tol_guard = [c for c, _n, dec in (it.decision_log if it is not None else [])
                         if dec and (getattr(c, "why", None) == "isclose" or (isinstance(getattr(c, "why", None), tuple) and c.why and c.why[0] == "allclose"))]
            sym = a.ndim == 2 and a.shape[0] == a.shape[1] and all(
                (a[i, j] - a[j, i]).is_zero() if hasattr(a[i, j] - a[j, i], "is_zero") else a[i, j] == a[j, i]
                for i in range(a.shape[0]) for j in range(i))
            ctx = getattr(self, "ctx", None)
            if sym:
                pass
            elif tol_guard and ctx is not None and it is not None:
                fi = it.call_stack[-1] if it.call_stack else None
                where = it.where(self._cur_node) if getattr(self, "_cur_node", None) is not None else getattr(fi, "where", "?")
                ctx.ob(f"{ctx.prop}.E3.svd-hermitian", f"svd(hermitian=True) in {getattr(fi, 'where', '?')}", False,
                       "np.linalg.svd(..., hermitian=True) is reached for a matrix that is only CLOSE to symmetric (the guard is a "
                       "tolerance test): numpy then reads one triangle only and returns the factors of a different matrix",
                       where=getattr(fi, "where", where), construct="svd(hermitian=True) behind a tolerance test", loc=getattr(fi, "where", where))
            else:
                raise Unsupported("svd(hermitian=True) on a matrix not known to be symmetric")
        if a.ndim != 2:
            raise ModelError("svd of non 2-D array")
        m, n = a.shape
        t = self.fresh("svd")
        r = min(m, n)
        s = labelled(f"svd{t}.s", (r,))
        self.events.append(("svd", t, a, full_matrices))
        if not compute_uv:
            return s
        if full_matrices:
            return labelled(f"svd{t}.U", (m, m)), s, labelled(f"svd{t}.Vt", (n, n))
        return labelled(f"svd{t}.U", (m, r)), s, labelled(f"svd{t}.Vt", (r, n))

    def la_qr(self, a, mode="full", **k):
        kw_strict(k, "qr")
        a = wrap(a)
        m, n = a.shape
        t = self.fresh("qr")
        self.events.append(("qr", t, a, mode))
        if mode in ("full",):
            return labelled(f"qr{t}.Q", (m, m)), labelled(f"qr{t}.R", (m, n))
        if mode in ("economic", "reduced"):
            r = min(m, n)
            return labelled(f"qr{t}.Q", (m, r)), labelled(f"qr{t}.R", (r, n))
        raise Unsupported(f"qr mode {mode}")

    def la_qr_np(self, a, mode="reduced"):
        return self.la_qr(a, mode={"reduced": "reduced", "complete": "full"}.get(mode, mode))

    def la_eig(self, a):
        a = wrap(a)
        n = a.shape[0]
        t = self.fresh("eig")
        self.events.append(("eig", t, a))
        return labelled(f"eig{t}.w", (n,), "complex"), labelled(f"eig{t}.V", (n, n), "complex")

    def la_eigh(self, a, **k):
        kw_strict(k, "eigh", harmless=("driver",))
        a = wrap(a)
        n = a.shape[0]
        t = self.fresh("eigh")
        self.events.append(("eigh", t, a))
        return labelled(f"eigh{t}.w", (n,), "real"), labelled(f"eigh{t}.V", (n, n), "complex" if a.kind == "complex" else "real")

    def la_eigvals(self, a):
        a = wrap(a)
        t = self.fresh("eigvals")
        return labelled(f"eigvals{t}.w", (a.shape[0],), "complex")

    def la_cholesky(self, a, **k):
        kw_strict(k, "cholesky")
        a = wrap(a)
        t = self.fresh("chol")
        self.events.append(("cholesky", t, a))
        return labelled(f"chol{t}.L", a.shape)

    def la_solve(self, a, b, **k):
        kw_strict(k, "solve", harmless=("assume_a",))
        a, b = wrap(a), wrap(b)
        t = self.fresh("solve")
        self.events.append(("solve", t, a, b))
        return labelled(f"solve{t}.X", (a.shape[1],) + tuple(b.shape[1:]))

    def la_hessenberg(self, a, calc_q=False, **k):
        """scipy.linalg.hessenberg: A = Q H Q^T.  Q is a matrix of fresh generic real symbols and H is DEFINED as Q^T A Q (exact,
        no orthogonality assumed) - the documented relation between the outputs is all a caller may rely on."""
        kw_strict(k, "hessenberg")
        a = wrap(a)
        n = a.shape[0]
        t = self.fresh("hess")
        Q = sym_real(f"hessQ{t}_", (n, n))
        Q._dt = None
        H = self.matmul(self.matmul(SymArr(np.asarray(Q, dtype=object).T, "real"), a), Q)
        self.events.append(("hessenberg", t, a, calc_q))
        return (H, Q) if calc_q else H

    def la_solve_triangular(self, a, b, **k):
        a, b = wrap(a), wrap(b)
        t = self.fresh("trsolve")
        self.events.append(("solve_triangular", t, a, b, dict(k)))
        return labelled(f"trsolve{t}.X", (a.shape[1],) + tuple(b.shape[1:]))

    def la_cholesky_scipy(self, a, lower=False, **k):
        kw_strict(k, "cholesky")
        a = wrap(a)
        t = self.fresh("chol")
        self.events.append(("cholesky", t, a))
        return labelled(f"chol{t}.{'L' if lower else 'U'}", a.shape)

    def la_pinv(self, a, **k):
        kw_strict(k, "pinv", harmless=("rcond", "rtol", "atol"))
        a = wrap(a)
        t = self.fresh("pinv")
        self.events.append(("pinv", t, a))
        return labelled(f"pinv{t}", (a.shape[1], a.shape[0]))

    # random ------------------------------------------------------------------------
    def rng_randn(self, *shape):
        shape = tuple(_dim(s) for s in shape if s is not None)
        t = self.fresh("rng")
        return sym_real(f"rnd{t}", shape) if shape else Poly.atom((f"rnd{t}",))

    # ---------------------------------------------------------------- quaternion module
    def _make_quaternion(self):
        d = self

        def as_float_array(a):
            if isinstance(a, (SQ, NQ)):
                return SymArr(np.array(list(a.c), dtype=object), "real")
            a = wrap(a)
            if a.kind != "quat":
                raise ModelError("as_float_array of a non-quaternion array")
            out = mk(a.shape + (4,), "real")
            for idx in itertools.product(*[range(s) for s in a.shape]):
                q = a[idx]
                for p in range(4):
                    out[idx + (p,)] = q.c[p]
            out._fbase = (a, out)        # numpy-quaternion returns a VIEW: stores into it change the quaternion array
            return out

        def as_quat_array(a):
            a = wrap(a)
            if a.ndim < 1 or a.shape[-1] != 4:
                raise ModelError("as_quat_array: last dimension must be 4")
            if a.kind != "real":
                raise ModelError("as_quat_array of a non-real array")
            out = mk(a.shape[:-1], "quat")
            for idx in itertools.product(*[range(s) for s in a.shape[:-1]]):
                out[idx] = SQ(*[a[idx + (p,)] for p in range(4)])
            return out

        qt = TypeModel("quaternion", lambda v: isinstance(v, SQ), lambda w=0, x=0, y=0, z=0: SQ(w, x, y, z))
        return Namespace("quaternion", as_float_array=as_float_array, as_quat_array=as_quat_array, quaternion=qt,
                         one=SQ(1), zero=SQ(0), x=SQ(0, 1), y=SQ(0, 0, 1), z=SQ(0, 0, 0, 1))

    # ---------------------------------------------------------------- scipy.sparse
    def _make_sparse(self):
        d = self

        def csr_matrix(arg, shape=None, **k):
            if isinstance(arg, SymArr):
                if arg.ndim != 2:
                    arg = arg.reshape(1, -1) if arg.ndim == 1 else arg
                r = arg.copy().view(SymArr)
                r.kind, r.sparse = arg.kind, True
                return r
            if isinstance(arg, tuple) and len(arg) == 2 and isinstance(arg[1], tuple):
                data, (rows, cols) = arg
                if shape is None:
                    raise Unsupported("csr_matrix triplets without shape")
                out = mk(shape, "real", sparse=True)
                for v, r, c in zip(d._it(data), d._it(rows), d._it(cols)):
                    r, c = _dim_index(r), _dim_index(c)      # index arrays built by integer arithmetic hold exact constants
                    if not (0 <= r < shape[0] and 0 <= c < shape[1]):
                        raise ModelError("csr_matrix: index out of bounds")
                    out[r, c] = out[r, c] + v
                return out
            if isinstance(arg, tuple) and len(arg) == 2 and all(isinstance(x, (int, np.integer)) or (isinstance(x, Poly) and x.is_const()) for x in arg):
                return mk(tuple(_dim(x) for x in arg), dtype_kind(k.get("dtype")) or "real", sparse=True)      # csr_matrix((m, n)): empty matrix
            if isinstance(arg, (list, tuple)):
                return csr_matrix(d.np_array(arg), shape=shape)
            raise Unsupported("csr_matrix constructor form")

        return Namespace("scipy.sparse", csr_matrix=csr_matrix, csc_matrix=csr_matrix,
                         issparse=lambda v: isinstance(v, SymArr) and v.sparse,
                         eye=lambda n, **k: csr_matrix(d.np_eye(n)))

    # ---------------------------------------------------------------- protocol
    def truth(self, v):
        if isinstance(v, SymArr):
            if v.size == 1:
                return self.truth(v.reshape(-1)[0])
            raise ModelError("The truth value of an array with more than one element is ambiguous")
        if isinstance(v, (SQ, SC, NQ)):
            return UNKNOWN(("truth", v))
        if isinstance(v, (np.bool_,)):
            return bool(v)
        if isinstance(v, np.integer):
            return bool(v)
        if isinstance(v, (DType, Namespace)):
            return True
        return super().truth(v)

    def to_scalar(self, v, what):
        if isinstance(v, SymArr) and v.size == 1:
            return v.reshape(-1)[0]
        if isinstance(v, (np.integer,)):
            return int(v)
        if isinstance(v, np.floating):
            return float(v)
        if isinstance(v, Opaque):
            return v
        return super().to_scalar(v, what)

    def make_complex(self, re, im):
        if isinstance(re, (SC, complex)) and is_number(im) and im == 0:
            return re
        if all(is_number(x) and not isinstance(x, Poly) for x in (re, im)):
            return complex(re, im)
        return SC(re, im)

    def hasattr(self, v, name):
        if isinstance(v, SymArr):
            if name in ("toarray", "tocsr", "power", "todense"):
                return v.sparse
            return name in ("shape", "dtype", "T", "ndim", "copy", "reshape", "real", "imag") or hasattr(np.ndarray, name)
        if isinstance(v, (Poly, SQ, SC)):
            return hasattr(v, name)
        if isinstance(v, (np.integer, np.floating)):
            return hasattr(v, name)
        return super().hasattr(v, name)

    def binop(self, interp, op, a, b, node):
        if op is operator.truediv and interp is not None and isinstance(b, (Poly, SymArr)):
            # log divisions by symbolic scalars together with the number of decisions taken so far (zero-divisor rules)
            self.last_division_numerator = a
            self.divisions.append((b, node, interp.where(node), len(interp.decision_log)))
        if isinstance(a, np.integer):
            a = int(a)
        if isinstance(b, np.integer):
            b = int(b)
        if isinstance(a, Opaque) or isinstance(b, Opaque):
            return a if isinstance(a, Opaque) else b
        if op in (operator.and_, operator.or_, operator.xor) and (isinstance(a, SymArr) or isinstance(b, SymArr)):
            # elementwise logic on masks: entries are Python bools, 0/1 constants (np.ones(dtype=bool)) or undecided conditions
            def tobool(x):
                if isinstance(x, (bool, np.bool_)) or is_unknown(x):
                    return bool(x) if not is_unknown(x) else x
                if isinstance(x, Poly) and x.is_const() and x.const_value() in (0, 1):
                    return bool(x.const_value())
                if isinstance(x, (int, np.integer)) and x in (0, 1):
                    return bool(x)
                raise Unsupported(f"bitwise {op.__name__} on non-boolean data")
            conv = np.frompyfunc(tobool, 1, 1)
            aa = conv(np.asarray(a, dtype=object)) if isinstance(a, SymArr) else tobool(a)
            bb = conv(np.asarray(b, dtype=object)) if isinstance(b, SymArr) else tobool(b)
            try:
                return SymArr(op(aa, bb), "real")
            except ValueError as e:
                raise ModelError(str(e))
        if op is operator.matmul:
            return self.matmul(a, b)
        if isinstance(a, SymArr) or isinstance(b, SymArr):
            if op in (operator.pow, operator.mul, operator.add, operator.sub) and combine_kind(a, b) == "int" \
                    and interp is not None:
                # arithmetic carried out in a fixed-width integer dtype (may wrap around): recorded for the rules
                self.events.append(("int-arith", op.__name__, interp.where(node)))
            aa = np.asarray(a, dtype=object) if isinstance(a, SymArr) else a
            bb = np.asarray(b, dtype=object) if isinstance(b, SymArr) else b
            if isinstance(aa, (list, tuple)):
                aa = np.asarray(self.np_array(aa), dtype=object)
            if isinstance(bb, (list, tuple)):
                bb = np.asarray(self.np_array(bb), dtype=object)
            if isinstance(a, SymArr) and a.sparse and isinstance(b, SymArr) and op is operator.mul and b.ndim >= 1 and b.size > 1:
                # scipy: `*` is the MATRIX product for the spmatrix classes (csr_matrix ...) and the ELEMENTWISE product for the sparse
                # array classes (csr_array ...): the meaning of the expression depends on which container the caller used
                ctx = getattr(self, "ctx", None)
                if ctx is not None and interp is not None:
                    fi = interp.call_stack[-1] if interp.call_stack else None
                    where = interp.where(node)
                    ctx.ob(f"{ctx.prop}.E3.sparse-star", f"sparse * array at {where}", False,
                           "`*` between a scipy sparse operand and an array: matrix product for sparse matrices, elementwise product for "
                           "sparse arrays - the result depends on the container class of the operand (use @)",
                           where=getattr(fi, "where", where), construct="sparse * array (container-dependent meaning)", loc=where)
                    return self.matmul(a, b) if a.ndim == 2 and b.ndim in (1, 2) and a.shape[1] == b.shape[0] else SymArr(op(aa, bb), combine_kind(a, b), True)
                raise Unsupported("sparse * array")
            try:
                r = op(aa, bb)
            except ValueError as e:
                raise ModelError(str(e))
            sparse = any(isinstance(x, SymArr) and x.sparse for x in (a, b))
            res = SymArr(r, combine_kind(a, b), sparse)
            if op in (operator.add, operator.sub, operator.mul):
                tags = {x._dt for x in (a, b) if isinstance(x, SymArr)}
                others = [x for x in (a, b) if not isinstance(x, SymArr)]
                if len(tags) == 1 and all(isinstance(x, (bool, int)) for x in others):
                    res._dt = next(iter(tags))
            return res
        if isinstance(a, float) and isinstance(b, (Poly, SQ, SC)) or isinstance(b, float) and isinstance(a, (Poly, SQ, SC)):
            pass
        return super().binop(interp, op, a, b, node)

    def matmul(self, a, b):
        if not isinstance(a, SymArr) or not isinstance(b, SymArr):
            raise ModelError("matmul: Input operand does not have enough dimensions")
        if a.kind == "quat" or b.kind == "quat":
            raise ModelError("matmul is not defined for quaternion dtype arrays")
        if a.ndim == 0 or b.ndim == 0:
            raise ModelError("matmul: Input operand does not have enough dimensions")
        if a.shape[-1] != (b.shape[-2] if b.ndim >= 2 else b.shape[0]):
            raise ModelError(f"matmul: shapes {a.shape} and {b.shape} not aligned")
        aa, bb = np.asarray(a, dtype=object), np.asarray(b, dtype=object)
        if aa.shape[-1] == 0:
            shape = aa.shape[:-1] + (bb.shape[1:] if bb.ndim >= 2 else ())
            return mk(shape, combine_kind(a, b))
        r = aa @ bb
        if not isinstance(r, np.ndarray):
            return r
        return SymArr(r, combine_kind(a, b), a.sparse and b.sparse)

    def inplace_result(self, interp, op, cur, new, node):
        """Augmented assignment on a name bound to a dense ndarray: numpy writes the result into the existing
        buffer (same object, aliases updated); shape / dtype-class changes raise as numpy does."""
        if op is operator.matmul or not isinstance(cur, SymArr) or cur.sparse or not isinstance(new, SymArr):
            return new
        order = {"real": 0, "complex": 1, "quat": 2}
        if tuple(new.shape) != tuple(cur.shape):
            raise ModelError(f"non-broadcastable output operand with shape {cur.shape} doesn't match the broadcast shape {new.shape}")
        if order[new.kind] > order[cur.kind]:
            raise ModelError(f"cannot cast in-place result from {new.kind} to {cur.kind}")
        self.note_store(cur, new, interp, node)
        np.asarray(cur, dtype=object)[...] = np.asarray(new, dtype=object)
        return cur

    def unop(self, interp, op, v, node):
        if op is operator.invert and isinstance(v, SymArr) and v.size and all(
                isinstance(x, (bool, np.bool_)) or is_unknown(x) for x in v.reshape(-1)):
            f = np.frompyfunc(lambda x: (not x) if isinstance(x, (bool, np.bool_)) else ~x, 1, 1)
            return SymArr(f(np.asarray(v, dtype=object)), "real")
        if op is operator.invert and (isinstance(v, (bool, np.bool_))):
            return not v
        if isinstance(v, SymArr):
            return with_dt(SymArr(op(np.asarray(v, dtype=object)), v.kind, v.sparse), v._dt)
        return op(v)

    def compare(self, interp, op, a, b, node):
        if isinstance(a, DType) or isinstance(b, DType):
            d, o = (a, b) if isinstance(a, DType) else (b, a)
            r = d.__eq__(o)
            return r if op is operator.eq else (not r)
        if isinstance(a, SymArr) or isinstance(b, SymArr):
            aa = np.asarray(a, dtype=object) if isinstance(a, SymArr) else a
            bb = np.asarray(b, dtype=object) if isinstance(b, SymArr) else b
            if isinstance(b, tuple) and op in (operator.eq, operator.ne):
                return op(tuple(a.shape), b) if False else UNKNOWN("array==tuple")
            try:
                r = op(aa, bb)
            except UnknownTruth:
                # element comparisons that depend on symbolic data: object array of UNKNOWN conditions
                r = np.frompyfunc(op, 2, 1)(aa, bb)
            if isinstance(r, np.ndarray):
                return SymArr(r, "real")
            return r
        if isinstance(a, np.integer):
            a = int(a)
        if isinstance(b, np.integer):
            b = int(b)
        return super().compare(interp, op, a, b, node)

    def getattr(self, interp, obj, attr, node=None):
        if isinstance(obj, (Namespace, _UFunc, _ArithUFunc)):
            return getattr(obj, attr)
        if isinstance(obj, SymArr):
            return self.arr_attr(obj, attr, node, interp)
        if isinstance(obj, np.ndarray) and obj.dtype != object and attr in (
                "shape", "size", "ndim", "T", "tolist", "any", "all", "sum", "min", "max", "copy", "astype", "reshape", "ravel",
                "flatten", "item", "dtype", "nonzero", "argmax", "argmin", "cumsum"):
            return getattr(obj, attr)       # concrete (index / boolean) arrays: numpy itself
        if isinstance(obj, (Poly, SQ, SC, NQ)):
            if attr in ("w", "x", "y", "z", "real", "imag", "conj", "conjugate", "abs", "norm", "inverse", "sqrt"):
                if isinstance(obj, Poly) and attr in ("w", "x", "y", "z"):
                    raise ModelError(f"'float' object has no attribute {attr!r}")
                return getattr(obj, attr)
            if attr == "shape":
                return ()
            if attr == "item":
                return lambda: obj
            if attr == "astype":
                return lambda t: obj
            raise ModelError(f"scalar has no attribute {attr!r}")
        if isinstance(obj, (np.integer, np.floating, complex)):
            return getattr(obj, attr)
        if isinstance(obj, Opaque):
            return Opaque(obj.why + "." + attr)
        if isinstance(obj, DType):
            raise Unsupported(f"dtype attribute {attr}")
        return super().getattr(interp, obj, attr, node)

    def arr_attr(self, a, attr, node, interp):
        if attr == "shape":
            return tuple(int(s) for s in a.shape)
        if attr == "ndim":
            return int(a.ndim)
        if attr == "size":
            return int(a.size)
        if attr == "dtype":
            return DType(a.kind, a._dt)
        if attr == "T":
            return with_dt(SymArr(np.asarray(a, dtype=object).T, a.kind, a.sparse), a._dt)
        if attr in ("real", "imag") and not a.sparse:
            return self._part(a, attr)
        if attr == "copy":
            return lambda *x, **k: with_dt(SymArr(np.array(a, dtype=object, copy=True), a.kind, a.sparse), a._dt)      # (fresh: no _fbase)
        if attr == "reshape":
            def reshape(*shape, **k):
                if len(shape) == 1 and isinstance(shape[0], (tuple, list)):
                    shape = tuple(shape[0])
                order = k.get("order", "C")      # 'A' / 'K' follow the MEMORY layout of the array (numpy semantics kept)
                try:
                    return SymArr(np.asarray(a, dtype=object).reshape(tuple(int(s) for s in shape), order=order), a.kind)
                except ValueError as e:
                    raise ModelError(str(e))
            return reshape
        if attr in ("flatten", "ravel"):
            return lambda order="C": SymArr(np.asarray(a, dtype=object).ravel(order=order).copy(), a.kind)
        if attr == "transpose":
            return lambda *axes: SymArr(np.asarray(a, dtype=object).transpose(*axes), a.kind, a.sparse)
        if attr == "swapaxes":
            return lambda a1, a2: SymArr(np.asarray(a, dtype=object).swapaxes(a1, a2), a.kind)
        if attr in ("conj", "conjugate"):
            def conj():
                r = self.np_conj(a)
                r.sparse = a.sparse
                return r
            return conj
        if attr == "astype":
            def astype(t, **k):
                r = self._astype(a, dtype_kind(t)) if dtype_kind(t) else a.copy()
                src = dt_of(t)
                if src is not None and isinstance(r, SymArr):
                    probe = with_dt(mk((), r.kind), src)
                    self.note_store(probe, a, interp, node)          # x.astype(y.dtype): a cast into the dtype of one input
                    r = with_dt(r.copy() if r is a else r, src)
                elif isinstance(r, SymArr) and isinstance(t, (TypeModel, str)):
                    r = with_dt(r.copy() if r is a else r, None)
                return r
            return astype
        if attr == "mean":
            return lambda axis=None, **k: self.np_mean(a, axis=axis, **k)
        if attr == "all":
            return lambda axis=None, **k: self.np_all(a, axis=axis, **k)
        if attr == "any":
            return lambda axis=None, **k: self.np_any(a, axis=axis, **k)
        if attr == "diagonal":
            return lambda offset=0: SymArr(np.diagonal(np.asarray(a, dtype=object), offset).copy(), a.kind)
        if attr == "view":
            return lambda dtype=None, **k: self.arr_view(a, dtype)
        if attr == "sum":
            return lambda axis=None, **k: self.np_sum(a, axis=axis, **k)
        if attr == "max":
            return lambda axis=None, **k: self.np_max(a, axis=axis, **k)
        if attr == "min":
            return lambda axis=None, **k: self.np_min(a, axis=axis, **k)
        if attr == "dot":
            return lambda b: self.matmul(a, b)
        if attr == "tolist":
            return lambda: np.asarray(a, dtype=object).tolist()
        if attr == "item":
            return lambda *i: a.reshape(-1)[0] if not i else a[i]
        if attr == "fill":
            def fill(v):
                f = a.reshape(-1)
                for i in range(f.size):
                    f[i] = v
            return fill
        if attr in ("tocsr", "tocsc", "tocoo"):
            def tocsr(*x, **k):
                r = a.view(SymArr)
                r.kind, r.sparse = a.kind, True
                return r
            return tocsr
        if a.sparse:
            if attr in ("toarray", "todense"):
                return lambda: SymArr(np.array(a, dtype=object, copy=True), a.kind, False)
            if attr == "power":
                def power(n):
                    return SymArr(np.asarray(a, dtype=object) ** n, a.kind, True)
                return power
            if attr == "multiply":
                return lambda b: SymArr(np.asarray(a, dtype=object) * np.asarray(b, dtype=object), a.kind, True)
            if attr in ("eliminate_zeros", "sort_indices", "sum_duplicates", "prune"):
                # in-place normalisations of the STORAGE: the matrix (its entries) is unchanged - whether the receiver may be the
                # caller's object is an effect question (C14), not a value question
                return lambda *x, **k: None
            if attr == "nnz":
                # number of stored entries of the canonical storage of THIS matrix: its entries that are not identically zero
                # (explicitly stored zeros / duplicates are a property of a particular container, see .data)
                return int(sum(1 for v in a.reshape(-1) if not (hasattr(v, "is_zero") and v.is_zero()) and not (is_number(v) and not isinstance(v, Poly) and v == 0)))
            if attr in ("data", "indices", "indptr", "row", "col"):
                # raw storage of a scipy sparse matrix: representation dependent (duplicate entries that sum to the value,
                # explicit zeros, unsorted indices are all legal) - nothing about it follows from the matrix entries
                return Opaque(f"sparse storage .{attr}")
        raise Unsupported(f"unknown-external ndarray.{attr}" + (f" at {interp.where(node)}" if node is not None and interp else ""))

    def getitem(self, interp, obj, idx, node):
        self._cur_node = node
        if isinstance(obj, SymArr):
            idx = self._conv_index(idx)
            r = np.asarray(obj, dtype=object)[idx]
            if isinstance(r, np.ndarray):
                # basic indexing returns a view: keep sharing memory with obj
                v = obj[idx]
                if isinstance(v, np.ndarray):
                    v = v.view(SymArr)
                    v.kind, v.sparse = obj.kind, False
                    return v
            return r
        if isinstance(obj, Opaque):
            return obj
        if isinstance(obj, np.ndarray):
            return obj[self._conv_index(idx)]
        if isinstance(idx, (Poly,)) and idx.is_const():
            idx = int(idx.const_value())
        if isinstance(idx, np.integer):
            idx = int(idx)
        return obj[idx]

    def _conv_index(self, idx):
        def one(i):
            if isinstance(i, Poly):
                if i.is_const() and i.const_value().denominator == 1:
                    return int(i.const_value())
                raise Unsupported("symbolic index")
            if isinstance(i, SymArr):
                flat = list(i.reshape(-1))
                if flat and all(isinstance(v, (bool, np.bool_)) or is_unknown(v) for v in flat):
                    # boolean mask whose entries may depend on data: every entry is decided through the interpreter's
                    # chooser (explicit, default-generic or forced in an alternative scenario)
                    dec = []
                    for v in flat:
                        if is_unknown(v):
                            if self._interp is None:
                                raise Unsupported("data dependent boolean mask")
                            v = self._interp.decide(self._cur_node, v)
                        dec.append(bool(v))
                    return np.asarray(dec, dtype=bool).reshape(i.shape)
                return np.asarray([int(P(v).const_value()) for v in flat], dtype=np.intp).reshape(i.shape)
            if isinstance(i, slice):
                return slice(one(i.start) if i.start is not None else None, one(i.stop) if i.stop is not None else None,
                             one(i.step) if i.step is not None else None)
            if isinstance(i, list):
                return [one(x) for x in i]
            return i
        if isinstance(idx, tuple):
            return tuple(one(i) for i in idx)
        return one(idx)

    def setitem(self, interp, obj, idx, v, node):
        self._cur_node = node
        if isinstance(obj, SymArr):
            idx = self._conv_index(idx)
            base = np.asarray(obj, dtype=object)
            if isinstance(v, SymArr):
                self.note_store(obj, v, interp, node)      # (scalar stores carry no dtype provenance: not judged)
                vv = np.asarray(v, dtype=object)
            elif isinstance(v, (list, tuple)):
                vv = np.asarray(self.np_array(v), dtype=object)
            else:
                if obj.kind == "quat" and not isinstance(v, (SQ, NQ)):
                    v = SQ.lift(v) if SQ.lift(v) is not None else v
                if obj.kind == "real" and isinstance(v, (SQ, SC)):
                    raise ModelError("cannot store a quaternion/complex value into a real array")
                cell = np.empty((), dtype=object)
                cell[()] = v
                try:
                    base[idx] = cell[()] if not isinstance(base[idx], np.ndarray) else cell
                except ValueError as e:
                    raise ModelError(str(e))
                self._sync_float_view(obj)
                return
            if obj.kind == "quat":
                lift = np.frompyfunc(lambda x: x if isinstance(x, (SQ, NQ)) else SQ.lift(x), 1, 1)
                vv = lift(vv)
            elif obj.kind == "real":
                for x in np.asarray(vv, dtype=object).reshape(-1)[:1]:
                    if isinstance(x, (SQ, SC)):
                        raise ModelError("cannot store a quaternion/complex value into a real array")
            try:
                cur = base[idx]
                if not isinstance(cur, np.ndarray) and isinstance(vv, np.ndarray) and vv.size == 1:
                    base[idx] = vv.reshape(-1)[0]      # numpy converts a size-1 array stored into a single cell
                else:
                    base[idx] = vv
            except ValueError as e:
                raise ModelError(str(e))
            self._sync_float_view(obj)
            return
        if isinstance(idx, np.integer):
            idx = int(idx)
        obj[idx] = v

    def setattr(self, interp, obj, attr, v, node):
        if isinstance(obj, SymArr) and attr in ("real", "imag"):
            vv = np.broadcast_to(np.asarray(wrap(v), dtype=object) if isinstance(v, (SymArr, list, tuple)) else np.asarray(v, dtype=object), obj.shape)
            flat = obj.reshape(-1)
            vf = vv.reshape(-1)
            if obj.kind == "complex":
                for i in range(flat.size):
                    c = SC.lift(flat[i])
                    flat[i] = SC(vf[i], c.im) if attr == "real" else SC(c.re, vf[i])
                return
            if obj.kind == "real" and attr == "real":
                for i in range(flat.size):
                    flat[i] = vf[i]
                return
        return super().setattr(interp, obj, attr, v, node)

    def _sync_float_view(self, obj):
        fb = getattr(obj, "_fbase", None)
        if fb is None:
            return
        qarr, root = fb
        if not np.shares_memory(np.asarray(obj), np.asarray(root)):
            return
        for idx in itertools.product(*[range(s_) for s_ in qarr.shape]):
            comps = [root[idx + (p,)] for p in range(4)]
            old_q = qarr[idx]
            if isinstance(old_q, SQ) and all(P(a_).same(b_) for a_, b_ in zip(comps, old_q.c)):
                continue
            np.asarray(qarr, dtype=object)[idx] = SQ(*comps)

    def iterate(self, interp, v, node):
        if isinstance(v, np.ndarray) and not isinstance(v, SymArr):
            return [x if not isinstance(x, np.generic) else x.item() for x in v] if v.ndim == 1 else [v[i] for i in range(v.shape[0])]
        if isinstance(v, SymArr):
            if v.ndim == 0:
                raise ModelError("iteration over a 0-d array")
            return [self.getitem(interp, v, i, node) for i in range(v.shape[0])]
        if isinstance(v, (np.ndindex, itertools.product, itertools.combinations, itertools.permutations)):
            return list(v)
        return NotImplemented

    def contains(self, interp, container, item, node):
        return super().contains(interp, container, item, node)

    def b_len(self, v):
        if isinstance(v, SymArr):
            if v.ndim == 0:
                raise ModelError("len() of unsized object")
            return int(v.shape[0])
        return super().b_len(v)

    def b_abs(self, v):
        if isinstance(v, SymArr):
            return self.np_abs(v)
        return super().b_abs(v)


def _shape_of_nested(lst):
    if isinstance(lst, (list, tuple)):
        if not lst:
            return (0,)
        sub = _shape_of_nested(lst[0])
        for x in lst[1:]:
            if _shape_of_nested(x) != sub:
                raise ModelError("inhomogeneous array shape")
        return (len(lst),) + sub
    return ()


def _fill_nested(a, lst, idx):
    if isinstance(lst, (list, tuple)):
        for i, x in enumerate(lst):
            _fill_nested(a, x, idx + (i,))
    else:
        a[idx] = lst
