"""C10 - every Schur variant preserves the similarity A = Q T Q^H; deflation is guarded; the converged flag is witnessed.

All five code paths are interpreted over generic symbolic quaternion (or real 4n x 4n) arrays with
hessenbergize, householder_matrix, ggivens and the shift estimators replaced by fresh generic symbols
(no unitarity assumed).  Decided clauses:
  D1 similarity bookkeeping as polynomial identities: with E the ordered product of the embedded
     reflectors/rotations generated during the run, the working matrix is E (H0 - sigma I) E^H + sigma I
     summed over the sweeps (i.e. every left update is paired with the adjoint right update on the same
     index set and the shift is restored), the accumulator is Q_accum = E^H (right multiplication in the
     same order), and the returned Q equals P0^H Q_accum, T is the working matrix - on every explored
     return path (converged or budget exhausted).  For unitary reflectors this is A = Q T Q^H.
  D2 every store of zero into a sub-diagonal entry is guarded by a comparison of that entry's modulus (or
     squared modulus) with a bound proportional to tol (tol^2).
  D3 flag witness: diagnostics report converged only as the outcome of a test `w <= tol` where w bounds the
     modulus of EVERY entry of the returned T below the diagonal.
Not decided: unitarity of the generated reflectors, convergence, accuracy.
"""
from __future__ import annotations

import itertools

import numpy as np

from qstatic.alg import Poly, SQ, NQ, as_quat, P, is_unknown, IKey
from qstatic.dom_sym import sym_quat, sym_nq, sym_real, arrays_same, first_diff, mk, SymArr, wrap
from qstatic.interp import FuncRef, RepoRaise, ModelError, PathExplorer
from .common import new_interp, ref_matmul, ref_hermitian, run_guarded, short
from .common_nc import cond_canon as cond_parts, cond_atoms

LEVEL = "other"
EXPLANATION = ("quaternion_schur, quaternion_schur_pure, quaternion_schur_pure_implicit, quaternion_schur_unified (aed/ds) and "
               "quaternion_schur_experimental are interpreted on generic symbolic matrices with reflectors / rotations / shifts as "
               "fresh symbols; similarity bookkeeping is decided as polynomial identities; deflation stores and the converged flag "
               "are decided from the recorded comparisons (their operands and outcomes).")

TOL = Poly.atom("tol")


def eyeq(n):
    E = mk((n, n), "quat")
    for i in range(n):
        E[i, i] = SQ(1)
    return E


def embed(B, offset, n):
    E = eyeq(n)
    k = B.shape[0]
    for i in range(k):
        for j in range(k):
            E[offset + i, offset + j] = B[i, j]
    return E


def shiftI(H, sigma, sign):
    R = H.copy()
    for i in range(H.shape[0]):
        R[i, i] = R[i, i] + SQ(sigma) * sign
    return R


def modulus(q):
    return as_quat(q).norm2().sqrt()


def nq_matmul(it, A, B):
    A, B = wrap(A), wrap(B)
    if A.ndim != 2 or B.ndim != 2 or A.shape[1] != B.shape[0]:
        raise ModelError(f"quat_matmat: shapes {A.shape} and {B.shape} not aligned")
    return SymArr(np.asarray(A, dtype=object) @ np.asarray(B, dtype=object), "quat")


def nq_hermitian(it, A):
    A = wrap(A)
    out = mk(tuple(reversed(A.shape)), "quat")
    for i in range(A.shape[0]):
        for j in range(A.shape[1]):
            out[j, i] = as_quat(A[i, j]).conjugate()
    return out


def key_to_poly(k):
    return Poly(dict(k))


def flatten_max(p, acc):
    """set of Poly keys bounded by p when p is a (nested) symbolic max"""
    p = P(p)
    s = p.as_single_atom()
    if s is not None and s[0] == 1 and s[2] == 1 and isinstance(s[1], tuple) and s[1] and s[1][0] == "max":
        for k in s[1][1:]:
            flatten_max(key_to_poly(k), acc)
    else:
        acc.add(p.key())
    return acc


class Recorder:
    """chooser that records (cond, node, decision) and decides through `policy`"""

    def __init__(self, policy):
        self.policy, self.log = policy, []

    def __call__(self, interp, node, cond):
        r = self.policy(cond, node, interp, self)
        if r is None:
            return None
        self.log.append((cond, node, bool(r)))
        return bool(r)


def is_tol_cond(cond):
    return any(a == "tol" for a in cond_atoms(cond))


def tol_proportional(rhs, power):
    """every term of rhs contains tol^power (the bound scales with the tolerance)"""
    rhs = P(rhs)
    if rhs.is_zero():
        return False
    for m in rhs.terms:
        e = dict(m).get("tol", 0)
        if e < power:
            return False
    return True


def check_deflation(ctx, f, tag, log, T_pre, T_post, n, allow_full_lower_cleanup=False):
    """D2: every entry of T_post that became an exact zero although T_pre had a non-zero expression must have been
    compared (modulus or squared modulus) with a tol-proportional bound, outcome True."""
    small = set()
    for cond, node, dec in log:
        parts = cond_parts(cond)
        if not parts or not dec or parts[0] not in ("le", "lt"):
            continue
        op, lhs, rhs = parts
        for i in range(n):
            for j in range(i):
                q = as_quat(T_pre[i, j])
                if q.is_zero():
                    continue
                if P(lhs).same(q.norm2().sqrt()) and tol_proportional(rhs, 1):
                    small.add((i, j))
                if P(lhs).same(q.norm2()) and tol_proportional(rhs, 2):
                    small.add((i, j))
    ok, why = True, ""
    for i in range(n):
        for j in range(n):
            a, b = as_quat(T_pre[i, j]), as_quat(T_post[i, j])
            if a.same(b):
                continue
            if b.is_zero() and i > j and (i, j) in small:
                continue
            ok, why = False, (f"entry ({i},{j}) is changed/zeroed without a guarding comparison of its modulus with a bound "
                              f"proportional to tol")
            break
        if not ok:
            break
    ctx.ob("C10.D2.deflation", tag, ok, why, where=f.where, construct="unguarded deflation store", loc=f.loc())
    return small


def check_flag(ctx, f, tag, diag, log, T, n):
    flag = diag.get("converged") if isinstance(diag, dict) else None
    if flag is False:
        ctx.ob("C10.D3.flag", tag + " (not converged)", True, where=f.where, construct="converged flag", loc=f.loc())
        return
    lower = {modulus(T[i, j]).key() for i in range(n) for j in range(i) if not as_quat(T[i, j]).is_zero()}
    witness = None
    if is_unknown(flag):
        parts = cond_parts(flag)
        if parts and parts[0] in ("le", "lt") and P(parts[2]).same(TOL):
            witness = parts[1]
    elif flag is True:
        # find the deciding condition: the last True decision of the form w <= tol
        for cond, node, dec in reversed(log):
            parts = cond_parts(cond)
            if parts and dec and parts[0] in ("le", "lt") and P(parts[2]).same(TOL):
                witness = parts[1]
                break
    if witness is None:
        ctx.ob("C10.D3.flag", tag, False, "converged is reported without being derived from a test `w <= tol`", where=f.where,
               construct="converged flag without witness", loc=f.loc(), detail=short(flag))
        return
    bounded = flatten_max(witness, set())
    missing = [k for k in lower if k not in bounded]
    ctx.ob("C10.D3.flag", tag, not missing,
           f"converged is derived from a witness that does not bound {len(missing)} of the {len(lower)} entries of the returned T "
           f"below the diagonal (e.g. only the first sub-diagonal)", where=f.where,
           construct="converged flag from a partial witness", loc=f.loc())


def std_summaries(n, rec):
    """hessenbergize -> generic (P0, H0); check_hessenberg -> identity (C09); householder_matrix -> generic reflector"""
    def s_hess(it, A):
        rec["A"] = A
        rec["P0"], rec["H0"] = sym_nq("p", (n, n)), sym_nq("h", (n, n))
        return rec["P0"], rec["H0"].copy()

    def s_chk(it, H, atol=1e-12):
        return H.copy()

    def s_house(it, a, v):
        k = len(rec.setdefault("house", []))
        m = a.shape[0]
        B = sym_nq(f"b{k}x", (m, m))
        rec["house"].append((wrap(a).copy(), v, B))
        return B

    return {"decomp.hessenberg:hessenbergize": s_hess, "decomp.hessenberg:check_hessenberg": s_chk,
            "decomp.tridiagonalize:householder_matrix": s_house,
            "utils:quat_matmat": nq_matmul, "utils:quat_hermitian": nq_hermitian}


def run_variant(ctx, f, tag, n, kwargs, policy, extra_summ=None, pre_defl_capture=None):
    rec = {}
    summ = std_summaries(n, rec)
    if extra_summ:
        summ.update(extra_summ(rec))
    chooser = Recorder(policy)
    it, d = new_interp(ctx, chooser=chooser, summaries=summ)
    A = sym_nq("a", (n, n))
    A0 = A.copy()
    st, out = run_guarded(lambda: it.run(f, [A], kwargs))
    rec["it"] = it
    return st, out, rec, chooser, A, A0, d


def run(ctx):
    prog = ctx.program
    f_pure = prog.func("decomp.schur", "quaternion_schur_pure")
    f_impl = prog.func("decomp.schur", "quaternion_schur_pure_implicit")
    f_uni = prog.func("decomp.schur", "quaternion_schur_unified")
    f_exp = prog.func("decomp.schur", "quaternion_schur_experimental")
    f_real = prog.func("decomp.schur", "quaternion_schur")
    for f in (f_pure, f_impl, f_uni, f_exp, f_real):
        ctx.touch(f)
    ctx.assume("householder_matrix / ggivens return unitary (orthogonal) matrices (numerical clause, C08/C16 anchors)",
               "hessenbergize returns H0 = P0 A P0^H (C09); quat_matmat / quat_hermitian interpreted from source (C01)",
               "python ast reflects the code that runs")
    n = 3

    # policies: defl = set of indices i whose "is small" comparison is answered True
    def mk_policy(conv, small_at=(), skip_reflector=False):
        state = {"k": 0}

        def policy(cond, node, interp, rec):
            parts = cond_parts(cond)
            atoms = cond_atoms(cond)
            if parts is None:
                return None               # not a comparison (np.any / np.all / allclose ...): generic default outcome
            op, lhs, rhs = parts
            if is_tol_cond(cond):
                lhsP = P(lhs)
                # convergence test: w <= tol with w a max-type witness or a plain rhs == tol
                if P(rhs).same(TOL) and op in ("le", "lt"):
                    s = lhsP.as_single_atom()
                    if s is not None and isinstance(s[1], tuple) and s[1][0] == "max":
                        return conv
                    # skip-test of a sweep step (sv <= tol): do not skip unless asked
                    return skip_reflector
                # deflation tests (bound proportional to tol)
                idx = state["k"]
                state["k"] += 1
                return idx in small_at
            return False
        return policy

    # ================================================================= quaternion_schur_pure
    pure_cfgs = [(3, sm, cv, sa) for sm in ("none", "rayleigh") for cv in (False, True) for sa in ((), (0,))]
    if ctx.thorough:
        pure_cfgs.append((4, "rayleigh", False, (1,)))
    for (n, shift_mode, conv, small_at) in pure_cfgs:
        if True:
            if True:
                tag = f"pure[{shift_mode}] n={n} conv={conv} deflate={list(small_at)}"
                st, out, rec, ch, A, A0, d = run_variant(
                    ctx, f_pure, tag, n, dict(max_iter=1, tol=TOL, return_diagnostics=True, shift_mode=shift_mode),
                    _pure_policy(conv, small_at, shift_nonzero=True))
                if st != "ok":
                    ctx.ob("C10.D1.similarity", tag, False, f"fails in-domain: {out}", where=f_pure.where, construct="pure fails",
                           loc=f_pure.loc())
                    continue
                Q, T, diag = out
                H0, P0 = rec["H0"], rec["P0"]
                sigma = H0[n - 1, n - 1].w if shift_mode == "rayleigh" else Poly.const(0)
                # reference: Q_iter = Hj_last ... Hj_0 (embedded at j), R = Q_iter (H0 - sigma I); H = R Q_iter^H + sigma I
                Rw = shiftI(H0, sigma, -1)
                Qi = eyeq(n)
                okprov, why = True, ""
                houses = list(rec.get("house", []))
                hi = 0
                from qstatic.scenario import known_zero_keys
                kz = known_zero_keys(rec["it"].decision_log)

                def _is0(q):
                    q = as_quat(q)
                    return q.is_zero() or q.key() in kz or all((c.is_zero() or c.key() in kz) for c in q.c)
                for j in range(n - 1):
                    below_zero = all(_is0(Rw[t, j]) for t in range(j + 1, n))
                    if hi < len(houses) and arrays_same(houses[hi][0], Rw[j:, j]):
                        a, v, B = houses[hi]
                        hi += 1
                        Hj = embed(B, j, n)
                        Rw = ref_matmul(Hj, Rw)
                        Qi = ref_matmul(Hj, Qi)
                    elif below_zero:
                        continue          # column already reduced (structurally zero below the diagonal): no reflector needed
                    else:
                        okprov, why = False, f"no reflector built from the current working column R[{j}:, {j}] (column {j} is not reduced)"
                        break
                if okprov and hi != len(houses):
                    okprov, why = False, f"{len(houses) - hi} reflector(s) not built from a current working column"
                Tref = shiftI(ref_matmul(Rw, ref_hermitian(Qi)), sigma, +1)
                Qref = ref_matmul(ref_hermitian(P0), ref_hermitian(Qi))
                small = check_deflation(ctx, f_pure, tag, ch.log, Tref, T, n)
                Tcmp = Tref.copy()
                for (i, j) in small:
                    if as_quat(T[i, j]).is_zero():
                        Tcmp[i, j] = SQ()
                ctx.ob("C10.D1.reflectors", tag, okprov, why, where=f_pure.where, construct="pure: reflector provenance",
                       loc=f_pure.loc())
                ctx.ob("C10.D1.similarity", tag, arrays_same(T, Tcmp),
                       "T is not Q_iter (H - sigma I) Q_iter^H + sigma I (one-sided update / shift not restored)",
                       where=f_pure.where, construct="pure: T != Qk^H H Qk", loc=f_pure.loc(), detail=short(first_diff(T, Tcmp)))
                ctx.ob("C10.D1.composition", tag, arrays_same(Q, Qref),
                       "returned Q is not P0^H Q_accum with Q_accum the product of the adjoint reflectors in order",
                       where=f_pure.where, construct="pure: Q_total != P0^H Q_accum", loc=f_pure.loc(),
                       detail=short(first_diff(Q, Qref)))
                check_flag(ctx, f_pure, tag, diag, ch.log, T, n)
                ctx.ob("C10.D1.no-mutation", tag, arrays_same(A, A0), "input modified", where=f_pure.where,
                       construct="pure mutates A", loc=f_pure.loc())

    n = 3
    # ================================================================= implicit variants (2x2 reflectors, per-step similarity)
    def implicit_reference(rec, sigmas_of_step, n):
        """E = prod of embedded 2x2 reflectors in generation order; H_ref = E H0 E^H; Q_ref = P0^H E^H"""
        H0, P0 = rec["H0"], rec["P0"]
        Hc = H0.copy()
        Qa = eyeq(n)
        ok, why = True, ""
        for idx, (a, v, B) in enumerate(rec.get("house", [])):
            if B.shape != (2, 2):
                ok, why = False, "reflector is not 2x2"
                break
            s, sigma = sigmas_of_step(idx)
            want = [as_quat(Hc[s, s]) - SQ(sigma), as_quat(Hc[s + 1, s])]
            got = [as_quat(x) for x in a.reshape(-1)]
            if len(got) != 2 or not (got[0].same(want[0]) and got[1].same(want[1])):
                ok, why = False, f"reflector {idx} is not built from [H[{s},{s}] - sigma, H[{s + 1},{s}]] of the current matrix"
                break
            E = embed(B, s, n)
            Hc = ref_matmul(ref_matmul(E, Hc), ref_hermitian(E))
            Qa = ref_matmul(Qa, ref_hermitian(E))
        return Hc, ref_matmul(ref_hermitian(P0), Qa), ok, why

    def generic_implicit(f, name, kwargs, sig_fn, extra_summ=None, nsteps_expected=None):
        for conv in (False, True):
            for small_at in ((), (1,)):
                tag = f"{name} conv={conv} deflate={list(small_at)}"
                st, out, rec, ch, A, A0, d = run_variant(ctx, f, tag, n, kwargs, mk_policy(conv, small_at), extra_summ)
                if st != "ok":
                    ctx.ob("C10.D1.similarity", tag, False, f"fails in-domain: {out}", where=f.where, construct=f"{name} fails",
                           loc=f.loc())
                    continue
                Q, T, diag = out
                Tref, Qref, okprov, why = implicit_reference(rec, lambda idx: sig_fn(idx, rec, d), n)
                if nsteps_expected is not None and len(rec.get("house", [])) != nsteps_expected:
                    okprov, why = False, f"{len(rec.get('house', []))} reflectors generated, expected {nsteps_expected}"
                ctx.ob("C10.D1.reflectors", tag, okprov, why, where=f.where, construct=f"{name}: reflector provenance", loc=f.loc())
                small = check_deflation(ctx, f, tag, ch.log, Tref, T, n)
                Tcmp = Tref.copy()
                for (i, j) in small:
                    if as_quat(T[i, j]).is_zero():
                        Tcmp[i, j] = SQ()
                ctx.ob("C10.D1.similarity", tag, arrays_same(T, Tcmp),
                       "T is not E H0 E^H for the generated reflectors (left rows / right columns not paired on the same index, "
                       "quaternion scalar on the wrong side, or a dropped update)", where=f.where,
                       construct=f"{name}: T != E H E^H", loc=f.loc(), detail=short(first_diff(T, Tcmp)))
                ctx.ob("C10.D1.composition", tag, arrays_same(Q, Qref),
                       "returned Q is not P0^H E^H (accumulator not updated with the adjoint reflectors in order / wrong final "
                       "composition)", where=f.where, construct=f"{name}: Q_total != P0^H Q_accum", loc=f.loc(),
                       detail=short(first_diff(Q, Qref)))
                check_flag(ctx, f, tag, diag, ch.log, T, n)

    n = 4 if ctx.thorough else 3
    # pure implicit: one sweep s = 0..n-2 with sigma = H0[n-1,n-1].w
    generic_implicit(f_impl, "implicit", dict(max_iter=1, tol=TOL, return_diagnostics=True, shift_mode="rayleigh"),
                     lambda idx, rec, d: (idx, rec["H0"][n - 1, n - 1].w), nsteps_expected=n - 1)

    # unified aed / ds with a precomputed shift schedule (summarised as fresh symbols)
    def sched_summ(rec):
        def s_est(it, H, steps=5):
            rec["sched"] = [Poly.atom(("shift", i)) for i in range(H.shape[0])]
            return list(rec["sched"])
        return {"decomp.schur:_estimate_shifts_power_deflate": s_est}

    generic_implicit(f_uni, "unified[aed]", dict(variant="aed", max_iter=1, tol=TOL, return_diagnostics=True),
                     lambda idx, rec, d: (idx, rec["sched"][0]), sched_summ, nsteps_expected=n - 1)
    generic_implicit(f_uni, "unified[ds]", dict(variant="ds", max_iter=1, tol=TOL, return_diagnostics=True),
                     lambda idx, rec, d: (idx % (n - 1), rec["sched"][idx // (n - 1)]), sched_summ, nsteps_expected=2 * (n - 1))
    generic_implicit(f_uni, "unified[aed,window]", dict(variant="aed", max_iter=1, tol=TOL, return_diagnostics=True, aed_window=2),
                     lambda idx, rec, d: (idx, rec["sched"][0]), sched_summ, nsteps_expected=n - 1)
    if ctx.thorough:
        def eig_sigma(idx, rec, d):
            t = [e for e in d.events if False]
            return (idx % (n - 1), Poly.atom(("lapack", "eigvals0.w", idx // (n - 1))))
        generic_implicit(f_uni, "unified[ds,no-schedule]",
                         dict(variant="ds", max_iter=1, tol=TOL, return_diagnostics=True, precompute_shifts=False),
                         eig_sigma, None, nsteps_expected=2 * (n - 1))
    # experimental: no deflation at the first scan -> one windowed sweep with sigma = H0[hi,hi].w
    generic_implicit(f_exp, "experimental[aed_windowed]", dict(variant="aed_windowed", max_iter=1, tol=TOL, window=12,
                                                               return_diagnostics=True),
                     lambda idx, rec, d: (idx, rec["H0"][n - 1, n - 1].w), nsteps_expected=None)
    # the same with a window SMALLER than the active block (start > lo): the entries left of the window take part in the row updates
    generic_implicit(f_exp, "experimental[aed_windowed,window=2]", dict(variant="aed_windowed", max_iter=1, tol=TOL, window=2,
                                                                        return_diagnostics=True),
                     lambda idx, rec, d: (idx + n - 2, rec["H0"][n - 1, n - 1].w), nsteps_expected=None)
    # dispatch of the simple variants of the unified API
    for variant, target, mode in (("none", "quaternion_schur_pure", "none"), ("rayleigh", "quaternion_schur_pure", "rayleigh"),
                                  ("implicit", "quaternion_schur_pure_implicit", "rayleigh")):
        seen = []

        def mk_s(name):
            def s_(it, A, *a, **kw):
                names = prog.func("decomp.schur", name).params()[1:]
                kw = dict(kw, **dict(zip(names, a)))          # options forwarded positionally or by keyword
                seen.append((name, kw))
                return ("Q", "T")
            return s_
        it, d = new_interp(ctx, summaries={"decomp.schur:quaternion_schur_pure": mk_s("quaternion_schur_pure"),
                                           "decomp.schur:quaternion_schur_pure_implicit": mk_s("quaternion_schur_pure_implicit")})
        st, out = run_guarded(lambda: it.run(f_uni, [sym_quat("a", (2, 2))], dict(variant=variant, max_iter=7, tol=TOL)))
        ok = st == "ok" and len(seen) == 1 and seen[0][0] == target and seen[0][1].get("shift_mode") == mode and \
            seen[0][1].get("max_iter") == 7 and seen[0][1].get("tol") is not None and P(seen[0][1].get("tol")).same(TOL)
        ctx.ob("C10.D1.dispatch", f"unified variant {variant!r}", ok, "unified API does not forward to the documented routine / options",
               where=f_uni.where, construct=f"unified dispatch {variant}", loc=f_uni.loc())

    # ================================================================= real-expanded quaternion_schur
    _check_real_schur(ctx, f_real, prog)
    _check_real_schur_sweep_deflation(ctx, f_real)

    # ================================================================= D4 shift estimator: no division by an unchecked zero norm
    _check_shift_estimator(ctx, prog)

    # the reflectors all per-column QR sweeps and the Hessenberg pre-reduction are built from (shared with C08 / C09)
    from .c08 import _check_householder
    _check_householder(ctx, prog, RULE="C10.D5.reflector")

    ctx.require_instances("C10.D1.similarity", 20)
    ctx.require_instances("C10.D1.composition", 20)
    ctx.require_instances("C10.D2.deflation", 20)
    ctx.require_instances("C10.D3.flag", 20)


def _pure_policy(conv, small_at, shift_nonzero=True):
    state = {"k": 0}

    def policy(cond, node, interp, rec):
        parts = cond_parts(cond)
        if parts is None:
            return None
        op, lhs, rhs = parts
        if is_tol_cond(cond):
            if P(rhs).same(TOL) and op in ("le", "lt"):
                return conv
            idx = state["k"]
            state["k"] += 1
            return idx in small_at
        if op == "ne":
            return shift_nonzero       # sigma != 0.0
        if op == "eq":
            return False               # "column already zero" skip test: not skipped
        return None
    return policy


def _check_real_schur(ctx, f_real, prog):
    """quaternion_schur with max_iter=1: every call of the inner sweep satisfies
       HR_out = Qk^T (HR_in - sigma I) Qk + sigma I  with Qk the product of the embedded rotations P8^T G P8,
       the outer loop multiplies Q_real by the sweep accumulators in order, and the result is
       Q_total = P0^H contract(Q_real), T = contract(HR)."""
    for n, shift in ((2, "rayleigh"), (2, "wilkinson")):
        for conv_first in (False,):
            rec = {"sweeps": [], "G": []}

            def s_hess(it, A, rec=rec, n=n):
                rec["P0"], rec["H0"] = sym_quat("p0_", (n, n)), sym_quat("h0_", (n, n))
                return rec["P0"], rec["H0"].copy()

            def s_giv(it, x1, x2, rec=rec, shift=shift):
                G = sym_real(f"g{len(rec['G'])}_", (8, 8))
                if shift != "rayleigh":
                    # two sweeps: keep the polynomials small with a banded generic rotation (diagonal, one super- and one
                    # sub-diagonal band are generic symbols, the rest zero)
                    for i in range(8):
                        for j in range(8):
                            if (j - i) % 8 not in (0, 1, 5):
                                G[i, j] = Poly.const(0)
                rec["G"].append(G)
                return G

            state = {"conv": 0}

            def policy(interp, node, cond):
                parts = cond_parts(cond)
                if parts is None:
                    return False
                op, lhs, rhs = parts
                log.append((cond, node, None))
                return False

            log = []
            # comparisons (deflation / convergence / stagnation tests) are answered "not yet"; anything that is not a comparison
            # (np.any / truth of an array ...) gets its generic outcome from the scenario mechanism
            chooser = Recorder(lambda cond, node, interp, r: False if cond_parts(cond) is not None else None)
            it, d = new_interp(ctx, chooser=chooser,
                               summaries={"decomp.hessenberg:hessenbergize": s_hess,
                                          "decomp.hessenberg:check_hessenberg": lambda it, H, atol=1e-12: H.copy(),
                                          "utils:ggivens": s_giv})

            def after(interp, node, fobj, args, kwargs, result, rec=rec):
                if isinstance(fobj, FuncRef) and fobj.fi.name == "_apply_single_shift":
                    rec["sweeps"].append((args[0].copy(), args[1], args[2], result[0].copy(), result[1].copy()))
            it.after_call = after
            A = sym_quat("a", (n, n))
            tag = f"real-expanded n={n} shift={shift}"
            st, out = run_guarded(lambda: it.run(f_real, [A], dict(max_iter=1, tol=TOL, shift=shift, return_diagnostics=True)))
            if st != "ok":
                ctx.ob("C10.D1.similarity", tag, False, f"fails in-domain: {out}", where=f_real.where,
                       construct="real-expanded fails", loc=f_real.loc())
                continue
            Q, T, diag = out
            gi = 0
            ok, why = True, ""
            Qtot = None
            P8 = np.zeros((8, 8), dtype=object)
            for src, dst in [(0, 0), (4, 1), (1, 2), (5, 3), (2, 4), (6, 5), (3, 6), (7, 7)]:
                P8[dst, src] = 1
            for (HRin, sigma, msz, HRout, Qk) in rec["sweeps"]:
                N = 4 * n
                Qref = np.zeros((N, N), dtype=object)
                for i in range(N):
                    Qref[i, i] = Poly.const(1)
                for s in range(msz - 1):
                    if gi >= len(rec["G"]):
                        ok, why = False, "fewer rotations generated than sweep steps"
                        break
                    G = np.asarray(rec["G"][gi], dtype=object)
                    gi += 1
                    Gc = P8.T @ G @ P8
                    E = np.zeros((N, N), dtype=object)
                    for i in range(N):
                        E[i, i] = Poly.const(1)
                    idx = list(range(4 * s, 4 * s + 8))
                    for a_, ia in enumerate(idx):
                        for b_, ib in enumerate(idx):
                            E[ia, ib] = Gc[a_, b_]
                    Qref = Qref @ E
                if not ok:
                    break
                I = np.zeros((N, N), dtype=object)
                for i in range(N):
                    I[i, i] = Poly.const(1)
                HRs = np.asarray(HRin, dtype=object) - I * P(sigma)
                want = Qref.T @ HRs @ Qref + I * P(sigma)
                if not arrays_same(Qk, Qref):
                    ok, why = False, "sweep accumulator Qk is not the ordered product of the embedded rotations P8^T G P8"
                    break
                if not arrays_same(HRout, want):
                    ok, why = False, ("sweep result is not Qk^T (HR - sigma I) Qk + sigma I (left factor is not the transpose of the "
                                      "right factor on the same index set, or the shift is not restored)")
                    break
                Qtot = Qk if Qtot is None else np.asarray(Qtot, dtype=object) @ np.asarray(Qk, dtype=object)
            ctx.ob("C10.D1.similarity", tag, ok and bool(rec["sweeps"]), why or "no sweep performed", where=f_real.where,
                   construct="real-expanded: sweep is not a paired similarity", loc=f_real.loc())
            if ok and rec["sweeps"]:
                # final composition
                from .common import ref_hermitian as RH
                N = 4 * n
                Qacc = mk((n, n), "quat")
                Qt = np.asarray(Qtot, dtype=object)
                for i in range(n):
                    for j in range(n):
                        Qacc[i, j] = SQ(*[Qt[4 * i + p, 4 * j] for p in range(4)])
                Qref_tot = ref_matmul(RH(rec["P0"]), Qacc)
                ctx.ob("C10.D1.composition", tag, arrays_same(Q, Qref_tot),
                       "returned Q is not P0^H contract(Q_real) with Q_real the ordered product of the sweep accumulators",
                       where=f_real.where, construct="real-expanded: Q_total != P0^H Q_accum", loc=f_real.loc())
                HRl = np.asarray(rec["sweeps"][-1][3], dtype=object)
                Tref = mk((n, n), "quat")
                for i in range(n):
                    for j in range(n):
                        Tref[i, j] = SQ(*[HRl[4 * i + p, 4 * j] for p in range(4)])
                small = check_deflation(ctx, f_real, tag, chooser.log, Tref, T, n)
                ctx.ob("C10.D1.result", tag, arrays_same(T, Tref), "returned T is not the contraction of the final working matrix",
                       where=f_real.where, construct="real-expanded: T", loc=f_real.loc(), detail=short(first_diff(T, Tref)))
            check_flag(ctx, f_real, tag, diag, chooser.log, T, n)
    # converged path of the real-expanded routine: every sub-diagonal test is answered "small", every test that involves an
    # entry further below the diagonal is answered "not small" (such entries exist because the sweeps do not preserve Hessenberg
    # form).  A flag raised from the sub-diagonal only is then unsound and must be reported.
    n = 3
    rec = {}

    def s_hess2(it, A):
        rec["P0"], rec["H0"] = sym_quat("p0_", (n, n)), sym_quat("h0_", (n, n))
        return rec["P0"], rec["H0"].copy()

    def pol(cond, node, interp, r):
        parts = cond_parts(cond)
        if parts is None:
            return False
        op, lhs, rhs = parts
        if is_tol_cond(cond) and op in ("le", "lt"):
            far = {modulus(rec["H0"][i, j]).key() for i in range(n) for j in range(n) if i - j >= 2}
            bounded = flatten_max(lhs, set())
            return not (bounded & far)
        return False
    chooser = Recorder(pol)
    it, d = new_interp(ctx, chooser=chooser,
                       summaries={"decomp.hessenberg:hessenbergize": s_hess2,
                                  "decomp.hessenberg:check_hessenberg": lambda it, H, atol=1e-12: H.copy()})
    A = sym_quat("a", (n, n))
    tag = "real-expanded sub-diagonal negligible, entry (2,0) not"
    st, out = run_guarded(lambda: it.run(f_real, [A], dict(max_iter=3, tol=TOL, shift="rayleigh", return_diagnostics=True)))
    if st != "ok":
        ctx.ob("C10.D3.flag", tag, False, f"fails in-domain: {out}", where=f_real.where, construct="real-expanded fails",
               loc=f_real.loc())
    else:
        Q, T, diag = out
        check_flag(ctx, f_real, tag, diag, chooser.log, T, n)
        ctx.ob("C10.D1.composition", tag, arrays_same(Q, ref_matmul(ref_hermitian(rec["P0"]), eyeq(n))),
               "with no sweep performed Q must be P0^H", where=f_real.where,
               construct="real-expanded: Q_total != P0^H Q_accum", loc=f_real.loc())


def _check_real_schur_sweep_deflation(ctx, f_real):
    """quaternion_schur, one iteration, every tolerance test met AFTER the sweep answered "small": each sub-diagonal entry that
    the post-sweep deflation pass sets to zero must be the entry whose own modulus was compared with the tol-proportional bound
    (D2 on the iterate that is actually modified, not on an earlier iterate)."""
    n = 2
    rec = {"sweeps": [], "G": []}

    def s_hess(it, A):
        rec["P0"], rec["H0"] = sym_quat("p0_", (n, n)), sym_quat("h0_", (n, n))
        return rec["P0"], rec["H0"].copy()

    def s_giv(it, x1, x2):
        G = sym_real(f"g{len(rec['G'])}_", (8, 8))
        rec["G"].append(G)
        return G

    def pol(cond, node, interp, r):
        parts = cond_parts(cond)
        if parts is None:
            return None
        if rec["sweeps"] and parts[0] in ("le", "lt") and is_tol_cond(cond):
            return True
        return False
    chooser = Recorder(pol)
    it, d = new_interp(ctx, chooser=chooser,
                       summaries={"decomp.hessenberg:hessenbergize": s_hess,
                                  "decomp.hessenberg:check_hessenberg": lambda it, H, atol=1e-12: H.copy(),
                                  "utils:ggivens": s_giv})

    def after(interp, node, fobj, args, kwargs, result):
        if isinstance(fobj, FuncRef) and fobj.fi.name == "_apply_single_shift":
            rec["sweeps"].append(np.asarray(result[0], dtype=object).copy())
    it.after_call = after
    tag = f"real-expanded n={n} shift=rayleigh, post-sweep entries negligible"
    st, out = run_guarded(lambda: it.run(f_real, [sym_quat("a", (n, n))],
                                         dict(max_iter=1, tol=TOL, shift="rayleigh", return_diagnostics=True)))
    if st != "ok":
        ctx.ob("C10.D2.deflation", tag, False, f"fails in-domain: {out}", where=f_real.where, construct="real-expanded fails",
               loc=f_real.loc())
        return
    if not rec["sweeps"]:
        ctx.ob("C10.D2.deflation", tag, True, where=f_real.where, construct="unguarded deflation store", loc=f_real.loc())
        return
    Q, T, diag = out
    HRl = rec["sweeps"][-1]
    Tpre = mk((n, n), "quat")
    for i in range(n):
        for j in range(n):
            Tpre[i, j] = SQ(*[HRl[4 * i + p, 4 * j] for p in range(4)])
    check_deflation(ctx, f_real, tag, chooser.log, Tpre, T, n)


def _pre_cleanup(H0, T):
    return T


def _check_shift_estimator(ctx, prog):
    """_estimate_shifts_power_deflate feeds the aed/ds variants with real shifts.  A division by the norm of the power
    iterate is allowed only on a path where that norm was tested non-zero (nilpotent / zero leading blocks give exactly 0);
    otherwise a NaN shift poisons H and Q while the max()-based convergence test still reports converged."""
    from .common_nc import implies_nonzero, cond_parts as raw_parts
    f = prog.func("decomp.schur", "_estimate_shifts_power_deflate")
    ctx.touch(f)
    for zero_first in (False, True):
        state = {"n": 0}

        def chooser(interp, node, cond, zero_first=zero_first, state=state):
            why = getattr(cond, "why", None)
            if why == "isfinite":
                return True
            parts = raw_parts(cond)
            if parts and parts[0] in ("gt", "eq", "ne", "ge", "lt", "le"):
                state["n"] += 1
                op = parts[0]
                nonzero = not (zero_first and state["n"] == 2)
                return nonzero if op in ("gt", "ne", "ge") else (not nonzero)
            return None
        it, d = new_interp(ctx, chooser=chooser)
        H = sym_quat("h", (2, 2))
        st, out = run_guarded(lambda: it.run(f, [H], dict(steps=1)))
        tag = f"_estimate_shifts_power_deflate zero-iterate={zero_first}"
        if st != "ok":
            ctx.ob("C10.D4.shift-estimator", tag, False, f"fails in-domain: {out}", where=f.where, construct="shift estimator fails",
                   loc=f.loc())
            continue
        bad = []
        for b, node, where, ndec in d.divisions:
            if isinstance(b, SymArr):
                continue
            p = P(b)
            s = p.as_single_atom()
            if s is None or not (isinstance(s[1], tuple) and s[1][0] == "sqrt"):
                continue           # regularised or not a norm
            atom = s[1]
            decs = it.decision_log[:ndec]
            if not any(implies_nonzero(c, r, atom) for c, _, r in decs):
                bad.append(where)
        ctx.ob("C10.D4.shift-estimator", tag, not bad and all(_finite_expr(v) for v in out),
               "the power-iteration vector is divided by a norm that was not tested non-zero on this path (an exactly zero iterate "
               "gives a NaN shift)", where=f.where, construct="shift estimator: unguarded division by the iterate norm", loc=(bad[0] if bad else f.loc()))


def _finite_expr(v):
    try:
        P(v)
        return True
    except TypeError:
        return False
