"""C16 - Givens QR of Hessenberg matrices and triangular solves: structural clauses.

Decided clauses:
  D1 rotation pairing in Hess_QR_ggivens (generic symbolic Hessenberg input in component-stacked form,
     rotations replaced by generic symbolic 8x8 / 4x4 matrices G): every sweep applies G^T to the rows
     {s, s+1} + {0, m, 2m, 3m} of Hess and G to the SAME columns of W in the order of Realp's block
     layout, the last-column rotation likewise with rows/cols m-1 + {0,m,2m,3m}; rotation s is generated
     from the current entries (s,s) and (s+1,s), the last one from entry (m-1, n-1); columns left of s are
     the only ones allowed to be skipped (they are annihilated / structurally zero); the input is not
     modified.  (With orthogonal G this is W * Hess invariant.)
  D2 sibling agreement: ggivens' two ordering branches are images of each other under the swap
     (q1,q3)<->(q2,q4) and G is Realp of the component matrices [[q1,q3],[q2,q4]]; the degenerate branch
     returns the identity; GRSGivens' vector form and four-scalar form test exactly the three imaginary
     components and otherwise return Realp of the normalised quaternion.
  D3 substitution structure: UtriangleQsparse and the dense _solve_lower/_upper_triangular_quat compute
     x_i = U_ii^-1 (b_i - sum_j U_ij x_j) with the inverse applied on the LEFT, products U*x in that order,
     the loop direction of back / forward substitution, for 1..3 right-hand sides; dotinvQsparse is
     conj(q)/|q|^2 with at most a regularisation that is an absolute constant <= 1e-20 (negligible on the
     documented range 1e-6..1e6), a zero quaternion mapped to zero; absQsparse is the modulus; size guards.
Not decided: unitarity of generated rotations and exact triangularity in floating point.
"""
from __future__ import annotations

import itertools

import numpy as np

from qstatic.alg import Poly, SQ, P, is_unknown, UNKNOWN
from qstatic.dom_sym import sym_quat, sym_real, arrays_same, first_diff, mk, SymArr, wrap
from qstatic.interp import RepoRaise, ModelError, PathExplorer
from qstatic.scenario import known_zero_keys
from .common import new_interp, planes_of, quat_from_planes, run_guarded, short
from .common_nc import cond_parts, cond_atoms

LEVEL = "other"
EXPLANATION = ("Hess_QR_ggivens, ggivens, GRSGivens, UtriangleQsparse, dotinvQsparse, absQsparse and the dense triangular solves are "
               "interpreted over generic symbolic arrays; rotations are generic symbolic matrices so the row/column pairing is a "
               "polynomial identity; substitutions are compared with the reference recurrence in exact quaternion algebra.")


def realp_ref(pl):
    """left-regular real representation in component-blocked layout of a quaternion matrix given by 4 planes"""
    a0, a1, a2, a3 = [np.asarray(wrap(x), dtype=object) for x in pl]
    return np.block([[a0, -a1, -a2, -a3], [a1, a0, -a3, a2], [a2, a3, a0, -a1], [a3, -a2, a1, a0]])


def run(ctx):
    prog = ctx.program
    f_hqr = prog.func("utils", "Hess_QR_ggivens")
    f_gg = prog.func("utils", "ggivens")
    f_grs = prog.func("utils", "GRSGivens")
    f_ut = prog.func("utils", "UtriangleQsparse")
    f_inv = prog.func("utils", "dotinvQsparse")
    f_abs = prog.func("utils", "absQsparse")
    f_lo = prog.func("solver", "_solve_lower_triangular_quat")
    f_up = prog.func("solver", "_solve_upper_triangular_quat")
    for f in (f_hqr, f_gg, f_grs, f_ut, f_inv, f_abs, f_lo, f_up):
        ctx.touch(f)
    ctx.assume("ggivens / GRSGivens return orthogonal matrices (numerical clause)", "Realp is the component-blocked left-regular "
               "representation (C02)", "python ast reflects the code that runs")

    # ================================================================= D1
    for (m, n) in [(2, 1), (3, 2)] + ([(4, 3)] if ctx.thorough else []):
        rec = {"G": [], "G4": []}

        def s_gg(it, x1, x2, rec=rec):
            G = sym_real(f"g{len(rec['G'])}_", (8, 8))
            rec["G"].append((wrap(x1).copy(), wrap(x2).copy(), G))
            return G

        def s_grs(it, g1, g2=None, g3=None, g4=None, rec=rec):
            G = sym_real("gl_", (4, 4))
            rec["G4"].append(([g1, g2, g3, g4], G))
            return G

        it, d = new_interp(ctx, summaries={"utils:ggivens": s_gg, "utils:GRSGivens": s_grs})
        Hs = sym_real("h", (4 * m, n))
        # upper Hessenberg pattern in every plane
        for p in range(4):
            for i in range(m):
                for j in range(n):
                    if i > j + 1:
                        Hs[p * m + i, j] = Poly.const(0)
        H0 = Hs.copy()
        st, out = run_guarded(lambda: it.run(f_hqr, [Hs]))
        tag = f"Hess_QR_ggivens {m}x{n}"
        if st != "ok":
            ctx.ob("C16.D1.pairing", tag, False, f"fails in-domain: {out}", where=f_hqr.where, construct="Hess_QR_ggivens fails",
                   loc=f_hqr.loc())
            continue
        Wf, Hf = out
        ctx.ob("C16.D1.no-mutation", tag, arrays_same(Hs, H0), "the input matrix is overwritten", where=f_hqr.where,
               construct="parameter 'Hess' written", loc=f_hqr.loc())
        # reference evolution
        Hc = np.asarray(H0, dtype=object).copy()
        W = np.zeros((m, 4 * m), dtype=object)
        for i in range(m):
            for j in range(4 * m):
                W[i, j] = Poly.const(1 if i == j else 0)
        ok, why = True, ""
        skip_cells = set()
        if len(rec["G"]) != m - 1 or len(rec["G4"]) != 1:
            ok, why = False, f"{len(rec['G'])} sweep rotations and {len(rec['G4'])} last-column rotations for m={m}"
        for s, (x1, x2, G) in enumerate(rec["G"]):
            if not ok:
                break
            rows = [s, s + 1, s + m, s + m + 1, s + 2 * m, s + 2 * m + 1, s + 3 * m, s + 3 * m + 1]
            want1 = [Hc[s + p * m, s] for p in range(4)]
            want2 = [Hc[s + 1 + p * m, s] for p in range(4)]
            if not (all(P(a).same(b) for a, b in zip(x1.reshape(-1), want1)) and all(P(a).same(b) for a, b in zip(x2.reshape(-1), want2))):
                ok, why = False, f"rotation {s} is not generated from the current entries ({s},{s}) and ({s + 1},{s})"
                break
            Gm = np.asarray(G, dtype=object)
            # entries left of column s in these rows are annihilated (row s, column s-1) or structurally zero
            for r in rows:
                for c in range(0, s):
                    skip_cells.add((r, c))
            sub = Hc[rows, :].copy()
            new = Gm.T @ sub
            for a_, r in enumerate(rows):
                for c in range(s, n):
                    Hc[r, c] = new[a_, c]
            W[:, rows] = W[:, rows] @ Gm
        if ok:
            (gargs, G4) = rec["G4"][0]
            rows = [m - 1, 2 * m - 1, 3 * m - 1, 4 * m - 1]
            want = [Hc[r, n - 1] for r in rows]
            got = gargs if gargs[1] is not None else list(wrap(gargs[0]).reshape(-1))
            if not (len(got) == 4 and all(P(a).same(b) for a, b in zip(got, want))):
                ok, why = False, f"last-column rotation is not generated from entry ({m - 1},{n - 1})"
            G4m = np.asarray(G4, dtype=object)
            W[:, rows] = W[:, rows] @ G4m
            col = np.array([Hc[r, n - 1] for r in rows], dtype=object)
            newc = G4m.T @ col
            for a_, r in enumerate(rows):
                Hc[r, n - 1] = newc[a_]
        ctx.ob("C16.D1.generation", tag, ok, why, where=f_hqr.where, construct="rotation provenance", loc=f_hqr.loc())
        if ok:
            Wref = np.hstack([W[:, 0:m], -W[:, 2 * m:3 * m], -W[:, m:2 * m], -W[:, 3 * m:4 * m]])
            Href = np.hstack([Hc[0:m, :], Hc[2 * m:3 * m, :], Hc[m:2 * m, :], Hc[3 * m:4 * m, :]])
            okW = arrays_same(Wf, Wref)
            ctx.ob("C16.D1.pairing", tag + " W", okW, "W is not [I 0 0 0] times the rotations applied on the right to the column set "
                   "{s,s+1}+{0,m,2m,3m} (pairing with the row update is broken)", where=f_hqr.where,
                   construct="W update does not use G on the paired column set", loc=f_hqr.loc(), detail=short(first_diff(Wf, Wref)))
            # Hess: compare cell by cell; skipped cells may be either untouched leftovers or the full-row update
            okH, whyH = True, ""
            Hfa = np.asarray(Hf, dtype=object)
            if Hfa.shape != Href.shape:
                okH, whyH = False, f"shape {Hfa.shape} != {Href.shape}"
            else:
                blocks = [0, 2, 1, 3]
                for b, p in enumerate(blocks):
                    for i in range(m):
                        for j in range(n):
                            if (i + p * m, j) in skip_cells:
                                continue
                            if not P(Hfa[i, b * n + j]).same(Href[i, b * n + j]):
                                okH, whyH = False, f"Hess plane {p} entry ({i},{j}) is not the G^T row update on the paired row set"
                                break
                        if not okH:
                            break
                    if not okH:
                        break
            ctx.ob("C16.D1.pairing", tag + " Hess", okH, whyH, where=f_hqr.where,
                   construct="Hess update does not use G^T on the paired row set", loc=f_hqr.loc())

    # ================================================================= D2 GRSGivens
    for form in ("vector", "scalars"):
        for outcome in (True, False):
            seen = []

            def chooser(interp, node, cond, outcome=outcome, seen=seen):
                seen.append(cond)
                return outcome
            it, d = new_interp(ctx, chooser=chooser)
            g = [Poly.atom(("g", p)) for p in range(4)]
            args = [SymArr(np.array(g, dtype=object), "real")] if form == "vector" else list(g)
            st, out = run_guarded(lambda: it.run(f_grs, args))
            tag = f"GRSGivens[{form}] imaginary-parts-zero={outcome}"
            ok, why = st == "ok", (str(out) if st != "ok" else "")
            if ok:
                tested = set()
                for c in seen:
                    why_ = getattr(c, "why", None)
                    if isinstance(why_, tuple) and why_[0] == "allclose":
                        arr = why_[1]
                        vals = list(wrap(arr).reshape(-1)) if not isinstance(arr, (list, tuple)) else list(arr)
                        for v in vals:
                            for p in range(4):
                                if P(v).same(g[p]):
                                    tested.add(p)
                if tested != {1, 2, 3}:
                    ok, why = False, f"the identity shortcut tests components {sorted(tested)} instead of the three imaginary parts"
                elif outcome:
                    I4 = np.zeros((4, 4), dtype=object)
                    for i in range(4):
                        for j in range(4):
                            I4[i, j] = Poly.const(1 if i == j else 0)
                    if not arrays_same(out, I4):
                        ok, why = False, "real quaternion: the identity is not returned"
                else:
                    nrm = (g[0] * g[0] + g[1] * g[1] + g[2] * g[2] + g[3] * g[3]).sqrt()
                    ref = realp_ref([np.array([[x / nrm]], dtype=object) for x in g])
                    if not arrays_same(out, ref):
                        ok, why = False, "result is not Realp of the normalised quaternion"
            ctx.ob("C16.D2.grs", tag, ok, why, where=f_grs.where, construct=f"GRSGivens {form} form", loc=f_grs.loc())

    # ================================================================= D2 ggivens
    x1 = [Poly.atom(("x1", p)) for p in range(4)]
    x2 = [Poly.atom(("x2", p)) for p in range(4)]

    def run_gg(a, b, tiny, first_smaller):
        conds = []

        def chooser(interp, node, cond):
            conds.append(cond)
            parts = cond_parts(cond)
            if parts and parts[0] in ("le", "lt") and P(parts[2]).is_const() and len(conds) == 1:
                return tiny          # t <= eps
            return first_smaller     # ||q1|| < ||q2||
        it, d = new_interp(ctx, chooser=chooser)
        va = SymArr(np.array(a, dtype=object), "real")
        vb = SymArr(np.array(b, dtype=object), "real")
        return run_guarded(lambda: it.run(f_gg, [va, vb])), conds

    def comps_of_G(G):
        """extract q1..q4 (4-vectors) from G = Realp([[q1,q3],[q2,q4]] component matrices): first block column"""
        G = np.asarray(G, dtype=object)
        q1 = [G[0 + 2 * p, 0] for p in range(4)]
        q2 = [G[1 + 2 * p, 0] for p in range(4)]
        q3 = [G[0 + 2 * p, 1] for p in range(4)]
        q4 = [G[1 + 2 * p, 1] for p in range(4)]
        return q1, q2, q3, q4

    (stA, GA), condsA = run_gg(x1, x2, False, True)
    # identity shortcut: it must be taken only for a pair whose NORM is at most machine epsilon (the confirmed threshold).  A test of
    # the squared norm (or of any other power) against the same constant treats every pair up to eps^(1/k) as zero: the rotation is
    # skipped and the sub-diagonal entry survives the QR sweep.
    import sys as _sys
    okt, whyt = False, "ggivens has no identity shortcut for a (numerically) zero pair"
    if condsA:
        parts = cond_parts(condsA[0])
        tnorm = sum((v * v for v in x1 + x2), Poly.const(0)).sqrt()
        if parts and parts[0] in ("le", "lt") and P(parts[2]).is_const():
            c = float(P(parts[2]).const_value())
            eff = None
            sumsq = sum((v * v for v in x1 + x2), Poly.const(0))
            for e in (1, 2, 3, 4):
                cand = (sumsq ** (e // 2)) * (tnorm if e % 2 else Poly.const(1))
                if P(parts[1]).same(tnorm ** e) or P(parts[1]).same(cand):
                    eff = c ** (1.0 / e) if c > 0 else 0.0
            if eff is None:
                okt, whyt = False, f"the shortcut test concerns {short(parts[1])}, not (a power of) the norm of the stacked pair"
            elif eff > _sys.float_info.epsilon * (1 + 1e-9):
                okt, whyt = False, (f"the identity shortcut is taken for every pair of norm <= {eff:.3g} (confirmed threshold: machine "
                                    f"epsilon {_sys.float_info.epsilon:.3g}): small but representable pairs are not rotated")
            else:
                okt, whyt = True, ""
    ctx.ob("C16.D2.ggivens", "ggivens zero-pair threshold", okt, whyt, where=f_gg.where, construct="ggivens: zero-pair threshold",
           loc=f_gg.loc())
    (stB, GB), _ = run_gg(x2, x1, False, False)
    (stI, GI), _ = run_gg(x1, x2, True, False)
    ok, why = stA == "ok" and stB == "ok", "ggivens fails"
    if ok:
        for G, nm in ((GA, "first-smaller"), (GB, "first-larger")):
            q1, q2, q3, q4 = comps_of_G(G)
            planes = [np.array([[q1[p], q3[p]], [q2[p], q4[p]]], dtype=object) for p in range(4)]
            if not arrays_same(G, realp_ref(planes)):
                ok, why = False, f"G ({nm} branch) is not Realp of the component matrices [[q1,q3],[q2,q4]]"
        a1, a2, a3, a4 = comps_of_G(GA)
        b1, b2, b3, b4 = comps_of_G(GB)
        same = all(P(u).same(v) for u, v in zip(a1 + a2 + a3 + a4, b2 + b1 + b4 + b3))
        if ok and not same:
            ok, why = False, "the two ordering branches are not images of each other under the swap (q1,q3)<->(q2,q4)"
        # q1 = x1/t, q2 = x2/t with t the norm of the stacked vector
        t = sum((v * v for v in x1 + x2), Poly.const(0)).sqrt()
        if ok and not all(P(u).same(v / t) for u, v in zip(a1 + a2, x1 + x2)):
            ok, why = False, "first column of G is not the normalised pair (x1, x2)/||(x1,x2)||"
        # second column, branch A: q3 = (||q2||,0,0,0), q4 = -(q2 * conj(q1)) / ||q2||
        if ok:
            Q1, Q2 = SQ(*a1), SQ(*a2)
            n2 = Q2.norm2().sqrt()
            q4ref = (Q2 * Q1.conjugate()) * (Poly.const(-1) / n2)
            if not (SQ(*a3).same(SQ(n2, 0, 0, 0)) and SQ(*a4).same(q4ref)):
                ok, why = False, "second column of G is not (||q2||, -(q2 conj(q1))/||q2||)"
    ctx.ob("C16.D2.ggivens", "ggivens ordering branches", ok, why, where=f_gg.where, construct="ggivens branch agreement",
           loc=f_gg.loc())
    I8 = np.zeros((8, 8), dtype=object)
    for i in range(8):
        for j in range(8):
            I8[i, j] = Poly.const(1 if i == j else 0)
    ctx.ob("C16.D2.ggivens", "ggivens degenerate pair", stI == "ok" and arrays_same(GI, I8),
           "a (numerically) zero pair does not give the identity rotation", where=f_gg.where, construct="ggivens degenerate branch",
           loc=f_gg.loc())

    # ================================================================= D3 helpers
    q = SQ(*[Poly.atom(("q", p)) for p in range(4)])
    for zero in (False, True):
        it, d = new_interp(ctx, chooser=lambda interp, node, cond, zero=zero: zero)
        st, out = run_guarded(lambda: it.run(f_inv, list(q.c)))
        ok, why = st == "ok" and isinstance(out, tuple) and len(out) == 4, "dotinvQsparse fails"
        if ok:
            got = SQ(*out)
            n2 = q.norm2()
            if zero:
                # |q|^2 == 0 decided true: the regularised denominator must be non-zero and the result conj(q)/den
                cands = [n2 + 1]
            else:
                cands = [n2] + [n2 + c for c in _tiny()]
            ok = any(got.same(SQ(*[c * den.inverse() for c in q.conjugate().c])) for den in cands)
            why = "dotinvQsparse is not conj(q)/|q|^2 (regularisation must be an absolute constant <= 1e-20)"
        ctx.ob("C16.D3.inverse", f"dotinvQsparse zero-test={zero}", ok, why, where=f_inv.where,
               construct="dotinvQsparse is not the exact inverse", loc=f_inv.loc(), detail=short(out))
    it, d = new_interp(ctx)
    st, out = run_guarded(lambda: it.run(f_abs, list(q.c)))
    ok = st == "ok" and len(out) == 5 and P(out[0]).same(q.norm2().sqrt())
    ctx.ob("C16.D3.modulus", "absQsparse", ok, "absQsparse does not return the modulus first", where=f_abs.where,
           construct="absQsparse modulus", loc=f_abs.loc())

    # ================================================================= D3 component-form back substitution
    for (n, k) in [(1, 1), (2, 1), (3, 2)] + ([(3, 3), (4, 1)] if ctx.thorough else []):
        U = sym_quat("u", (n, n))
        for i in range(n):
            for j in range(i):
                U[i, j] = SQ()
        B = sym_quat("b", (n, k))

        gates = []

        def chooser(interp, node, cond, gates=gates):
            parts = cond_parts(cond)
            if parts and parts[0] == "gt":
                gates.append(parts)
                return True      # diagonal modulus > tol
            if parts and parts[0] == "eq":
                from qstatic.scenario import is_nonneg
                lhs_, rhs_ = P(parts[1]), P(parts[2])
                if (rhs_.is_zero() and is_nonneg(lhs_) and lhs_.as_single_atom() is None) or (lhs_.is_zero() and is_nonneg(rhs_)):
                    return False     # |q|^2 == 0 (a sum of squares / a modulus): no
                return None          # a zero test of a single component: generic outcome + specialised scenario
            return None
        it, d = new_interp(ctx, chooser=chooser)
        pu, pb = planes_of(U), planes_of(B)
        pb0 = [x.copy() for x in pb]
        st, out = run_guarded(lambda: it.run(f_ut, pu + pb))
        tag = f"UtriangleQsparse n={n} rhs={k}"
        if st != "ok":
            ctx.ob("C16.D3.substitution", tag, False, f"fails in-domain: {out}", where=f_ut.where, construct="UtriangleQsparse fails",
                   loc=f_ut.loc())
            continue
        # the singularity gate in front of the back substitution must test the modulus of the last pivot U[n-1,n-1] (all four
        # components): a gate that misses a component treats a non-singular pivot along that axis as zero and skips the solve
        n2 = U[n - 1, n - 1].norm2()
        okg = bool(gates) and any(P(g[1]).same(n2.sqrt()) or P(g[1]).same(n2) for g in gates[:1])
        ctx.ob("C16.D3.gate", f"{tag}: singularity gate tests |U[n-1,n-1]|", okg,
               f"the gate compares {short(gates[0][1]) if gates else 'nothing'} with the tolerance, not the modulus of the last pivot",
               where=f_ut.where, construct="UtriangleQsparse: singularity gate is not the modulus of the last pivot", loc=f_ut.loc())
        X = quat_from_planes(list(out))
        ok = False
        for reg in [0] + _tiny():
            Xr = mk((n, k), "quat")
            for i in range(n - 1, -1, -1):
                for c in range(k):
                    acc = B[i, c]
                    s = SQ()
                    for j in range(i + 1, n):
                        s = s + U[i, j] * Xr[j, c]
                    acc = acc - s
                    d_ = U[i, i]
                    den = d_.norm2() + reg
                    inv = SQ(*[cc * den.inverse() for cc in d_.conjugate().c])
                    Xr[i, c] = inv * acc
            if arrays_same(X, Xr):
                ok = True
                break
        ctx.ob("C16.D3.substitution", tag, ok,
               "result is not x_i = U_ii^-1 (b_i - sum_{j>i} U_ij x_j) (inverse on the left, products U*x, backward order)",
               where=f_ut.where, construct="UtriangleQsparse recurrence", loc=f_ut.loc(), detail=short(first_diff(X, Xr)))
        ctx.ob("C16.D3.no-mutation", tag, all(arrays_same(a, b) for a, b in zip(pb, pb0)), "the right-hand side is overwritten",
               where=f_ut.where, construct="parameter 'b0' written", loc=f_ut.loc())
    # size guard
    it, d = new_interp(ctx, chooser=lambda *a: True)
    U = sym_quat("u", (2, 2))
    B = sym_quat("b", (3, 1))
    st, out = run_guarded(lambda: it.run(f_ut, planes_of(U) + planes_of(B)))
    ctx.ob("C16.D3.guard", "UtriangleQsparse size mismatch", st == "raise" and out.exc_name == "ValueError",
           "inconsistent sizes are not rejected with ValueError", where=f_ut.where, construct="UtriangleQsparse:SZ", loc=f_ut.loc())

    # ================================================================= D3 dense triangular solves
    for f, lower in ((f_lo, True), (f_up, False)):
        for (n, k) in [(1, 1), (2, 2), (3, 1)]:
            T = sym_quat("t", (n, n))
            for i in range(n):
                for j in range(n):
                    if (j > i) if lower else (j < i):
                        T[i, j] = SQ()
            B = sym_quat("b", (n, k))
            it, d = new_interp(ctx)
            st, out = run_guarded(lambda: it.run(f, [T, B]))
            tag = f"{f.name} n={n} rhs={k}"
            if st != "ok":
                ctx.ob("C16.D3.substitution", tag, False, f"fails in-domain: {out}", where=f.where, construct=f"{f.name} fails",
                       loc=f.loc())
                continue
            ok = False
            order = range(n) if lower else range(n - 1, -1, -1)
            # off-diagonal entries the analysed path has established to be exactly zero (a "nothing to subtract" shortcut taken in an
            # alternative scenario) are zero in the reference as well
            zk = frozenset(known_zero_keys(it.decision_log)) if ctx.scenario else frozenset()

            def Tz(i, j):
                t = T[i, j]
                return SQ() if (zk and all(c_.is_zero() or c_.key() in zk for c_ in t.c)) else t
            for reg in [0] + _tiny():
                Xr = mk((n, k), "quat")
                for i in order:
                    for c in range(k):
                        s = SQ()
                        js = range(i) if lower else range(i + 1, n)
                        for j in js:
                            s = s + Tz(i, j) * Xr[j, c]
                        d_ = T[i, i]
                        den = d_.norm2() + reg
                        inv = SQ(*[cc * den.inverse() for cc in d_.conjugate().c])
                        Xr[i, c] = inv * (B[i, c] - s)
                if arrays_same(out, Xr):
                    ok = True
                    break
            ctx.ob("C16.D3.substitution", tag, ok, "result is not x_i = T_ii^-1 (b_i - sum_j T_ij x_j) with the inverse on the left",
                   where=f.where, construct=f"{f.name} recurrence", loc=f.loc())

    ctx.require_instances("C16.D1.pairing", 4)
    ctx.require_instances("C16.D1.generation", 2)
    ctx.require_instances("C16.D2.grs", 4)
    ctx.require_instances("C16.D2.ggivens", 2)
    ctx.require_instances("C16.D3.substitution", 9)
    ctx.require_instances("C16.D3.inverse", 2)


def _tiny():
    from fractions import Fraction
    return [Fraction(float(f"1e-{k}")) for k in range(20, 41)]
