"""C06 - quaternion QR (qr_qua).

Decided clauses (DESIGN section 4, C06):
  D1 shapes / extraction (E9a + E8, bounded-exhaustive).  qr_qua is interpreted on generic symbolic
     quaternion matrices for every shape m, n in a box (tall, square, wide, 1 x n, m x 1).  LAPACK's QR is
     modelled by arrays of labels:
       - no in-domain failure (real_contract's shape guard, slices);
       - exactly one LAPACK QR, of real_expand(X), in a mode whose leading blocks are those of the full
         factorisation ('full'; 'economic' has the same leading columns/rows);
       - with k = min(m, n): Q is the (m, k) contraction of Q_lapack[:, :4k], R the (k, n) contraction of
         R_lapack[:4k, :]  (tall/square: 4m x 4n and 4n x 4n parts, wide: 4m x 4m and 4m x 4n);
       - documented output shapes Q: m x min(m,n), R: min(m,n) x n.
     (Callers that slice the result for wide sketches are covered by C12-D1.)
  D2 structure typestate (E9b): real_contract of the raw Q and R factors - 4 sites (Q, R in the tall/square
     and in the wide configuration class).  Known findings (wide 3x5: ||A - QR|| = 0.63).
Not decided: backward stability, orthonormality in floating point.
"""
from __future__ import annotations

from qstatic.dom_sym import sym_quat, labelled, arrays_same, first_diff, SymArr
from .common import new_interp, run_guarded, short
from .common_qsvd import ContractTracer, ref_contract, require_unless_failed

LEVEL = "other"
EXPLANATION = ("Abstract interpretation of qr_qua over symbolic quaternion inputs for every shape in a box (tall, "
               "square, wide); LAPACK's QR factors are arrays of labels, so the thin/wide extraction, the "
               "contraction dimensions and the documented output shapes are read off exactly; real_contract's "
               "argument is checked against the structure typestate (raw LAPACK factor = finding).")

R1 = "C06.D1.shapes"
R2 = "C06.D2.structure"
OK_MODES = ("full", "economic", "reduced")


def run(ctx):
    prog = ctx.program
    f = prog.func("decomp.qsvd", "qr_qua")
    f_exp = prog.func("utils", "real_expand")
    f_con = prog.func("utils", "real_contract")
    for x in (f, f_exp, f_con):
        ctx.touch(x)
    ctx.assume("LAPACK's QR returns an orthogonal Q and an upper-trapezoidal R (library fact), modelled as arrays of "
               "fresh labels with scipy's documented shapes; the economic factors are the leading blocks of the full ones",
               "real_expand is the left-regular representation (verified by C02)",
               "bounded-exhaustive over the stated shape box, not a proof for all sizes",
               "python ast reflects the code that runs")
    N = 6 if ctx.thorough else 4
    ctx.notes["shape_box"] = {"m": [1, N], "n": [1, N]}
    tracer = ContractTracer(prog)
    name = "qr_qua"
    where = f.where
    branches = set()
    for m in range(1, N + 1):
        for n in range(1, N + 1):
            X = sym_quat("a", (m, n))
            k = min(m, n)
            branch = "tall" if m >= n else "wide"
            branches.add(branch)
            cfg = f"m={m} n={n} ({branch})"
            it, d = new_interp(ctx, trace=tracer)
            tracer.branch, tracer.config = None, f"real_expand {cfg}"
            stA, A_ref = run_guarded(lambda: it.run(f_exp, [X]))
            it, d = new_interp(ctx, trace=tracer)
            tracer.branch, tracer.config = branch, cfg
            st, out = run_guarded(lambda: it.run(f, [X]))
            inst = f"{name} {cfg}"
            if st != "ok":
                ctx.ob(R1, f"{inst}: completes", False, f"fails on an in-domain input ({cfg}): {out}", where=where,
                       construct=f"{name}: fails on an in-domain shape [{branch}]", loc=f.loc(), detail=str(out))
                continue
            ok = isinstance(out, tuple) and len(out) == 2 and all(isinstance(x, SymArr) for x in out)
            ctx.ob(R1, f"{inst}: completes", ok, f"does not return a (Q, R) pair of arrays ({cfg})", where=where,
                   construct=f"{name}: does not return a (Q, R) pair", loc=f.loc())
            if not ok:
                continue
            Q, R = out
            qrs = [e for e in d.events if e[0] == "qr"]
            ok = (len(qrs) == 1 and stA == "ok" and arrays_same(qrs[0][2], A_ref) and qrs[0][3] in OK_MODES
                  and not [e for e in d.events if e[0] in ("svd", "eig", "eigh", "pinv")])
            ctx.ob(R1, f"{inst}: one LAPACK qr of real_expand(X)", ok,
                   f"LAPACK qr is not called exactly once on real_expand(X) ({cfg}): "
                   f"{[(e[2].shape, e[3]) for e in qrs]}", where=where,
                   construct=f"{name}: LAPACK qr not called once on real_expand(X)", loc=f.loc())
            want = ((m, k), (k, n))
            got = (Q.shape, R.shape)
            ctx.ob(R1, f"{inst}: output shapes", got == want,
                   f"output shapes {got} differ from the documented Q: m x min(m,n), R: min(m,n) x n = {want} ({cfg})",
                   where=where, construct=f"{name}: output shapes differ from the documented ones [{branch}]",
                   loc=f.loc())
            if len(qrs) != 1:
                continue
            t = qrs[0][1]
            FQ = labelled(f"qr{t}.Q", (4 * m, 4 * m))
            FR = labelled(f"qr{t}.R", (4 * m, 4 * n))
            Q_ref = ref_contract(FQ[:, : 4 * k], m, k)
            R_ref = ref_contract(FR[: 4 * k, :], k, n)
            ok = arrays_same(Q, Q_ref)
            ctx.ob(R1, f"{inst}: Q = contraction of Q_lapack[:, :4k] as (m, k)", ok,
                   f"Q is not the (m, min(m,n)) contraction of the leading 4*min(m,n) columns of LAPACK's Q ({cfg}): "
                   f"{short(first_diff(Q, Q_ref))}", where=where,
                   construct=f"{name}: Q is not the contraction of the leading columns of LAPACK's Q [{branch}]",
                   loc=f.loc(), detail=short(first_diff(Q, Q_ref)))
            ok = arrays_same(R, R_ref)
            ctx.ob(R1, f"{inst}: R = contraction of R_lapack[:4k, :] as (k, n)", ok,
                   f"R is not the (min(m,n), n) contraction of the leading 4*min(m,n) rows of LAPACK's R ({cfg}): "
                   f"{short(first_diff(R, R_ref))}", where=where,
                   construct=f"{name}: R is not the contraction of the leading rows of LAPACK's R [{branch}]",
                   loc=f.loc(), detail=short(first_diff(R, R_ref)))
    tracer.emit(ctx, R2)
    ctx.notes["real_contract_calls_observed"] = tracer.calls
    ctx.notes["configuration_classes"] = sorted(branches)
    ctx.require_instances(R1, N * N)
    require_unless_failed(ctx, R1, 5 * N * N, (R1,))
    require_unless_failed(ctx, R2, 4, (R1,))
