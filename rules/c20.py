"""C20 - out-of-domain arguments are rejected loudly, never answered.

Decided clauses (DESIGN section 4, C20; engines E0 descriptor domain, E2, E6):
  D1  guard table, exhaustive over the frozen cells below (entry point x rejected argument class):
      interpreting the guard prefix of the entry point on each out-of-domain ARGUMENT DESCRIPTOR
      ends in an explicit `raise` / failing `assert` of the tabulated exception family
      (C20.D1.reject), no effect (store through an argument or through self) is executed before
      it, and in the entry point's CFG pruned by the tests the descriptor decides no effect
      statement and no normal return is reachable without passing the guard statement
      (C20.D1.dominates).
  D2  converse: for the in-domain boundary descriptors (1x1, 1xn, nx1, tall, wide, Hermitian flag
      set where required, every documented option value) no guard rejects (C20.D2.accept); every
      cell guard is evaluated on its accepting side by at least one in-domain run and no in-domain
      run stops in front of a cell guard it has not evaluated (otherwise exit 2, never a pass).
  D3  QGMRESSolver.solve couples b to A (rows of b == rows of A, one column) before the core
      routine (C20.D3.coupling).
Not decided: rejections that only happen deep inside numpy (no explicit guard) are reported as
"implicit", never counted as a guard; the numeric bodies behind the guard prefix are not analysed.
Predicates are evaluated semantically by the abstract interpreter (descriptor domain) - never
matched as text; the reference cells are DESIGN Appendix A, each confirmed by reading the source.
"""
from __future__ import annotations

import ast

from qstatic.cfg import cfg_of
from qstatic.guards import (ArrDesc, Unk, Outcome, dominance_problems, extract_guards,
                            guard_still_ahead, run_entry, summary_ishermitian, GuardInterp, DescDomain, explore,
                            at_guard_test, guard_test_sites)
from qstatic.interp import ClassRef, Instance
from qstatic.src import AnalysisError

LEVEL = "other"
EXPLANATION = ("Guard prefixes of 50 public entry points (48 routines, 2 constructors) are interpreted (never run) over abstract argument "
               "descriptors (kind, ndim, shape, Hermitian flag, option value); each frozen out-of-domain cell must end in "
               "an explicit raise/assert of the tabulated family that dominates every effect and normal return in the "
               "pruned statement CFG; each in-domain boundary descriptor must pass every guard.")

INF = float("inf")


# ======================================================================================
# descriptor specs (instantiated freshly for every run)
# ======================================================================================

class Arr:
    def __init__(self, kind, shape, herm=False, val=None, herm_off=None, diag_real=None):
        self.kind, self.shape, self.herm, self.val = kind, tuple(shape), herm, val
        self.herm_off, self.diag_real = herm_off, diag_real

    def build(self, owner):
        val = self.val
        if val is None and self.kind == "quat" and all(self.shape):
            val = "nonzero"          # generic entries: away from zero by a margin (the zero matrix is a descriptor of its own)
        return ArrDesc(self.kind, self.shape, herm=self.herm, val=val, owner=owner, herm_off=self.herm_off,
                       diag_real=self.diag_real)

    def label(self):
        s = f"{self.kind}{self.shape}".replace(" ", "")
        if len(self.shape) == 2 and self.shape[0] == self.shape[1]:
            if self.herm:
                s += " herm"
            elif self.herm_off:
                s += " herm-offdiag non-real-diag"
            if self.val == "zero":
                s += " zero"
            elif self.kind == "quat":
                s += " non-herm"
        return s


class Sparse:
    def __init__(self, shape):
        self.shape = tuple(shape)

    def label(self):
        return f"SparseQuaternionMatrix{self.shape}".replace(" ", "")


class Lit:
    def __init__(self, value):
        self.value = value

    def build(self, owner):
        v = self.value
        return list(v) if isinstance(v, list) else v

    def label(self):
        return repr(self.value)


class Tup:
    """A python tuple of descriptors (component form: four real planes)."""

    def __init__(self, *items):
        self.items = items

    def build(self, owner):
        return tuple(spec_of(x).build(owner) for x in self.items)

    def label(self):
        return "(" + ", ".join(spec_of(x).label() for x in self.items) + ")"


def Q(*shape, herm=False, val=None):
    return Arr("quat", shape, herm, val)


def QD(*shape):
    """Hermitian off the diagonal, diagonal entries with non-zero imaginary parts: non-Hermitian by a margin, but
    invisible to a test that looks at the strict upper / lower triangle only."""
    return Arr("quat", shape, herm=False, herm_off=True, diag_real=False)


def R(*shape, val=None):
    return Arr("real", shape, False, val)


def C(*shape):
    return Arr("complex", shape, False)


def spec_of(v):
    return v if isinstance(v, (Arr, Sparse, Lit, Tup)) else Lit(v)


# ======================================================================================
# the frozen table
# ======================================================================================

class Cell:
    def __init__(self, cls, exc, reason, variants=None, rule="C20.D1.reject"):
        self.cls, self.exc, self.reason, self.variants, self.rule = cls, exc, reason, variants, rule


class Entry:
    def __init__(self, mod, qual, base, main=None, domain=None, herm=False, options=None, indomain=(), cells=(),
                 self_cls=None, self_sparse=None, self_new=None, nq=("real", "complex", "sparse", "list"), note=""):
        self.mod, self.qual, self.base, self.main, self.domain, self.herm = mod, qual, base, main, domain, herm
        self.options, self.indomain, self.cells = options or {}, list(indomain), list(cells)
        self.self_cls, self.self_sparse, self.nq, self.note = self_cls, self_sparse, nq, note
        self.self_new = self_new        # constructor entry: self is the (not yet caller-visible) object under construction

    @property
    def name(self):
        return self.qual


SHAPES = {
    "any": [(1, 1), (1, 3), (3, 1), (2, 2), (3, 2), (2, 3)],
    "square": [(1, 1), (2, 2), (3, 3)],
    "square2": [(2, 2), (3, 3)],                       # tridiagonalize: n >= 2 as documented
    "tall": [(1, 1), (3, 1), (2, 2), (3, 2)],
    "wide": [(1, 1), (1, 3), (2, 2), (2, 3)],
}
THOROUGH_EXTRA = {
    "any": [(4, 1), (1, 4), (4, 4), (2, 4), (4, 2)], "square": [(4, 4), (5, 5)], "square2": [(4, 4), (5, 5)],
    "tall": [(4, 1), (4, 2), (4, 4)], "wide": [(1, 4), (2, 4), (4, 4)],
}
NONSQUARE = [(2, 3), (3, 2), (1, 3), (3, 1)]
JUNK_ORD = ["nuc", 3, "Inf", -1, "f"]
JUNK_DET = ["Study2", "moore", "top", 5, None]
JUNK_SIDE = ["both", "top", "Right", 0]
JUNK_MODE = [3, -1, 5, "0"]
JUNK_BOUNDARY = ["reflect", "zero", "Periodic"]
JUNK_AXIS = ["y", "z", "X"]
JUNK_FORMAT = ["foo", "Complex", None]
JUNK_PREC = ["ilu", "LEFT", "jacobi", "left-lu"]
JUNK_COLSOLVER = ["lu", "cholesky", "QRR"]

NQ_ALL = ("real", "complex", "sparse", "list")
NQ_SHAPED = ("real", "complex", "sparse")     # entry reads .shape first: a python list fails implicitly (AttributeError), not by a guard
NQ_ARRAY = ("real", "complex")                # entry reads .ndim/.dtype first: sparse/list fail implicitly


def V(label, **over):
    return (label, over)


def _dtype_cell(reason):
    return Cell("NQ", "ValueError", reason)


def _schur(name, opt, values, junk):
    return Entry("decomp.schur", name, {"A": Q(2, 2)}, main="A", domain="square", options={opt: values}, cells=[
        Cell("ND", "ValueError", "`A.ndim != 2 or ...` first statement of the body"),
        Cell("NS", "ValueError", "`A.shape[0] != A.shape[1]` in the same guard, before hessenbergize / any copy"),
        Cell("OPT", "ValueError", f"fix 2ee4a6f: `if {opt} not in {tuple(values)!r}: raise` directly after the square guard, "
                                  f"before hessenbergize (an unknown name used to fall through to a default flavour)",
             variants=[V(f"{opt}={o!r}", **{opt: o}) for o in junk])])


TABLE = [
    # ---------------------------------------------------------------- quatica/utils.py : norms
    Entry("utils", "induced_matrix_norm_1", {"A": Q(2, 3)}, main="A", domain="any", cells=[
        _dtype_cell("`not isinstance(A, np.ndarray) or A.dtype != np.quaternion` is the first statement")]),
    Entry("utils", "induced_matrix_norm_inf", {"A": Q(2, 3)}, main="A", domain="any", cells=[
        _dtype_cell("same guard as the 1-norm, first statement")]),
    Entry("utils", "spectral_norm_2", {"A": Q(2, 3)}, main="A", domain="any", cells=[
        _dtype_cell("same guard, before the SVD import and call")]),
    Entry("utils", "matrix_norm", {"A": Q(2, 3), "ord": None}, main="A", domain="any",
          options={"ord": [None, "fro", "F", 1, 2, INF, "inf"]}, cells=[
        Cell("OPT", "ValueError", "sequence of `if ord ...: return` closed by a trailing raise; 7 documented spellings",
             variants=[V(f"ord={o!r}", ord=o) for o in JUNK_ORD]),
        Cell("NQ[ord=1]", "ValueError", "delegated to induced_matrix_norm_1 inside the return expression",
             variants="NQ", ),
        Cell("NQ[ord=2]", "ValueError", "delegated to spectral_norm_2", variants="NQ"),
        Cell("NQ[ord=inf]", "ValueError", "delegated to induced_matrix_norm_inf (both spellings np.inf and 'inf')",
             variants="NQ")]),
    # ---------------------------------------------------------------- embeddings
    Entry("utils", "real_expand", {"Q": Q(2, 3)}, main="Q", domain="any", cells=[
        _dtype_cell("`if isinstance(Q, np.ndarray) and Q.dtype == np.quaternion: ... else: raise`")]),
    Entry("utils", "real_contract", {"R": R(8, 12), "m": 2, "n": 3},
          indomain=[V("R=real(4,4) m=1 n=1", R=R(4, 4), m=1, n=1), V("R=real(4,12) m=1 n=3", R=R(4, 12), m=1, n=3),
                    V("R=real(12,4) m=3 n=1", R=R(12, 4), m=3, n=1), V("R=real(8,12) m=2 n=3")],
          cells=[Cell("SZ", "ValueError", "`R.shape != (4*m, 4*n)` first statement, before the output is allocated",
                      variants=[V("R=real(8,12) m=3 n=2", m=3, n=2), V("R=real(7,12) m=2 n=3", R=R(7, 12)),
                                V("R=real(8,8) m=2 n=3", R=R(8, 8)), V("R=real(2,3) m=2 n=3", R=R(2, 3))])]),
    # ---------------------------------------------------------------- sparse operators
    Entry("utils", "SparseQuaternionMatrix.__matmul__", {"other": Sparse((2, 2))}, self_sparse=(2, 2),
          indomain=[V("other=sparse(2,2)"), V("other=sparse(2,3)", other=Sparse((2, 3))),
                    V("other=quat(2,3)", other=Q(2, 3)), V("other=quat(2,1)", other=Q(2, 1))],
          cells=[Cell("TYPE", "TypeError", "isinstance dispatch sparse / (ndarray, quaternion) closed by `else: raise TypeError`",
                      variants=[V("other='text'", other="text"), V("other=[1, 2]", other=[1, 2]), V("other=3", other=3),
                                V("other=None", other=None)])]),
    Entry("utils", "SparseQuaternionMatrix.__mul__", {"scalar": 2}, self_sparse=(2, 2),
          indomain=[V("scalar=2"), V("scalar=2.5", scalar=2.5), V("scalar=0", scalar=0)],
          cells=[Cell("TYPE", "TypeError", "`isinstance(scalar, (int, float, np.floating))` ... `else: raise TypeError`",
                      variants=[V("scalar='text'", scalar="text"), V("scalar=[1]", scalar=[1]),
                                V("scalar=quat(2,2)", scalar=Q(2, 2)), V("scalar=None", scalar=None),
                                V("scalar=1j", scalar=1j)])]),
    # ---------------------------------------------------------------- triangular solve (component form)
    Entry("utils", "UtriangleQsparse",
          {**{f"R{i}": R(3, 3) for i in range(4)}, **{f"b{i}": R(3, 1) for i in range(4)}},
          indomain=[V("R=(3,3) b=(3,1)"),
                    V("R=(1,1) b=(1,1)", **{f"R{i}": R(1, 1) for i in range(4)}, **{f"b{i}": R(1, 1) for i in range(4)}),
                    V("R=(2,2) b=(2,3)", **{f"R{i}": R(2, 2) for i in range(4)}, **{f"b{i}": R(2, 3) for i in range(4)})],
          cells=[Cell("SZ", "ValueError", "`if m == n and m == rb: ... else: raise`; the right-hand side is copied (rebinding of "
                                          "locals) before the test, every store goes to the copies inside the accepted branch",
                      variants=[V("R=(2,3) b=(2,1)", **{f"R{i}": R(2, 3) for i in range(4)}, **{f"b{i}": R(2, 1) for i in range(4)}),
                                V("R=(3,2) b=(3,1)", **{f"R{i}": R(3, 2) for i in range(4)}),
                                V("R=(2,2) b=(3,1)", **{f"R{i}": R(2, 2) for i in range(4)}),
                                V("R=(3,3) b=(2,1)", **{f"b{i}": R(2, 1) for i in range(4)})])]),
    # ---------------------------------------------------------------- predicates / determinants / rank / null spaces
    Entry("utils", "ishermitian", {"A": Q(2, 2)}, main="A", domain="square", cells=[
        Cell("NS", "ValueError", "`r, c = A.shape; if r != c: raise` before A - A^H is formed")]),
    Entry("utils", "det", {"X": Q(2, 2, herm=True), "d": "Dieudonné"}, main="X", domain="square",
          options={"d": ["Dieudonné", "Dieudonne"]},
          indomain=[V("X=quat(1,1) herm d='Moore'", X=Q(1, 1, herm=True), d="Moore"),
                    V("X=quat(2,2) herm d='Moore'", X=Q(2, 2, herm=True), d="Moore"),
                    V("X=quat(3,3) herm d='Moore'", X=Q(3, 3, herm=True), d="Moore"),
                    V("X=quat(2,2) herm zero d='Moore'", X=Q(2, 2, herm=True, val="zero"), d="Moore")],
          cells=[Cell("NS", "ValueError", "`if r != c: raise` before the option chain",
                      variants=[V(f"X=quat{s} d={d!r}".replace(" ", ""), X=Q(*s), d=d) for s in NONSQUARE
                                for d in ("Dieudonné", "Moore")]),
                 Cell("OPT", "ValueError", "if/elif chain over d closed by `else: raise`",
                      variants=[V(f"d={o!r}", d=o) for o in JUNK_DET]),
                 Cell("STUDY", "NotImplementedError", "documented as not implemented: the 'Study' branch raises",
                      variants=[V("d='Study'", d="Study")]),
                 Cell("NH", "ValueError", "'Moore': `if not ishermitian(X): raise` before the eigen-solve is imported and called",
                      variants=[V("X=quat(1,1) non-herm d='Moore'", X=Q(1, 1), d="Moore"),
                                V("X=quat(2,2) herm-offdiag non-real-diag d='Moore'", X=QD(2, 2), d="Moore"),
                                V("X=quat(2,2) non-herm d='Moore'", X=Q(2, 2), d="Moore"),
                                V("X=quat(3,3) non-herm d='Moore'", X=Q(3, 3), d="Moore")])]),
    Entry("utils", "rank", {"X": Q(2, 3)}, main="X", domain="any", nq=NQ_SHAPED, cells=[
        _dtype_cell("delegated: rank -> classical_qsvd_full -> real_expand's dtype guard, before the SVD")]),
    Entry("utils", "quat_null_space", {"A": Q(2, 3), "side": "right"}, main="A", domain="any", nq=NQ_SHAPED,
          options={"side": ["right", "left"]}, cells=[
        _dtype_cell("delegated: classical_qsvd_full -> real_expand"),
        Cell("OPT", "ValueError", "`if side not in ['right', 'left']: raise` first statement, before the SVD",
             variants=[V(f"side={o!r}", side=o) for o in JUNK_SIDE])]),
    Entry("utils", "quat_null_right", {"A": Q(2, 3)}, main="A", domain="any", nq=NQ_SHAPED, cells=[
        _dtype_cell("delegated: quat_null_space -> classical_qsvd_full -> real_expand")]),
    Entry("utils", "quat_null_left", {"A": Q(2, 3)}, main="A", domain="any", nq=NQ_SHAPED, cells=[
        _dtype_cell("delegated: quat_null_space -> classical_qsvd_full -> real_expand")]),
    Entry("utils", "quat_kernel", {"A": Q(2, 3), "side": "right"}, main="A", domain="any", nq=NQ_SHAPED,
          options={"side": ["right", "left"]}, cells=[
        _dtype_cell("delegated through quat_null_space"),
        Cell("OPT", "ValueError", "delegated: quat_null_space's membership guard",
             variants=[V(f"side={o!r}", side=o) for o in JUNK_SIDE])]),
    # ---------------------------------------------------------------- power iterations
    Entry("utils", "power_iteration", {"A": Q(2, 2)}, main="A", domain="square", cells=[
        Cell("NS", "ValueError", "`A.shape[0] != A.shape[1]` right after the local import"),
        Cell("EMPTY", "ValueError", "`n == 0` second guard, before the random start vector is drawn",
             variants=[V("A=quat(0,0)", A=Q(0, 0))])]),
    Entry("utils", "quaternion_to_complex_adjoint", {"A": Q(2, 2), "axis": "x"}, main="A", domain="square",
          nq=NQ_ARRAY, options={"axis": ["x"]}, cells=[
        Cell("ND", "ValueError", "`A.ndim != 2 or ...` first statement"),
        Cell("NS", "ValueError", "`... or A.shape[0] != A.shape[1] or ...`"),
        _dtype_cell("`... or A.dtype != np.quaternion`"),
        Cell("OPT", "NotImplementedError", "`if axis != 'x': raise NotImplementedError` before the output is allocated",
             variants=[V(f"axis={o!r}", axis=o) for o in JUNK_AXIS])]),
    Entry("utils", "power_iteration_nonhermitian", {"A": Q(2, 2), "subfield_axis": "x"}, main="A", domain="square",
          options={"subfield_axis": ["x"], "eigenvalue_format": ["complex", "quaternion"]}, cells=[
        # fix 981eb0a: the three guards are the first statements, in front of the Hermitian fast path, so every cell
        # must hold for Hermitian (symmetric) descriptors as well
        Cell("ND", "ValueError", "`not isinstance(A, np.ndarray) or A.ndim != 2 or ...` first statement"),
        Cell("NS", "ValueError", "`... or A.shape[0] != A.shape[1] or ...` in the same guard"),
        Cell("NQ", "ValueError", "`not isinstance(A, np.ndarray) ... or A.dtype != np.quaternion`; a real symmetric ndarray used to "
                                 "take the Hermitian fast path and was answered",
             variants=[V("A=real(2,2)", A=R(2, 2)), V("A=complex(2,2)", A=C(2, 2)),
                       V("A=real(2,2) herm", A=Arr("real", (2, 2), herm=True)),
                       V("A=complex(2,2) herm", A=Arr("complex", (2, 2), herm=True)),
                       V("A=real(1,1) herm", A=Arr("real", (1, 1), herm=True)),
                       V("A=SparseQuaternionMatrix(2,2)", A=Sparse((2, 2))), V("A=list", A=[[1.0, 2.0], [2.0, 1.0]])]),
        Cell("OPT", "NotImplementedError", "`if subfield_axis != 'x': raise NotImplementedError` second guard, in front of the "
                                           "Hermitian fast path (which ignores the axis)",
             variants=[V(f"subfield_axis={o!r} A non-herm", subfield_axis=o) for o in JUNK_AXIS] +
                      [V(f"subfield_axis={o!r} A herm", subfield_axis=o, A=Q(2, 2, herm=True)) for o in JUNK_AXIS]),
        Cell("OPT[eigenvalue_format]", "ValueError", "`eigenvalue_format not in ('complex', 'quaternion')` third guard (an unknown "
                                                     "name used to mean 'complex')",
             variants=[V(f"eigenvalue_format={o!r} A non-herm", eigenvalue_format=o) for o in JUNK_FORMAT] +
                      [V(f"eigenvalue_format={o!r} A herm", eigenvalue_format=o, A=Q(2, 2, herm=True)) for o in JUNK_FORMAT])]),
    # ---------------------------------------------------------------- quatica/solver.py
    Entry("solver", "DeepLinearNewtonSchulz.compute", {"X": Q(3, 2), "layers": [2, 1]}, self_cls="DeepLinearNewtonSchulz",
          indomain=[V("X=quat(3,2) layers=[2, 1]"), V("X=quat(1,1) layers=[1, 1]", X=Q(1, 1), layers=[1, 1]),
                    V("X=quat(2,3) layers=[3, 2, 1]", X=Q(2, 3), layers=[3, 2, 1])],
          cells=[Cell("SZ", "ValueError", "`layers[0] != input_dim` after unpacking X.shape, before the weights are initialised",
                      variants=[V("X=quat(3,2) layers=[3, 1]", layers=[3, 1]), V("X=quat(3,2) layers=[1, 2]", layers=[1, 2]),
                                V("X=quat(1,1) layers=[2, 1]", X=Q(1, 1), layers=[2, 1])])]),
    Entry("solver", "QGMRESSolver.solve", {"A": Q(2, 2), "b": Q(2, 1)}, self_cls="QGMRESSolver",
          options={"self.preconditioner": ["none", None, "NONE"]},
          indomain=[V("A=quat(2,2) b=quat(2,1)"), V("A=quat(1,1) b=quat(1,1)", A=Q(1, 1), b=Q(1, 1)),
                    V("A=quat(3,3) b=quat(3,1)", A=Q(3, 3), b=Q(3, 1)),
                    V("A=4 real planes (2,2) b=4 real planes (2,1)", A=Tup(*[R(2, 2)] * 4), b=Tup(*[R(2, 1)] * 4)),
                    # with the LU preconditioner the later guards see the preconditioned system, whose shape the evaluator
                    # does not model: only the guards in front of the preconditioning block are claimed for it
                    V("self.preconditioner='left_lu' (guards in front of the preconditioning block)",
                      **{"self.preconditioner": "left_lu", "@partial": True}),
                    V("self.preconditioner='LEFT_LU' (guards in front of the preconditioning block)",
                      **{"self.preconditioner": "LEFT_LU", "@partial": True})],
          cells=[Cell("NS", "ValueError", "fix 62e019f: `shape_A = getattr(A, 'shape', None); if shape_A is not None and (len(shape_A) "
                                          "!= 2 or shape_A[0] != shape_A[1]): raise` in front of the preconditioning block, for "
                                          "every preconditioner",
                      variants=[V(f"A={Q(*sa).label()} b={Q(*sb).label()} self.preconditioner={p!r}", A=Q(*sa), b=Q(*sb),
                                  **{"self.preconditioner": p})
                                for (sa, sb) in [((2, 3), (2, 1)), ((3, 2), (3, 1)), ((1, 3), (1, 1)), ((3,), (3, 1))]
                                for p in ("none", "left_lu")]),
                 Cell("NS[components]", "ValueError", "`A0.shape[0] != A0.shape[1]` on the component planes (input given as four "
                                                      "real planes has no shape attribute and reaches this second test)",
                      variants=[V("A=4 real planes (2,3) b=4 real planes (2,1)", A=Tup(*[R(2, 3)] * 4), b=Tup(*[R(2, 1)] * 4)),
                                V("A=4 real planes (3,2) b=4 real planes (3,1)", A=Tup(*[R(3, 2)] * 4), b=Tup(*[R(3, 1)] * 4))]),
                 Cell("OPT", "ValueError", "fix 62e019f: `prec = self.preconditioner.lower(); if prec not in ('none', 'left_lu'): "
                                           "raise` in front of the preconditioning block (constructor option read through self)",
                      variants=[V(f"self.preconditioner={o!r}", **{"self.preconditioner": o}) for o in JUNK_PREC]),
                 Cell("SZ", "ValueError", "fix f5deb2d: `b0.ndim != 2 or b0.shape[0] != A0.shape[0] or b0.shape[1] != 1`; "
                                          "b0/A0 come from self._quat_to_components (interpreted on the descriptor: four "
                                          "real planes of the same shape)",
                      variants=[V("A=quat(2,2) b=quat(1,1)", b=Q(1, 1)), V("A=quat(2,2) b=quat(3,1)", b=Q(3, 1)),
                                V("A=quat(2,2) b=quat(2,2)", b=Q(2, 2)), V("A=quat(2,2) b=quat(2,)", b=Q(2)),
                                V("A=quat(3,3) b=quat(1,1)", A=Q(3, 3), b=Q(1, 1))],
                      rule="C20.D3.coupling")]),
    # constructors: the option guard sits in __init__; stores to the object under construction are not effects
    Entry("solver", "RandomizedSketchProjectPseudoinverse.__init__", {"column_solver": "qr"},
          self_new="RandomizedSketchProjectPseudoinverse",
          options={"column_solver": ["qr", "spd", "QR", "SPD", None, 3]}, cells=[
        Cell("OPT", "ValueError", "fix 071eb29: `if self.column_solver not in ('qr', 'spd'): raise` right after the (lower-cased) "
                                  "assignment; a non-string falls back to 'qr' by design",
             variants=[V(f"column_solver={o!r}", column_solver=o) for o in JUNK_COLSOLVER])]),
    Entry("solver", "HybridRSPNewtonSchulz.__init__", {"column_solver": "qr"}, self_new="HybridRSPNewtonSchulz",
          options={"column_solver": ["qr", "spd", "QR", "SPD", None, 3]}, cells=[
        Cell("OPT", "ValueError", "fix 071eb29: same guard in the hybrid solver's constructor",
             variants=[V(f"column_solver={o!r}", column_solver=o) for o in JUNK_COLSOLVER])]),
    Entry("solver", "RandomizedSketchProjectPseudoinverse.compute_column_variant", {"A": Q(3, 2)}, main="A",
          domain="tall", self_cls="RandomizedSketchProjectPseudoinverse", cells=[
        Cell("OR", "ValueError", "`m, n = A.shape; if m < n: raise` before the clamp, the sketch and X0")]),
    Entry("solver", "RandomizedSketchProjectPseudoinverse.compute_row_variant", {"A": Q(2, 3)}, main="A",
          domain="wide", self_cls="RandomizedSketchProjectPseudoinverse", cells=[
        Cell("OR", "ValueError", "`if m > n: raise` before the clamp and the sketch")]),
    Entry("solver", "HybridRSPNewtonSchulz.compute", {"A": Q(3, 2)}, main="A", domain="tall",
          self_cls="HybridRSPNewtonSchulz", cells=[
        Cell("OR", "ValueError", "`if m < n: raise` before X0 and the test sketch")]),
    Entry("solver", "CGNEQSolver.compute", {"A": Q(3, 2)}, main="A", domain="tall", self_cls="CGNEQSolver", cells=[
        Cell("OR", "ValueError", "`if m < n: raise` before X0 and the preconditioner")]),
    # ---------------------------------------------------------------- quatica/decomp/LU.py
    Entry("decomp.LU", "quaternion_modulus", {"A": Q(2, 3)}, main="A", domain="any", cells=[
        _dtype_cell("`if isinstance(...) and A.dtype == np.quaternion: ... else: raise`")]),
    Entry("decomp.LU", "quaternion_triu", {"A": Q(2, 3)}, main="A", domain="any", cells=[
        _dtype_cell("negated isinstance/dtype guard, first statement")]),
    Entry("decomp.LU", "quaternion_tril", {"A": Q(2, 3)}, main="A", domain="any", cells=[
        _dtype_cell("negated isinstance/dtype guard, first statement")]),
    Entry("decomp.LU", "quaternion_lu", {"A": Q(2, 3)}, main="A", domain="any",
          options={"return_p": [False, True]}, cells=[
        _dtype_cell("negated isinstance/dtype guard, before the working copy")]),
    # ---------------------------------------------------------------- eigen / tridiagonalisation
    Entry("decomp.eigen", "quaternion_eigendecomposition", {"A_quat": Q(2, 2, herm=True)}, main="A_quat",
          domain="square", herm=True, options={"verbose": [False, True]}, cells=[
        Cell("NS", "ValueError", "`m, n = A_quat.shape; if m != n: raise`"),
        Cell("NH", "ValueError", "`is_hermitian = np.allclose(A_quat, quat_hermitian(A_quat)); if not is_hermitian: "
                                 "<prints>; raise` before tridiagonalisation")]),
    Entry("decomp.eigen", "quaternion_eigenvalues", {"A_quat": Q(2, 2, herm=True)}, main="A_quat", domain="square",
          herm=True, cells=[Cell("NS", "ValueError", "delegated to quaternion_eigendecomposition"),
                            Cell("NH", "ValueError", "delegated to quaternion_eigendecomposition")]),
    Entry("decomp.eigen", "quaternion_eigenvectors", {"A_quat": Q(2, 2, herm=True)}, main="A_quat", domain="square",
          herm=True, cells=[Cell("NS", "ValueError", "delegated to quaternion_eigendecomposition"),
                            Cell("NH", "ValueError", "delegated to quaternion_eigendecomposition")]),
    Entry("decomp.tridiagonalize", "tridiagonalize", {"A": Q(2, 2, herm=True)}, main="A", domain="square2", herm=True,
          cells=[Cell("NS", "ValueError", "`r, c = A.shape; if r != c: raise`"),
                 Cell("SMALL", "ValueError", "`if r < 2: raise` (documented: n >= 2)",
                      variants=[V("A=quat(1,1) herm", A=Q(1, 1, herm=True))]),
                 Cell("NH", "ValueError", "`if not np.allclose(A, quat_hermitian(A), atol=1e-10): raise` before the recursion")]),
    Entry("decomp.tridiagonalize", "householder_vector", {"a": Q(3, 1, val="nonzero"), "v": R(3, 1, val="nonzero")},
          indomain=[V("a=quat(3,1) v=real(3,1)"), V("a=quat(3,) v=real(3,)", a=Q(3, val="nonzero"), v=R(3, val="nonzero")),
                    V("a=quat(1,3) v=real(1,3)", a=Q(1, 3, val="nonzero"), v=R(1, 3, val="nonzero")),
                    V("a=quat(1,1) v=real(1,1)", a=Q(1, 1, val="nonzero"), v=R(1, 1, val="nonzero"))],
          cells=[Cell("SZ", "ValueError", "`a.shape != v.shape` first statement",
                      variants=[V("a=quat(3,1) v=real(2,1)", v=R(2, 1, val="nonzero")), V("a=quat(3,1) v=real(1,3)", v=R(1, 3, val="nonzero")),
                                V("a=quat(3,) v=real(3,1)", a=Q(3, val="nonzero"))]),
                 Cell("NR", "ValueError", "`np.any(np.imag(v) != 0)`: v with non-zero imaginary parts (quaternion / complex, "
                                          "generic entries) is rejected before any arithmetic",
                      variants=[V("a=quat(3,1) v=quat(3,1)", v=Q(3, 1, val="nonzero")),
                                V("a=quat(3,1) v=complex(3,1)", v=Arr("complex", (3, 1), val="nonzero"))])]),
    Entry("decomp.tridiagonalize", "householder_matrix", {"a": Q(3, 1, val="nonzero"), "v": R(3, 1, val="nonzero")},
          indomain=[V("a=quat(3,1) v=real(3,1)"), V("a=quat(3,) v=real(3,)", a=Q(3, val="nonzero"), v=R(3, val="nonzero")),
                    V("a=quat(1,3) v=real(1,3)", a=Q(1, 3, val="nonzero"), v=R(1, 3, val="nonzero"))],
          cells=[Cell("SZ", "ValueError", "`a.shape != v.shape` first statement",
                      variants=[V("a=quat(3,1) v=real(2,1)", v=R(2, 1, val="nonzero")), V("a=quat(3,1) v=real(1,3)", v=R(1, 3, val="nonzero"))]),
                 Cell("NR", "ValueError", "delegated: householder_vector(a, v / ||v||) for v of non-zero norm; only the fresh "
                                          "identity h has been allocated before",
                      variants=[V("a=quat(3,1) v=quat(3,1)", v=Q(3, 1, val="nonzero")),
                                V("a=quat(3,1) v=complex(3,1)", v=Arr("complex", (3, 1), val="nonzero"))])]),
    # ---------------------------------------------------------------- Hessenberg / Schur
    Entry("decomp.hessenberg", "hessenbergize", {"A": Q(2, 2)}, main="A", domain="square", cells=[
        Cell("ND", "ValueError", "`A.ndim != 2 or ...` first statement"),
        Cell("NS", "ValueError", "`... or A.shape[0] != A.shape[1]` before the copy")]),
    _schur("quaternion_schur", "shift", ["rayleigh", "wilkinson", "double"], ["foo", "Rayleigh", "francis", None]),
    _schur("quaternion_schur_pure", "shift_mode", ["none", "rayleigh"], ["foo", "wilkinson", "Rayleigh", None]),
    _schur("quaternion_schur_pure_implicit", "shift_mode", ["none", "rayleigh"], ["foo", "wilkinson", "Rayleigh", None]),
    _schur("quaternion_schur_unified", "variant", ["none", "rayleigh", "implicit", "aed", "ds"],
           ["foo", "AED", "wilkinson", None]),
    _schur("quaternion_schur_experimental", "variant", ["aed_windowed", "francis_ds"], ["foo", "aed", "ds", None]),
    # ---------------------------------------------------------------- quatica/tensor.py
    Entry("tensor", "tensor_unfold", {"T": Q(2, 3, 4), "mode": 0}, options={"mode": [0, 1, 2]},
          indomain=[V("T=quat(2,3,4) mode=0"), V("T=quat(1,1,1) mode=1", T=Q(1, 1, 1), mode=1),
                    V("T=quat(1,3,1) mode=2", T=Q(1, 3, 1), mode=2)],
          cells=[Cell("ND", "ValueError", "`T.ndim != 3 or ...` first statement",
                      variants=[V("T=quat(2,3)", T=Q(2, 3)), V("T=quat(2,)", T=Q(2)), V("T=quat(2,2,2,2)", T=Q(2, 2, 2, 2))]),
                 Cell("NQ", "ValueError", "`... or T.dtype != np.quaternion`",
                      variants=[V("T=real(2,3,4)", T=R(2, 3, 4)), V("T=complex(2,3,4)", T=C(2, 3, 4))]),
                 Cell("OPT", "ValueError", "if/elif chain over mode closed by `else: raise`",
                      variants=[V(f"mode={o!r}", mode=o) for o in JUNK_MODE])]),
    Entry("tensor", "tensor_fold", {"M": Q(2, 12), "mode": 0, "shape": (2, 3, 4)},
          indomain=[V("M=quat(2,12) mode=0 shape=(2,3,4)"), V("M=quat(3,8) mode=1 shape=(2,3,4)", M=Q(3, 8), mode=1),
                    V("M=quat(4,6) mode=2 shape=(2,3,4)", M=Q(4, 6), mode=2)] +
                   [V(f"M=quat(1,1) mode={k} shape=(1,1,1)", M=Q(1, 1), mode=k, shape=(1, 1, 1)) for k in (0, 1, 2)],
          cells=[Cell("OPT", "ValueError", "if/elif chain over mode closed by `else: raise`",
                      variants=[V(f"mode={o!r}", mode=o) for o in JUNK_MODE]),
                 Cell("SZ[mode=0]", "ValueError", "`M.shape != (I, J*K)` before the reshape",
                      variants=[V("M=quat(3,8) mode=0", M=Q(3, 8)), V("M=quat(12,2) mode=0", M=Q(12, 2))]),
                 Cell("SZ[mode=1]", "ValueError", "`M.shape != (J, I*K)`",
                      variants=[V("M=quat(2,12) mode=1", mode=1), V("M=quat(8,3) mode=1", M=Q(8, 3), mode=1)]),
                 Cell("SZ[mode=2]", "ValueError", "`M.shape != (K, I*J)`",
                      variants=[V("M=quat(2,12) mode=2", mode=2), V("M=quat(6,4) mode=2", M=Q(6, 4), mode=2)])]),
    # ---------------------------------------------------------------- quatica/qslst.py
    Entry("qslst", "rgb_to_quat", {"rgb": R(2, 3, 3)},
          indomain=[V("rgb=real(2,3,3)"), V("rgb=real(1,1,3)", rgb=R(1, 1, 3)), V("rgb=real(3,1,3)", rgb=R(3, 1, 3))],
          cells=[Cell("ND", "AssertionError", "`assert rgb.ndim == 3 and ...` first statement",
                      variants=[V("rgb=real(2,3)", rgb=R(2, 3)), V("rgb=real(2,3,3,1)", rgb=R(2, 3, 3, 1))]),
                 Cell("SZ", "AssertionError", "`... and rgb.shape[2] == 3`",
                      variants=[V("rgb=real(2,3,4)", rgb=R(2, 3, 4)), V("rgb=real(2,3,1)", rgb=R(2, 3, 1))])]),
    Entry("qslst", "quat_to_rgb", {"q": R(2, 3, 4)}, options={"clip": [True, False]},
          indomain=[V("q=real(2,3,4)"), V("q=real(1,1,4)", q=R(1, 1, 4))],
          cells=[Cell("ND", "AssertionError", "`assert q.ndim == 3 and ...` first statement",
                      variants=[V("q=real(2,4)", q=R(2, 4)), V("q=real(2,3,4,1)", q=R(2, 3, 4, 1))]),
                 Cell("SZ", "AssertionError", "`... and q.shape[2] == 4`",
                      variants=[V("q=real(2,3,3)", q=R(2, 3, 3)), V("q=real(2,3,5)", q=R(2, 3, 5))])]),
    Entry("qslst", "apply_blur_fft", {"Q": R(4, 4, 4), "psf": R(3, 3), "boundary": "periodic"},
          options={"boundary": ["periodic"]}, indomain=[V("Q=real(4,4,4) psf=real(3,3)"), V("Q=real(1,1,4) psf=real(1,1)", Q=R(1, 1, 4), psf=R(1, 1))],
          cells=[Cell("OPT", "AssertionError", "`assert boundary == 'periodic'` first statement",
                      variants=[V(f"boundary={o!r}", boundary=o) for o in JUNK_BOUNDARY])]),
    Entry("qslst", "qslst_restore_fft", {"Bq": R(4, 4, 4), "psf": R(3, 3), "lam": 0.1, "boundary": "periodic"},
          options={"boundary": ["periodic"]}, indomain=[V("Bq=real(4,4,4) psf=real(3,3)"), V("Bq=real(1,1,4) psf=real(1,1)", Bq=R(1, 1, 4), psf=R(1, 1))],
          cells=[Cell("OPT", "AssertionError", "`assert boundary == 'periodic'` first statement",
                      variants=[V(f"boundary={o!r}", boundary=o) for o in JUNK_BOUNDARY])]),
    Entry("qslst", "qslst_restore_matrix", {"Bq": R(2, 3, 4), "A_mat": R(6, 6), "lam": 0.1},
          indomain=[V("Bq=real(2,3,4) A_mat=real(6,6)"), V("Bq=real(1,1,4) A_mat=real(1,1)", Bq=R(1, 1, 4), A_mat=R(1, 1)),
                    V("Bq=real(2,3,4) A_mat=real(6,6) lam=0", lam=0)],
          cells=[Cell("SZ", "AssertionError", "`N = H * W; assert A_mat.shape == (N, N)` before T = A^T A",
                      variants=[V("A_mat=real(6,5)", A_mat=R(6, 5)), V("A_mat=real(5,5)", A_mat=R(5, 5)),
                                V("A_mat=real(4,4)", A_mat=R(4, 4)), V("A_mat=real(6,)", A_mat=R(6))])]),
]

# Raise sites of the anchored public functions that are NOT domain guards (one line of reason each).
# (module, qualname, exception family) -> (count, reason)
NOT_DOMAIN_GUARDS = {
    ("decomp.LU", "quaternion_lu", "ValueError"):
        (1, "zero pivot: data-dependent breakdown, not a property of the argument class (dominance is C07-D3)"),
    ("utils", "power_iteration", "ValueError"):
        (1, "zero-norm random start vector: depends on the RNG draw, not on the argument"),
    ("utils", "power_iteration_nonhermitian", "RuntimeError"):
        (1, "internal consistency check on the length of the adjoint eigenvector"),
    ("decomp.tridiagonalize", "internal_tridiagonalizer", "ValueError"):
        (1, "internal re-check of squareness in the recursive helper; unreachable through tridiagonalize's own guard"),
}

ANCHORED_MODULES = ["utils", "solver", "decomp.qsvd", "decomp.LU", "decomp.eigen", "decomp.tridiagonalize",
                    "decomp.hessenberg", "decomp.schur", "tensor", "qslst"]


# ======================================================================================
# descriptor generation
# ======================================================================================

def _nq_variants(entry, fixed):
    main = entry.main
    base = entry.base[main]
    shape = base.shape
    out = []
    for k in entry.nq:
        if k == "real":
            out.append(V(f"{main}=real{shape}".replace(" ", ""), **{main: Arr("real", shape)}, **fixed))
        elif k == "complex":
            out.append(V(f"{main}=complex{shape}".replace(" ", ""), **{main: Arr("complex", shape)}, **fixed))
        elif k == "sparse":
            out.append(V(f"{main}=SparseQuaternionMatrix{shape}".replace(" ", ""), **{main: Sparse(shape)}, **fixed))
        elif k == "list":
            out.append(V(f"{main}=list", **{main: Lit([[1.0, 2.0], [3.0, 4.0]])}, **fixed))
    return out


def cell_variants(entry, cell):
    main = entry.main
    v = cell.variants
    if isinstance(v, list):
        return v
    cls = cell.cls
    if cls.startswith("NQ"):
        fixed = {}
        if cls == "NQ[ord=1]":
            fixed = {"ord": 1}
        elif cls == "NQ[ord=2]":
            fixed = {"ord": 2}
        if cls == "NQ[ord=inf]":
            return [(lab + " ord=inf", {**o, "ord": INF}) for lab, o in _nq_variants(entry, {})] + \
                   [(lab + " ord='inf'", {**o, "ord": "inf"}) for lab, o in _nq_variants(entry, {})]
        return [(lab + "".join(f" {k}={x!r}" for k, x in fixed.items()), o) for lab, o in _nq_variants(entry, fixed)]
    if cls == "NS":
        # generic entries, and the all-zero matrix of a non-square shape (value shortcuts must not precede the guard)
        return [V(f"{main}=quat{s}".replace(" ", ""), **{main: Q(*s)}) for s in NONSQUARE] + \
               [V(f"{main}={Q(*s, val='zero').label()} zero", **{main: Q(*s, val="zero")}) for s in [(2, 3), (1, 3)]]
    if cls == "NH":
        return [V(f"{main}=quat{s} non-herm".replace(" ", "", 1), **{main: Q(*s, herm=False)}) for s in [(1, 1), (2, 2), (3, 3)]] + \
               [V(f"{main}={QD(*s).label()}", **{main: QD(*s)}) for s in [(2, 2), (3, 3)]]
    if cls == "OR":
        shapes = [(2, 3), (1, 3), (1, 2)] if entry.domain == "tall" else [(3, 2), (3, 1), (2, 1)]
        return [V(f"{main}=quat{s}".replace(" ", ""), **{main: Q(*s)}) for s in shapes] + \
               [V(f"{main}=quat{shapes[0]} zero".replace(" ", "", 1), **{main: Q(*shapes[0], val="zero")})]
    if cls == "ND":
        return [V(f"{main}=quat{s}".replace(" ", ""), **{main: Q(*s)}) for s in [(3,), (2, 2, 2)]]
    raise AnalysisError(f"C20 table: cell class {cls} of {entry.name} has no descriptor generator")


def indomain_variants(entry, thorough):
    out = []
    if entry.main and entry.domain:
        shapes = list(SHAPES[entry.domain]) + (THOROUGH_EXTRA[entry.domain] if thorough else [])
        for s in shapes:
            square = s[0] == s[1]
            flags = [True] if (entry.herm and square) else ([True, False] if square else [False])
            for h in flags:
                spec = Q(*s, herm=h)
                out.append((f"{entry.main}={spec.label()}", {entry.main: spec}))
        if entry.herm:
            # the zero matrix is Hermitian: in the domain of every Hermitian-only routine
            for s in [x for x in shapes if x[0] == x[1]][:2]:
                spec = Q(*s, herm=True, val="zero")
                out.append((f"{entry.main}={spec.label()}", {entry.main: spec}))
    for p, vals in entry.options.items():
        for val in vals:
            out.append((f"{p}={val!r}", {p: val}))
    for lab, over in entry.indomain:
        out.append((lab, over))
    if not out:
        out.append(("base", {}))
    return out


# ======================================================================================
# running one descriptor
# ======================================================================================

class Runner:
    def __init__(self, ctx):
        self.ctx = ctx
        self.prog = ctx.program
        self.summaries = summary_ishermitian(self.prog)
        self.sparse_ci = self.prog.cls("utils", "SparseQuaternionMatrix")
        self.runs = 0

    def sparse(self, shape, owner):
        inst = Instance(self.sparse_ci, {"real": Unk("sparse plane"), "i": Unk("sparse plane"), "j": Unk("sparse plane"),
                                         "k": Unk("sparse plane"), "shape": tuple(shape)})
        inst.owner = owner
        return inst

    def solver_instance(self, clsname, kw=None):
        ci = self.prog.cls("solver", clsname)
        dom = DescDomain()
        it = GuardInterp(self.prog, dom)
        dom._interp = it
        try:
            inst = it.call(ClassRef(ci), [], dict(kw or {}))
        except Exception as e:
            raise AnalysisError(f"C20: cannot interpret {clsname}.__init__ with arguments {kw or {}}: {e}")
        inst.owner = "self"
        return inst

    def build(self, spec, owner):
        spec = spec_of(spec)
        if isinstance(spec, Sparse):
            return self.sparse(spec.shape, owner)
        return spec.build(owner)

    def run(self, entry, fi, over, chooser=None, max_steps=20000):
        call = dict(entry.base)
        call.update(over)
        call.pop("@partial", None)
        self_kw = {p[5:]: spec_of(v).build(None) for p, v in call.items() if p.startswith("self.")}
        kwargs = {p: self.build(v, p) for p, v in call.items() if not p.startswith("self.")}
        bound = None
        if entry.self_cls:
            bound = self.solver_instance(entry.self_cls, self_kw)
        elif entry.self_new:
            bound = Instance(self.prog.cls(entry.mod, entry.self_new))      # no owner: constructor stores are not effects
        elif entry.self_sparse:
            bound = self.sparse(entry.self_sparse, "self")
        self.runs += 1
        return run_entry(self.prog, fi, [], kwargs, bound_self=bound, summaries=self.summaries, chooser=chooser,
                         max_steps=max_steps)

    def run_all(self, entry, fi, over, policy, max_paths=16):
        """Every path consistent with the descriptor: UNKNOWN conditions that are not guard predicates are explored
        (both outcomes), bounded.  Returns (outcomes, complete)."""
        return explore(lambda ch: self.run(entry, fi, over, chooser=ch, max_steps=6000), policy=policy, max_paths=max_paths)


def policy_partial(interp, node, cond):
    return "stop"


def policy_d1(interp, node, cond):
    """Out-of-domain descriptor: a guard predicate that is UNKNOWN is never guessed (interpretation stops there and
    the cell is undecidable); any other data-dependent condition in front of the guard is explored both ways."""
    return "stop" if at_guard_test(interp) else None


def _passed(outcome, F, g):
    """Was guard site g (raise/assert node of function F) evaluated on its accepting side in this run?"""
    if outcome.kind == "raise" and outcome.node is g:
        return False
    if isinstance(g, ast.Assert):
        return outcome.evaluated(F, g)
    cfg = cfg_of(F)
    if not cfg.has_stmt(g):
        return False
    for (b, _lab) in cfg.control_deps(cfg.node_of(g)):
        st = cfg.nodes[b].stmt
        if st is not None and outcome.evaluated(F, st):
            return True
        if st is not None and cfg.nodes[b].kind == "stmt" and outcome.completed(F, st):
            return True        # guard = handler of a try: the protected statement ran without raising (dict lookup hit)
        if st is not None and cfg.nodes[b].kind == "loop" and isinstance(st, ast.For) and outcome.loop_decided(F, st):
            return True        # guard = raise behind / in the else of a walk over a constant table: the walk left early
    return False


def _stop_at_guard_test(outcome):
    """Did interpretation stop while evaluating the test of a guard site (predicate not evaluable)?"""
    if outcome.kind != "stop" or not outcome.stack:
        return False
    if any(isinstance(st, (ast.For, ast.While, ast.AsyncFor)) for (_d, _f, st) in outcome.stack):
        # the run is inside a loop: past every guard prefix (no domain guard of the table, own or delegated, sits in a
        # loop), deep in the numeric body; an unknown shape test of some helper there says nothing about the cell
        # -> "not rejected", not "undecidable"
        return False
    d, fi, stmt = outcome.stack[-1]
    try:
        if id(stmt) not in guard_test_sites(fi):
            return False
        sites = [g for g in extract_guards(fi) if g.test_stmt is stmt or g.node is stmt]
        if sites and all((fi.module.name, fi.qualname, g.exc) in NOT_DOMAIN_GUARDS for g in sites):
            return False        # a listed data-dependent raise (zero pivot, zero-norm start vector ...): not a domain guard
        return True
    except Exception:
        return False


# ======================================================================================
# rule
# ======================================================================================

def run(ctx):
    prog = ctx.program
    R_ = Runner(ctx)
    ctx.assume("python ast reflects the code that runs",
               "argument descriptors (kind, ndim, small concrete shape, Hermitian flag 'by a margin', generic non-zero "
               "entries, option value) are a complete abstraction of what guard predicates read: isinstance, dtype, ndim, "
               "shape comparisons, membership tests, np.allclose against the adjoint",
               "solver objects are built by interpreting __init__ with default arguments (QGMRESSolver: no preconditioner)",
               "only explicit raise/assert guards are claimed; failures deep inside numpy are reported as implicit, not counted")
    problems = []          # fail-closed conditions (exit 2 unless a violation is reported)
    fired = {}             # id(raise/assert node) -> (FuncInfo, node)
    n_entries = 0
    n_cells = 0
    cells_listing = []
    for entry in TABLE:
        fi = prog.func(entry.mod, entry.qual)
        ctx.touch(fi)
        n_entries += 1
        cellguards = []     # (cell name, entry-level guard stmt, F, g node)
        # ------------------------------------------------------------------ D1 (+ D3)
        for cell in entry.cells:
            cname = f"{entry.name}:{cell.cls}"
            cells_listing.append(cname)
            n_cells += 1
            variants = cell_variants(entry, cell)
            bad, dom_bad, undecidable = [], [], []
            loc = fi.loc()
            for (lab, over) in variants:
                outs, complete = R_.run_all(entry, fi, over, policy_d1)
                if not complete and all(o.kind == "raise" for o in outs):
                    undecidable.append(f"{lab}: more than {len(outs)} data-dependent paths in front of the guard")
                for o in outs:
                    path = f" [on a path with {o.n_chosen} data-dependent branch(es) explored]" if o.n_chosen else ""
                    if o.kind == "raise":
                        F = o.raise_fi
                        fired[id(o.node)] = (F, o.node)
                        ctx.touch(F)
                        if o.exc != cell.exc:
                            bad.append(f"{lab}: raises {o.exc}, table says {cell.exc}")
                        probs, g = dominance_problems(prog, fi, o)
                        if g is not None:
                            if not any(g is c[1] and o.node is c[3] for c in cellguards):
                                cellguards.append((cname, g, F, o.node))
                            loc = fi.loc(g)
                        for (st, text) in probs:
                            msg = f"{lab}: {text}" + (f" ({fi.loc(st)})" if st is not None else "")
                            if msg not in dom_bad:
                                dom_bad.append(msg)
                    elif _stop_at_guard_test(o):
                        undecidable.append(f"{lab}: {o.describe()}")
                    else:
                        es = o.entry_stmts()
                        where = f" [{fi.loc(es[-1])}]" if es else ""
                        eff = "; effects executed: " + ", ".join(e["text"] for e in o.effects) if o.effects else ""
                        bad.append(f"{lab}: {o.describe()}{where}{eff}{path}")
            if undecidable:
                problems.append(f"{cname}: guard predicate not evaluable on the descriptor ({undecidable[0]})")
            if undecidable and not bad:
                continue            # neither discharged nor violated: exit 2 through `problems`
            ctx.ob(cell.rule, cname, not bad,
                   f"out-of-domain cell {cname} ({cell.exc} expected before any effect) is not rejected: " + " | ".join(bad[:4]),
                   where=fi.where, construct=cname, loc=loc, detail={"reason": cell.reason, "descriptors": [v[0] for v in variants]})
            ctx.ob("C20.D1.dominates", cname, not dom_bad,
                   f"guard of cell {cname} does not dominate every effect / return: " + " | ".join(dom_bad[:4]),
                   where=fi.where, construct=cname + " guard does not dominate", loc=loc)
        # ------------------------------------------------------------------ D2
        passed_any = {i: False for i in range(len(cellguards))}
        cell_nodes = {id(node) for (_c, _g, _F, node) in cellguards}

        def policy_d2(interp, node, cond, fi=fi, cellguards=cellguards):
            """In-domain descriptor: UNKNOWN guard predicates are never guessed; other data-dependent conditions are
            explored both ways only while a cell guard that has not been evaluated yet is still ahead."""
            if at_guard_test(interp):
                return "stop"
            here = Outcome("stop", interp, stack=list(interp.stmt_stack))
            ahead = any(guard_still_ahead(prog, fi, here, g, F, nd) for (_c, g, F, nd) in cellguards
                        if not _passed(here, F, nd))
            return None if ahead else "stop"

        for (lab, over) in indomain_variants(entry, ctx.thorough):
            partial = bool(over.get("@partial"))
            outs, complete = R_.run_all(entry, fi, over, policy_partial if partial else policy_d2)
            inst = f"{entry.name}:in-domain {lab}"
            if not complete:
                problems.append(f"{inst}: more than {len(outs)} data-dependent paths in front of a guard")
            rejected = [o for o in outs if o.kind == "raise" and (o.n_chosen == 0 or id(o.node) in cell_nodes)]
            if rejected:
                o = rejected[0]
                ctx.ob("C20.D2.accept", inst, False,
                       f"in-domain descriptor {lab} is rejected: {o.describe()} ({o.raise_fi.loc(o.node)})",
                       where=fi.where, construct=f"{entry.name}:in-domain {lab} rejected", loc=o.raise_fi.loc(o.node))
                continue
            ctx.ob("C20.D2.accept", inst, True, where=fi.where, loc=fi.loc())
            for o in outs:
                if o.kind == "raise":
                    continue          # data-dependent raise on an explored branch (not a guard of the table)
                if o.kind == "implicit" and not partial and any(
                        not _passed(o, F, node) and guard_still_ahead(prog, fi, o, g, F, node)
                        for (_c, g, F, node) in cellguards):
                    # a predicted python/numpy failure in front of a guard that has not been evaluated: undecidable.  Behind
                    # every guard (deep in the numeric body, where the shape model is only approximate) it is E9a's business.
                    problems.append(f"{inst}: the descriptor model predicts an implicit {o.exc} ({o.reason}); cannot decide acceptance")
                for i, (cname, g, F, node) in enumerate(cellguards):
                    if _passed(o, F, node):
                        passed_any[i] = True
                if o.kind != "return" and not partial:
                    names = sorted({c for (c, g, F, node) in cellguards
                                    if not _passed(o, F, node) and guard_still_ahead(prog, fi, o, g, F, node)})
                    if names:
                        problems.append(f"{inst}: interpretation stops ({o.reason}) in front of the guard(s) of {names} "
                                        f"without having evaluated them")
        for i, (cname, g, F, node) in enumerate(cellguards):
            if not passed_any[i]:
                problems.append(f"{cname}: no in-domain descriptor evaluates this guard on its accepting side (D2 would be vacuous)")
        # ------------------------------------------------------------------ raise sites of the entry point itself
        _check_sites(prog, fi, fired, problems, ctx)
    ctx.notes["entry_points"] = n_entries
    ctx.notes["cells"] = cells_listing
    ctx.notes["descriptor_runs"] = R_.runs
    ctx.notes["not_domain_guards"] = {f"{k[0]}:{k[1]}:{k[2]}": v[1] for k, v in NOT_DOMAIN_GUARDS.items()}
    # ---------------------------------------------------------------------- thorough: sweep of every public function
    if ctx.thorough:
        _sweep(prog, fired, problems, ctx)
    ctx.notes["fail_closed_problems"] = problems[:20]
    if problems and not ctx.findings:
        raise AnalysisError("C20 cannot decide: " + " || ".join(problems[:6]) +
                            (f" (+{len(problems) - 6} more)" if len(problems) > 6 else ""))
    for p in problems[:10]:
        print(f"NOTE (undecided, reported next to the violation): {p}")
    if not ctx.findings:
        # confirmed by reading: 50 entry points (48 routines + 2 constructors), 94 cells (93 D1 + the D3 coupling cell),
        # 324 in-domain descriptors in the quick tier
        ctx.require_instances("C20.D1.reject", 93)
        ctx.require_instances("C20.D1.dominates", 94)
        ctx.require_instances("C20.D2.accept", 320)
        ctx.require_instances("C20.D3.coupling", 1)
        if n_entries < 50:
            raise AnalysisError(f"C20: {n_entries} entry points analysed, 50 confirmed by reading")


def _check_sites(prog, fi, fired, problems, ctx, seen=None):
    """Every raise/assert of fi either fired for some out-of-domain cell or is a listed non-domain guard."""
    by_exc = {}
    for gs in extract_guards(fi):
        if gs.role == "handler-raise" and gs.exc == "<re-raise>":
            continue
        if id(gs.node) in fired:
            continue
        by_exc.setdefault(gs.exc, []).append(gs)
    for exc, sites in by_exc.items():
        quota = NOT_DOMAIN_GUARDS.get((fi.module.name, fi.qualname, exc), (0, ""))[0]
        if len(sites) > quota:
            locs = ", ".join(fi.loc(s.node) for s in sites)
            problems.append(f"{fi.qualname}: {len(sites)} {exc} site(s) ({locs}) are neither the guard of a table cell nor "
                            f"listed as not-a-domain-guard ({quota} listed): new or unexercised guard")
    return by_exc


def _sweep(prog, fired, problems, ctx):
    """Thorough tier: every public function / method of the anchored modules; those that raise or assert anywhere
    must be accounted for (table cell that fired, or NOT_DOMAIN_GUARDS with a reason)."""
    table_keys = {(e.mod, e.qual) for e in TABLE}
    listing = []
    n_funcs = 0
    for mname in ANCHORED_MODULES:
        mod = prog.module(mname)
        for f in mod.all_funcs:
            if f.parent is not None:
                continue
            nm = f.name
            public = not nm.startswith("_") or (nm.startswith("__") and nm.endswith("__") and nm != "__init__")
            if not public:
                continue
            n_funcs += 1
            ctx.touch(f)
            sites = extract_guards(f)
            if not sites:
                continue
            listing.append(f"{mname}:{f.qualname} ({len(sites)} site(s){'' if (mname, f.qualname) in table_keys else ', not a table entry'})")
            if (mname, f.qualname) not in table_keys:
                _check_sites(prog, f, fired, problems, ctx)
            ctx.ob("C20.sweep.accounted", f"{mname}:{f.qualname}", True, where=f.where, loc=f.loc())
    ctx.notes["sweep_public_functions"] = n_funcs
    ctx.notes["sweep_functions_with_guards"] = listing
    for key in NOT_DOMAIN_GUARDS:
        prog.func(key[0], key[1])       # a vanished non-domain-guard anchor is an analysis error as well
